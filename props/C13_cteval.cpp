// C13 — compile-time evaluation equals run-time execution.   Engine E4 (generated program): gen/C13_gen.py writes
// C13_gen_<parts>.hpp into the build directory (constexpr argument tables + the list C13_OBLIGATIONS of
// (function, table) instantiations).  This one source is compiled into six harnesses (props/registry.d/C13.json):
// three groups of parts (-DC13_PART_<PART>..., -DC13_GEN_HEADER="...") x two optimisation levels (-O2 / -O0 appended
// after bin/check's -O1).  Parts: CM64 CM32 CMLD (cmath double/float/long double), INT8 NUM8 (8-bit exhaustive: cctype,
// bit, numeric), W1632 W64 (wider integers, bit_cast), CSTR (C strings, string_view, char_traits), SCEN (constexpr digests
// of container / string / charconv / algorithm / chrono / bitset histories, float-element ranges), CONT (flat_set /
// static_set / static_vector / inplace_string / sorted array at every fill up to full capacity x key sweep), HET (value-taking
// algorithms on 1- and 2-byte element arrays with wider needles that are not representable in the element type), MIX (gcd,
// lcm, cmp_*, in_range, saturate_cast over every mixed pair of integer types at the types' own limits), DUR (duration_cast /
// floor / ceil / round among 32-bit durations where count * num exceeds INT32_MAX), CAL (calendar types with field values
// that are not ok()), DEG (algorithms with a count / middle iterator at 0, size, size+1, huge, on empty ranges); HET, MIX, DUR, CAL, DEG are attached to the -O0
// harnesses only (one code path on this tree, the -O0 translation units compile in half the time), WSTR (every character type: char_traits,
// string_view, inplace_string, strn*/wcsn*/wmem* on exact-size unterminated arrays).
//
// For every obligation (function F, argument tuple a):
//   compile time : F::call(a) is evaluated by the compiler into a constexpr table.  Tables are built block-wise; every
//                  block is wrapped in the non-fatal probe  requires { typename integral_constant<int,(eval_block(),0)>; }
//                  and a block that is not a constant expression is split recursively (instantiated only on failure) down
//                  to the single obligation, which is then RECORDED as "not a constant expression" - the build never breaks.
//   run time     : the same F::call(a) with the argument words read through volatile, so nothing is folded and
//                  is_constant_evaluated() is false (builtin / hardware path).
//   oracle       : bit pattern of the compile-time result == bit pattern of the run-time result (all NaNs are one value)
//                  and the constant evaluation succeeded.  NOT compared with libm / std (C16, C14, C18 do that).
// Only arguments inside the documented domain are generated (F::dom): lrint/llrint only where the rounded value fits,
// bit_ceil only where the result is representable, div_sat / fmod / remainder y != 0, gcd/lcm |m|,|n|,lcm representable,
// *_bit pos < digits, no IEEE overflow / invalid-operation inputs (GCC rejects those in constant expressions whatever the
// library does).  etl::memchr/memcmp are `inline`, not constexpr, on this tree: not part of the check
// (char_traits::find/compare, which share their loops and are constexpr, are).  Long double overloads: arguments hi + lo
// of two doubles, result compared through an exact (double, remainder) digest; the extended exponent range is not visited.
// Compiler budgets (registry flags): -fconstexpr-depth=4096 -fconstexpr-ops-limit=100000000 (per block of <= 1024
// obligations, and again per bisected half) -fconstexpr-loop-limit=65536 (no generated argument makes a library loop run
// longer; a non-terminating constant evaluation becomes a recorded failure instead of an endless build).
//
// Known deviations are exclusion classes (F::excl -> tag): an obligation of a class is skipped only when bin/check passes
// the tag (--exclude), i.e. while a matching open entry of known_findings.json still reproduces; replay ignores tags.
// Case string: "function|0xARG0,0xARG1,0xARG2" (bit patterns; strings packed little-endian, NUL-terminated, in one word).
// Developer aid: C13_LIST=1 ./harness --mode run ...  prints every failing obligation with its class instead of stopping.
#include <etl/algorithm.hpp>
#include <etl/array.hpp>
#include <etl/bit.hpp>
#include <etl/bitset.hpp>
#include <etl/cctype.hpp>
#include <etl/charconv.hpp>
#include <etl/chrono.hpp>
#include <etl/cmath.hpp>
#include <etl/cstdlib.hpp>
#include <etl/cstring.hpp>
#include <etl/cwchar.hpp>
#include <etl/flat_set.hpp>
#include <etl/functional.hpp>
#include <etl/numeric.hpp>
#include <etl/utility.hpp>
#include <etl/set.hpp>
#include <etl/string.hpp>
#include <etl/string_view.hpp>
#include <etl/vector.hpp>

#include <array>
#include <bit>
#include <cfloat>
#include <climits>
#include <limits>
#include <string_view>
#include <type_traits>
#include <utility>

#include "verif.hpp"

namespace c13 {

using u64 = std::uint64_t;
using i64 = std::int64_t;
using u32 = std::uint32_t;

struct Args {
    u64 v[3];
    constexpr auto operator==(Args const& o) const -> bool { return v[0] == o.v[0] && v[1] == o.v[1] && v[2] == o.v[2]; }
};

// ------------------------------------------------------------------ argument / result coding
struct None { using type = None; };                    // unused argument slot
struct Ch { using type = int; };                       // int holding a character (cctype, strchr)
struct Str { using type = u64; };                      // packed C string (<= 7 chars)
struct Cnt { using type = std::size_t; };              // size_t count
struct Seed { using type = u64; };                     // scenario seed
struct BSeq { using type = u64; };                     // <= 15 elements: 4-bit indices (1..8) into the element alphabet kElem, 0 ends
template <typename C>
struct WSeq { using type = u64; using char_type = C; }; // sequence of <= 15 code units of C: 4-bit alphabet indices, 0 ends
template <typename C>
struct WUnit { using type = u64; using char_type = C; }; // one code unit of C: alphabet index 1..12
template <typename T>
inline constexpr bool is_wseq = false;
template <typename C>
inline constexpr bool is_wseq<WSeq<C>> = true;
template <typename T>
inline constexpr bool is_wunit = false;
template <typename C>
inline constexpr bool is_wunit<WUnit<C>> = true;
// twelve code units per character type; byte order and value order disagree (0x00ff / 0x0100, 0x01ff / 0x0200,
// 0x20ac / 0x21ab), top bits, supplementary-plane values and negative wchar_t are all present
template <typename C>
struct Alpha;
template <>
struct Alpha<char> { static constexpr unsigned long v[12] = {0x61, 0x62, 0x01, 0x7f, 0x80, 0x81, 0xe9, 0xfe, 0xff, 0x20, 0x41, 0x30}; };
template <>
struct Alpha<char8_t> { static constexpr unsigned long v[12] = {0x61, 0x62, 0x01, 0x7f, 0x80, 0x81, 0xe9, 0xfe, 0xff, 0x20, 0x41, 0x30}; };
template <>
struct Alpha<char16_t> { static constexpr unsigned long v[12] = {0x0061, 0x00ff, 0x0100, 0x01ff, 0x0200, 0x20ac, 0x21ab, 0x7fff, 0x8000, 0xffff, 0xff00, 0x0001}; };
template <>
struct Alpha<char32_t> { static constexpr unsigned long v[12] = {0x61, 0xff, 0x100, 0x1ff, 0x200, 0x20ac, 0x21ab, 0xffff, 0x10000, 0x10ffff, 0x80000000UL, 0xffffffffUL}; };
template <>
struct Alpha<wchar_t> { static constexpr unsigned long v[12] = {0x61, 0xff, 0x100, 0x1ff, 0x200, 0x20ac, 0x21ab, 0xffff, 0x10000, 0x10ffff, 0x80000000UL, 0xffffff00UL}; };
template <typename C>
constexpr auto unit(u64 idx) -> C { return static_cast<C>(Alpha<C>::v[(idx - 1) % 12]); }
struct LD { using type = long double; };               // long double given as the bits of a double (hi) ...
struct LDlo { using type = double; };                  // ... plus the bits of a second double (lo): value = hi + lo, exact
template <typename T>
struct arg_type { using type = T; };
template <typename T>
    requires requires { typename T::type; }
struct arg_type<T> { using type = typename T::type; };
template <typename T>
using arg_t = typename arg_type<T>::type;

template <typename T>
constexpr auto as(u64 b) -> arg_t<T>
{
    using R = arg_t<T>;
    if constexpr (std::is_same_v<R, None>) {
        return None{};
    } else if constexpr (std::is_same_v<R, float>) {
        return std::bit_cast<float>(static_cast<u32>(b));
    } else if constexpr (std::is_same_v<R, double>) {
        return std::bit_cast<double>(b);
    } else if constexpr (std::is_same_v<R, long double>) {
        return static_cast<long double>(std::bit_cast<double>(b));
    } else if constexpr (std::is_same_v<R, bool>) {
        return b != 0;
    } else {
        return static_cast<R>(b); // integral: modular
    }
}
// hi + lo without an invalid operation (lo is 0 whenever hi is not finite)
constexpr auto ld(long double hi, double lo) -> long double { return lo == 0 ? hi : hi + static_cast<long double>(lo); }
template <typename T>
constexpr auto res(T v) -> u64
{
    if constexpr (std::is_same_v<T, float>) {
        return v != v ? u64{0x7fc00000U} : u64{std::bit_cast<u32>(v)};
    } else if constexpr (std::is_same_v<T, double>) {
        return v != v ? u64{0x7ff8000000000000ULL} : std::bit_cast<u64>(v);
    } else if constexpr (std::is_same_v<T, long double>) {
        // digest of the 80-bit value: (double)v and the exact remainder v - (double)v; injective for |v| <= DBL_MAX whose
        // remainder is a double (all results of the tables), never a false alarm elsewhere (equal values, equal digests)
        if (v != v) { return 0x7ff8000000000000ULL; }
        auto const hi = static_cast<double>(v);
        if (hi > DBL_MAX || hi < -DBL_MAX) { return std::bit_cast<u64>(hi); }
        auto const lo = static_cast<double>(v - static_cast<long double>(hi));
        return std::bit_cast<u64>(hi) ^ (std::bit_cast<u64>(lo) * 0x9E3779B97F4A7C15ULL);
    } else if constexpr (std::is_same_v<T, bool>) {
        return v ? 1U : 0U;
    } else {
        static_assert(std::is_integral_v<T>);
        return static_cast<u64>(static_cast<std::make_unsigned_t<T>>(v));
    }
}

// exact-size NUL-terminated copy of a packed string: a transient allocation at compile time (every read past the
// terminator makes the evaluation non-constant), a heap block at run time (ASan)
struct CStr {
    char* p;
    std::size_t n;
    constexpr explicit CStr(u64 packed) : p{nullptr}, n{0}
    {
        while (((packed >> (8 * n)) & 0xff) != 0) { ++n; }
        p = new char[n + 1];
        for (std::size_t i = 0; i < n; ++i) { p[i] = static_cast<char>((packed >> (8 * i)) & 0xff); }
        p[n] = '\0';
    }
    constexpr ~CStr() { delete[] p; }
    CStr(CStr const&)                    = delete;
    auto operator=(CStr const&) -> CStr& = delete;
};
constexpr auto off(char const* r, char const* base) -> long { return r == nullptr ? -1L : static_cast<long>(r - base); }

// ------------------------------------------------------------------ argument classes (non-trivial rule, labels)
enum : unsigned { kZero = 1, kDenormal = 2, kTie = 4, kBig = 8, kInfNan = 16, kHighBit = 32, kNegative = 64, kFloat = 128, kChar = 256, kInt = 512, kTopBit = 1024 };

template <typename T>
auto classify_arg(u64 b) -> unsigned
{
    using R = arg_t<T>;
    if constexpr (std::is_same_v<T, None> || std::is_same_v<T, Seed>) {
        return 0;
    } else if constexpr (std::is_same_v<T, LDlo>) {
        auto const lo = std::bit_cast<double>(b);
        return (lo == 0.5 || lo == -0.5) ? (kFloat | kTie | kBig) : 0U; // n + .5 with n beyond the double range of ties
    } else if constexpr (std::is_floating_point_v<R>) {
        auto const x      = static_cast<double>(as<T>(b));
        constexpr auto lim = std::is_same_v<R, float> ? 8388608.0 : std::is_same_v<R, long double> ? 9223372036854775808.0 : 4503599627370496.0;
        unsigned c        = kFloat;
        if (x != x || x == HUGE_VAL || x == -HUGE_VAL) { return c | kInfNan; }
        if (x == 0) { return c | kZero; }
        auto const ax = x < 0 ? -x : x;
        if (ax < (std::is_same_v<R, float> ? static_cast<double>(FLT_MIN) : DBL_MIN)) { return c | kDenormal; } // (denormal as a double for long double)
        if (ax >= lim) { return c | kBig; }
        auto const fl = __builtin_floor(ax);
        if (ax - fl == 0.5) { c |= kTie; }
        return c;
    } else if constexpr (std::is_same_v<T, BSeq>) {
        return kChar | kHighBit | ((b & 0xf) == 0 ? kZero : 0U); // element-index sequences: the alphabet is all boundary values
    } else if constexpr (is_wseq<T> || is_wunit<T>) {
        unsigned c = kChar;
        if ((b & 0xf) == 0) { c |= kZero; }
        for (int i = 0; i < 16 && ((b >> (4 * i)) & 0xf) != 0; ++i) {
            if (Alpha<typename T::char_type>::v[((b >> (4 * i)) & 0xf) - 1] > 0x7f) { c |= kHighBit; }
        }
        return c;
    } else if constexpr (std::is_same_v<T, Ch>) {
        auto const ch = as<T>(b);
        return kChar | ((ch < 0 || ch > 127) ? kHighBit : 0U);
    } else if constexpr (std::is_same_v<T, Str>) {
        unsigned c = kChar;
        if ((b & 0xff) == 0) { c |= kZero; }
        for (int i = 0; i < 8; ++i) {
            if (((b >> (8 * i)) & 0x80) != 0) { c |= kHighBit; }
        }
        return c;
    } else if constexpr (std::is_signed_v<R>) {
        auto const x = as<T>(b);
        return kInt | (x < 0 ? kNegative : 0U) | (x == 0 ? kZero : 0U);
    } else {
        auto const x = as<T>(b);
        return kInt | (x == 0 ? kZero : 0U) | ((x >> (sizeof(R) * 8 - 1)) != 0 ? kTopBit : 0U);
    }
}

template <typename T>
auto show_arg(u64 b) -> std::string
{
    using R = arg_t<T>;
    char buf[96];
    if constexpr (std::is_same_v<T, None>) {
        return "";
    } else if constexpr (std::is_same_v<R, float>) {
        std::snprintf(buf, sizeof buf, "0x%08llx=%a", static_cast<unsigned long long>(b & 0xffffffffULL), static_cast<double>(as<T>(b)));
        return buf;
    } else if constexpr (std::is_same_v<R, double>) {
        std::snprintf(buf, sizeof buf, "0x%016llx=%a", static_cast<unsigned long long>(b), as<T>(b));
        return buf;
    } else if constexpr (std::is_same_v<R, long double>) {
        std::snprintf(buf, sizeof buf, "0x%016llx=%aL", static_cast<unsigned long long>(b), std::bit_cast<double>(b));
        return buf;
    } else if constexpr (std::is_same_v<T, Str>) {
        std::string s = "\"";
        for (int i = 0; i < 8; ++i) {
            auto const c = static_cast<unsigned>((b >> (8 * i)) & 0xff);
            if (c == 0) { break; }
            if (c >= 0x20 && c < 0x7f && c != '"' && c != '\\') {
                s += static_cast<char>(c);
            } else {
                std::snprintf(buf, sizeof buf, "\\x%02x", c);
                s += buf;
            }
        }
        return s + "\"";
    } else if constexpr (is_wseq<T> || is_wunit<T>) {
        std::string o = is_wseq<T> ? "[" : "";
        for (int i = 0; i < 16 && ((b >> (4 * i)) & 0xf) != 0; ++i) {
            std::snprintf(buf, sizeof buf, "%s0x%lx", i == 0 ? "" : " ", Alpha<typename T::char_type>::v[((b >> (4 * i)) & 0xf) - 1]);
            o += buf;
        }
        return o + (is_wseq<T> ? "]" : "");
    } else if constexpr (std::is_same_v<T, BSeq>) {
        std::string o = "{";
        for (int i = 0; i < 16 && ((b >> (4 * i)) & 0xf) != 0; ++i) {
            std::snprintf(buf, sizeof buf, "%s#%u", i == 0 ? "" : " ", static_cast<unsigned>((b >> (4 * i)) & 0xf));
            o += buf;
        }
        return o + "}";
    } else if constexpr (std::is_same_v<T, Seed>) {
        std::snprintf(buf, sizeof buf, "seed 0x%016llx", static_cast<unsigned long long>(b));
        return buf;
    } else if constexpr (std::is_signed_v<R>) {
        std::snprintf(buf, sizeof buf, "%lld", static_cast<long long>(as<T>(b)));
        return buf;
    } else {
        std::snprintf(buf, sizeof buf, "%llu", static_cast<unsigned long long>(as<T>(b)));
        return buf;
    }
}
template <typename R>
auto show_result(u64 r) -> std::string
{
    char buf[96];
    if constexpr (std::is_same_v<R, float>) {
        std::snprintf(buf, sizeof buf, "0x%08llx (%a)", static_cast<unsigned long long>(r), static_cast<double>(std::bit_cast<float>(static_cast<u32>(r))));
    } else if constexpr (std::is_same_v<R, long double>) {
        std::snprintf(buf, sizeof buf, "digest 0x%016llx", static_cast<unsigned long long>(r));
    } else if constexpr (std::is_same_v<R, double>) {
        std::snprintf(buf, sizeof buf, "0x%016llx (%a)", static_cast<unsigned long long>(r), std::bit_cast<double>(r));
    } else if constexpr (std::is_same_v<R, bool>) {
        std::snprintf(buf, sizeof buf, "%s", r != 0 ? "true" : "false");
    } else if constexpr (std::is_signed_v<R>) {
        std::snprintf(buf, sizeof buf, "%lld", static_cast<long long>(static_cast<R>(r)));
    } else {
        std::snprintf(buf, sizeof buf, "%llu (0x%llx)", static_cast<unsigned long long>(r), static_cast<unsigned long long>(r));
    }
    return buf;
}

// ------------------------------------------------------------------ domains
template <auto const& Data, std::size_t N>
struct Table {
    static constexpr std::size_t size = N;
    static constexpr auto arg(std::size_t i) -> Args { return Args{{Data[i][0], Data[i][1], Data[i][2]}}; }
};
struct dom_u8 {
    static constexpr char const* name = "all 8-bit values";
    static constexpr std::size_t size = 256;
    static constexpr auto arg(std::size_t i) -> Args { return Args{{i, 0, 0}}; }
};
struct dom_u8x8 {
    static constexpr char const* name = "all pairs of 8-bit values";
    static constexpr std::size_t size = 65536;
    static constexpr auto arg(std::size_t i) -> Args { return Args{{i & 255U, i >> 8U, 0}}; }
};
// quick tier: every first operand against 64 second operands chosen at the boundaries (the thorough tier runs all pairs)
inline constexpr unsigned char kSecond[64] = {0, 1, 2, 3, 4, 5, 6, 7, 8, 9, 10, 12, 15, 16, 17, 24, 31, 32, 33, 48, 63, 64, 65, 96, 100, 101, 120, 125, 126, 127, 128, 129,
    130, 131, 135, 144, 156, 160, 191, 192, 193, 200, 223, 224, 225, 231, 239, 240, 241, 245, 246, 247, 248, 249, 250, 251, 252, 253, 254, 255, 77, 85, 170, 204};
struct dom_u8x8q {
    static constexpr char const* name = "all 8-bit values x 64 boundary 8-bit values";
    static constexpr std::size_t size = 256 * 64;
    static constexpr auto arg(std::size_t i) -> Args { return Args{{i & 255U, kSecond[i >> 8U], 0}}; }
};
struct dom_cctype {
    static constexpr char const* name = "EOF and all unsigned char values";
    static constexpr std::size_t size = 257;
    static constexpr auto arg(std::size_t i) -> Args { return Args{{static_cast<u64>(static_cast<u32>(static_cast<int>(i) - 1)), 0, 0}}; }
};
struct dom_u8_rot {
    static constexpr char const* name = "all 8-bit values x shift -17..17";
    static constexpr std::size_t size = 256 * 35;
    static constexpr auto arg(std::size_t i) -> Args { return Args{{i & 255U, static_cast<u64>(static_cast<u32>(static_cast<int>(i >> 8U) - 17)), 0}}; }
};
struct dom_u8_pos {
    static constexpr char const* name = "all 8-bit values x bit position 0..7";
    static constexpr std::size_t size = 256 * 8;
    static constexpr auto arg(std::size_t i) -> Args { return Args{{i & 255U, i >> 8U, 0}}; }
};

// ------------------------------------------------------------------ compile-time tables with the non-fatal probe
struct Ct {
    u64 v;
    bool ok;
};
inline constexpr std::size_t kBlock = 1024;

// a run of obligations whose results the compiler produced (v != nullptr) or one obligation it could not evaluate
struct Seg {
    std::size_t lo, hi;
    u64 const* v;
};
[[gnu::noinline]] inline void add_seg(std::vector<Seg>& out, std::size_t lo, std::size_t hi, u64 const* v) { out.push_back(Seg{lo, hi, v}); }

template <typename F, typename D, std::size_t Lo, std::size_t Hi>
constexpr auto eval_block() -> std::array<u64, Hi - Lo>
{
    std::array<u64, Hi - Lo> o{};
    for (std::size_t i = Lo; i < Hi; ++i) {
        auto const a = D::arg(i);
        o[i - Lo]    = F::dom(a) ? F::call(a) : u64{0};
    }
    return o;
}
template <typename F, typename D, std::size_t Lo, std::size_t Hi>
struct Block {
    // is "all obligations Lo..Hi" a constant expression?  (dependent, therefore a soft failure)
    static constexpr bool ok = requires { typename std::integral_constant<int, (eval_block<F, D, Lo, Hi>(), 0)>; };
    static void segs(std::vector<Seg>& out)
    {
        if constexpr (ok) {
            static constexpr auto v = eval_block<F, D, Lo, Hi>();
            add_seg(out, Lo, Hi, v.data());
        } else if constexpr (Hi - Lo == 1) {
            add_seg(out, Lo, Hi, nullptr);
        } else {
            constexpr auto mid = Lo + (Hi - Lo) / 2;
            Block<F, D, Lo, mid>::segs(out);
            Block<F, D, mid, Hi>::segs(out);
        }
    }
};
template <typename F, typename D, std::size_t... I>
void all_segs(std::vector<Seg>& out, std::index_sequence<I...> /*unused*/)
{
    (Block<F, D, I * kBlock, ((I + 1) * kBlock < D::size ? (I + 1) * kBlock : D::size)>::segs(out), ...);
}
inline void apply_segs(std::vector<Seg> const& segs, std::vector<Ct>& out, std::size_t n)
{
    out.assign(n, Ct{0, false});
    for (auto const& s : segs) {
        if (s.v == nullptr) { continue; }
        for (std::size_t i = s.lo; i < s.hi; ++i) { out[i] = Ct{s.v[i - s.lo], true}; }
    }
}
template <typename F, typename D>
void ct_fill(std::vector<Ct>& out)
{
    std::vector<Seg> segs;
    all_segs<F, D>(segs, std::make_index_sequence<(D::size + kBlock - 1) / kBlock>{});
    apply_segs(segs, out, D::size);
}

// run time: argument words laundered through volatile
template <typename F>
[[gnu::noinline]] auto rt_call(Args const& a) -> u64
{
    u64 volatile v0 = a.v[0];
    u64 volatile v1 = a.v[1];
    u64 volatile v2 = a.v[2];
    Args const b{{v0, v1, v2}};
    return F::call(b);
}

// ------------------------------------------------------------------ registry of obligation sets
struct Set {
    char const* fname;
    char const* dname;
    char const* sub;
    std::size_t size;
    int arity;
    Args (*arg)(std::size_t);
    bool (*dom)(Args const&);
    char const* (*excl)(Args const&);
    u64 (*rt)(Args const&);
    void (*ct)(std::vector<Ct>&);
    unsigned (*classes)(Args const&);
    std::string (*show_args)(Args const&);
    std::string (*show_res)(u64);
};
inline auto sets() -> std::vector<Set>&
{
    static std::vector<Set> s;
    return s;
}
template <typename F>
auto classes_of(Args const& a) -> unsigned
{
    return classify_arg<typename F::A0>(a.v[0]) | classify_arg<typename F::A1>(a.v[1]) | classify_arg<typename F::A2>(a.v[2]);
}
template <typename F>
auto show_args_of(Args const& a) -> std::string
{
    auto s = show_arg<typename F::A0>(a.v[0]);
    if (F::arity > 1) { s += ", " + show_arg<typename F::A1>(a.v[1]); }
    if (F::arity > 2) { s += ", " + show_arg<typename F::A2>(a.v[2]); }
    return s;
}
template <typename F, typename D>
void add_set()
{
    sets().push_back(Set{F::name, D::name, F::sub, D::size, F::arity, +[](std::size_t i) { return D::arg(i); }, +[](Args const& a) { return F::dom(a); },
        +[](Args const& a) { return F::excl(a); }, &rt_call<F>, &ct_fill<F, D>, &classes_of<F>, &show_args_of<F>, +[](u64 r) { return F::show_res(r); }});
}

// ------------------------------------------------------------------ function descriptors
#define C13_DECODE                                                                                                      \
    [[maybe_unused]] auto const x = as<A0>(a_.v[0]);                                                                    \
    [[maybe_unused]] auto const y = as<A1>(a_.v[1]);                                                                    \
    [[maybe_unused]] auto const z = as<A2>(a_.v[2]);

#define C13_FN(ID, NAME, SUB, ARITY, T0, T1, T2, DOM, EXCL, ...)                                                        \
    struct ID {                                                                                                         \
        static constexpr char const* name = NAME;                                                                       \
        static constexpr char const* sub  = SUB;                                                                        \
        static constexpr int arity        = ARITY;                                                                      \
        using A0                          = T0;                                                                         \
        using A1                          = T1;                                                                         \
        using A2                          = T2;                                                                         \
        static constexpr auto raw(Args const& a_)                                                                       \
        {                                                                                                               \
            C13_DECODE                                                                                                  \
            return __VA_ARGS__;                                                                                         \
        }                                                                                                               \
        static constexpr auto call(Args const& a_) -> u64 { return res(raw(a_)); }                                      \
        static constexpr auto dom(Args const& a_) -> bool                                                               \
        {                                                                                                               \
            C13_DECODE                                                                                                  \
            return DOM;                                                                                                 \
        }                                                                                                               \
        static auto excl(Args const& a_) -> char const*                                                                 \
        {                                                                                                               \
            C13_DECODE                                                                                                  \
            return EXCL;                                                                                                \
        }                                                                                                               \
        static auto show_res(u64 r) -> std::string { return show_result<decltype(raw(Args{}))>(r); }                    \
    };
#define C13_FN1(ID, NAME, SUB, T0, DOM, EXCL, ...)         C13_FN(ID, NAME, SUB, 1, T0, None, None, DOM, EXCL, __VA_ARGS__)
#define C13_FN2(ID, NAME, SUB, T0, T1, DOM, EXCL, ...)     C13_FN(ID, NAME, SUB, 2, T0, T1, None, DOM, EXCL, __VA_ARGS__)
#define C13_FN3(ID, NAME, SUB, T0, T1, T2, DOM, EXCL, ...) C13_FN(ID, NAME, SUB, 3, T0, T1, T2, DOM, EXCL, __VA_ARGS__)

constexpr char const* kNoTag = nullptr;

// ---- helpers used by domains and exclusion classes (plain arithmetic, independent of etl)
template <typename T>
constexpr auto is_nan(T v) -> bool { return v != v; }
template <typename T>
constexpr auto is_inf(T v) -> bool { return v > std::numeric_limits<T>::max() || v < -std::numeric_limits<T>::max(); }
template <typename T>
constexpr auto is_fin(T v) -> bool { return !is_nan(v) && !is_inf(v); }
template <typename T>
constexpr auto mag(T v) -> T { return v < 0 ? -v : v; }
template <typename T>
constexpr auto fits_ll(T v) -> bool { return is_fin(v) && v >= T(-9223372036854775808.0) && v < T(9223372036854775808.0); }
// is the value an integer (only called for |v| < 2^63)
template <typename T>
constexpr auto is_integral_value(T v) -> bool { return fits_ll(v) && static_cast<T>(static_cast<long long>(v)) == v; }
template <typename T>
constexpr auto neg_zero(T v) -> bool
{
    if constexpr (sizeof(T) == 4) {
        return std::bit_cast<u32>(v) == 0x80000000U;
    } else {
        return std::bit_cast<u64>(v) == 0x8000000000000000ULL;
    }
}
template <typename T>
constexpr auto pos_zero(T v) -> bool { return v == 0 && !neg_zero(v); }

struct scen_hash {
    u64 h{1469598103934665603ULL};
    template <typename T>
    constexpr void add(T v)
    {
        h ^= static_cast<u64>(v);
        h *= 1099511628211ULL;
        h ^= h >> 29U;
    }
};

// ================================================================== cmath
#if defined(C13_PART_CM64) || defined(C13_PART_CM32)
// Known deviations of the pinned tree (DESIGN 6 / row C13), each an exclusion class that is active only when bin/check
// passes the tag (i.e. a matching open entry exists in known_findings.json and its probe still reproduces):
//   cmath.signbit.ct_poszero_negnan  signbit(+0.0) is true and signbit(-NaN) is false in a constant expression
//   cmath.copysign.ct_zero_nan copysign(x, y) with x or y a zero or a NaN ignores the sign bit in a constant expression
//   cmath.rint.ct_truncates    rint/lrint/llrint truncate in a constant expression (any non-integral argument, -0.0) and
//                              rint is not constant-evaluable for NaN, infinities and |x| >= 2^63
//   cmath.round.ct_huge        floor/ceil/trunc/round (and fmod through trunc(x/y)) are not constant expressions once the
//                              value does not fit long long
//   cmath.round.ct_tiny        floor/ceil/trunc/round return x itself for 0 < |x| < epsilon in a constant expression
//   cmath.fdim.ct_inf_minus_inf  fdim(inf, inf) computes inf - inf: not a constant expression
//   cmath.fmod.ct_formula      fmod is x - trunc(x/y)*y in a constant expression (and __builtin_fmod at run time): inexact
//                              once trunc(x/y)*y rounds, not a constant expression when x/y or the product overflows
//   cmath.remainder.ct_is_fmod remainder is the same fmod formula in a constant expression (and __builtin_remainder at run time)
//   cmath.round.ct_negzero     trunc(x) and ceil(x), -1 < x < 0, are +0.0 in a constant expression and -0.0 at run time
//   cmath.fma.ct_unfused       fma is x*y+z with two roundings in a constant expression
//   cmath.round.ld_rounds_to_2p63  round(long double) for 2^63 - .5 <= |x| < 2^63 is not a constant expression
    #define C13_HUGE(v) ((is_fin(v) && !fits_ll(v)) ? "cmath.round.ct_huge" : (v != 0 && mag(v) < std::numeric_limits<decltype(v)>::epsilon()) ? "cmath.round.ct_tiny" : kNoTag)
template <typename T>
constexpr auto neg_nan(T v) -> bool
{
    if constexpr (sizeof(T) == 4) {
        return is_nan(v) && (std::bit_cast<u32>(v) >> 31U) != 0;
    } else {
        return is_nan(v) && (std::bit_cast<u64>(v) >> 63U) != 0;
    }
}
constexpr auto fused(float x, float y, float z) -> float { return __builtin_fmaf(x, y, z); }
constexpr auto fused(double x, double y, double z) -> double { return __builtin_fma(x, y, z); }
// IEEE exceptional operations (overflow of a finite result = C "range error"; invalid operation / division by zero =
// C "domain error") are outside the documented domain: GCC refuses them in constant expressions whatever the library
// does.  The predicates are conservative (they cut away a little more than the exact error set) and are themselves
// constant expressions for every argument.
template <typename T>
constexpr auto expo(T v) -> int // unbiased exponent of a finite non-zero value (subnormals: the minimum)
{
    if constexpr (sizeof(T) == 4) {
        return static_cast<int>((std::bit_cast<u32>(v) >> 23U) & 0xffU) - 127;
    } else {
        return static_cast<int>((std::bit_cast<u64>(v) >> 52U) & 0x7ffU) - 1023;
    }
}
template <typename T>
constexpr auto fma_dom(T x, T y, T z) -> bool
{
    constexpr auto emax = sizeof(T) == 4 ? 127 : 1023;
    if ((is_inf(x) && y == 0) || (is_inf(y) && x == 0)) { return false; }         // inf * 0: invalid whatever z is
    if (is_nan(x) || is_nan(y)) { return true; }
    if (is_inf(x) || is_inf(y)) {
        auto const neg = (x < 0) != (y < 0);
        return !(is_inf(z) && ((z < 0) != neg));                                   // inf - inf
    }
    auto const e = (x == 0 || y == 0) ? -100000 : expo(x) + expo(y) + 2;           // |x*y| < 2^e
    if (e > emax) { return false; }                                                // the product alone may overflow
    if (is_nan(z) || is_inf(z)) { return true; }
    auto const ez = z == 0 ? -100000 : expo(z) + 1;                                // |z|   < 2^ez
    return (e > ez ? e : ez) + 1 <= emax;
}
template <typename T>
constexpr auto fdim_dom(T x, T y) -> bool
{
    // x <= y: the answer is +0 and nothing may be subtracted; same sign: x - y cannot overflow
    constexpr auto half = std::numeric_limits<T>::max() / 2;
    if (is_fin(x) && is_fin(y)) { return x <= y || ((x < 0) == (y < 0)) || (mag(x) < half && mag(y) < half); }
    return true;
}
// lerp: finite end points; 0 <= t <= 1 (every intermediate of a correct implementation stays between the end points, even for
// -max .. +max), or moderate magnitudes with any moderate t (extrapolation)
template <typename T>
constexpr auto lerp_dom(T a, T b, T t) -> bool
{
    if (!is_fin(a) || !is_fin(b) || !is_fin(t)) { return false; }
    if (t >= 0 && t <= 1) { return true; }
    constexpr auto emax = sizeof(T) == 4 ? 127 : 1023;
    auto const ea = a == 0 ? 0 : expo(a);
    auto const eb = b == 0 ? 0 : expo(b);
    auto const et = expo(t);
    return ea < emax / 2 && eb < emax / 2 && et < 30;
}
template <typename T>
constexpr auto midpoint_dom(T x, T y) -> bool { return !(is_inf(x) && is_inf(y) && ((x < 0) != (y < 0))); }
template <typename T>
auto fma_excl(T x, T y, T z) -> char const*
{
    T volatile p = x * y;
    T const u    = p + z;
    return res(fused(x, y, z)) != res(u) ? "cmath.fma.ct_unfused" : kNoTag;
}
// Exact ties x / y == n + 1/2 are outside the compared domain of remainder: glibc 2.36's remainder() resolves some of them
// to the odd quotient (remainder(0x1.ef72493b3p+35, 99.0) == -49.5; IEEE 754, MPFR and therefore GCC's constant folder:
// +49.5). etl's run-time path IS that libm function and its constant-evaluation path IS the compiler's folding, so the two
// disagree exactly where the host libm is wrong - not a property of the library (false alarm found with VERIF_SEED=12345).
constexpr auto remainder_tie(float x, float y) -> bool
{
    if (!is_fin(x) || !is_fin(y) || y == 0) { return false; }
    float const r = mag(__builtin_fmodf(x, y));
    return r == mag(y) - r; // exact where it can hold (r >= |y| / 2: Sterbenz), and no overflow for huge |y|
}
constexpr auto remainder_tie(double x, double y) -> bool
{
    if (!is_fin(x) || !is_fin(y) || y == 0) { return false; }
    double const r = mag(__builtin_fmod(x, y));
    return r == mag(y) - r;
}
constexpr auto rt_fmod(float x, float y) -> float { return __builtin_fmodf(x, y); }
constexpr auto rt_fmod(double x, double y) -> double { return __builtin_fmod(x, y); }
constexpr auto rt_remainder(float x, float y) -> float { return __builtin_remainderf(x, y); }
constexpr auto rt_remainder(double x, double y) -> double { return __builtin_remainder(x, y); }
// etl::fmod and etl::remainder are gcem's x - trunc(x / y) * y in a constant expression: exactly the arguments for which
// that formula (evaluated here at run time, unfolded) is not the exact answer, or overflows on the way, form the class
template <typename T>
auto formula_excl(T x, T y, T exact, char const* tag) -> char const*
{
    if (is_fin(x) && is_inf(y)) { return tag; } // the answer is x, the formula's guard says NaN
    if (!is_fin(x) || !is_fin(y) || y == 0) { return kNoTag; }
    T volatile q = x / y;
    if (!is_fin(static_cast<T>(q))) { return tag; }
    if (q != 0 && mag(static_cast<T>(q)) < std::numeric_limits<T>::epsilon()) { return "cmath.round.ct_tiny"; } // gcem::trunc(q) == q there
    T volatile t = static_cast<T>(__builtin_trunc(static_cast<double>(q)));
    T volatile p = t * y;
    if (!is_fin(static_cast<T>(p))) { return tag; }
    T const u = x - p;
    if (res(u) != res(exact)) { return tag; }
    return !fits_ll(static_cast<T>(q)) ? "cmath.round.ct_huge" : kNoTag;
}
template <typename T>
auto fmod_excl(T x, T y) -> char const* { return formula_excl(x, y, rt_fmod(x, y), "cmath.fmod.ct_formula"); }
template <typename T>
auto remainder_excl(T x, T y) -> char const* { return formula_excl(x, y, rt_remainder(x, y), "cmath.remainder.ct_is_fmod"); }
    #define C13_CMATH(S, T)                                                                                                                      \
        C13_FN1(floor_##S, "floor." #S, "cmath", T, true, C13_HUGE(x), etl::floor(x))                                                            \
        C13_FN1(ceil_##S, "ceil." #S, "cmath", T, true, (C13_HUGE(x) != kNoTag ? C13_HUGE(x) : (x < 0 && x > -1) ? "cmath.round.ct_negzero" : kNoTag), etl::ceil(x))                                                               \
        C13_FN1(trunc_##S, "trunc." #S, "cmath", T, true, (C13_HUGE(x) != kNoTag ? C13_HUGE(x) : (x < 0 && x > -1) ? "cmath.round.ct_negzero" : kNoTag), etl::trunc(x)) \
        C13_FN1(round_##S, "round." #S, "cmath", T, true, ((is_fin(x) && mag(x) >= T(9223372036854775808.0)) ? "cmath.round.ct_huge" : C13_HUGE(x)), etl::round(x))                                                            \
        C13_FN1(rint_##S, "rint." #S, "cmath", T, true, ((!is_integral_value(x) || neg_zero(x)) ? "cmath.rint.ct_truncates" : kNoTag), etl::rint(x)) \
        C13_FN1(lrint_##S, "lrint." #S, "cmath", T, fits_ll(x), (!is_integral_value(x) ? "cmath.rint.ct_truncates" : kNoTag), etl::lrint(x))      \
        C13_FN1(llrint_##S, "llrint." #S, "cmath", T, fits_ll(x), (!is_integral_value(x) ? "cmath.rint.ct_truncates" : kNoTag), etl::llrint(x))   \
        C13_FN1(signbit_##S, "signbit." #S, "cmath", T, true, ((pos_zero(x) || neg_nan(x)) ? "cmath.signbit.ct_poszero_negnan" : kNoTag), etl::signbit(x))             \
        C13_FN1(fabs_##S, "fabs." #S, "cmath", T, true, kNoTag, etl::fabs(x))                                                                    \
        C13_FN1(abs_##S, "abs." #S, "cmath", T, true, kNoTag, etl::abs(x))                                                                       \
        C13_FN1(isnan_##S, "isnan." #S, "cmath", T, true, kNoTag, etl::isnan(x))                                                                 \
        C13_FN1(isinf_##S, "isinf." #S, "cmath", T, true, kNoTag, etl::isinf(x))                                                                 \
        C13_FN1(isfinite_##S, "isfinite." #S, "cmath", T, true, kNoTag, etl::isfinite(x))                                                        \
        C13_FN2(copysign_##S, "copysign." #S, "cmath", T, T, true, ((x == 0 || y == 0 || is_nan(x) || is_nan(y)) ? "cmath.copysign.ct_zero_nan" : kNoTag), etl::copysign(x, y)) \
        C13_FN2(fmin_##S, "fmin." #S, "cmath", T, T, true, kNoTag, etl::fmin(x, y))                                                              \
        C13_FN2(fmax_##S, "fmax." #S, "cmath", T, T, true, kNoTag, etl::fmax(x, y))                                                              \
        C13_FN2(fdim_##S, "fdim." #S, "cmath", T, T, fdim_dom(x, y), ((is_inf(x) && is_inf(y) && ((x < 0) == (y < 0))) ? "cmath.fdim.ct_inf_minus_inf" : kNoTag), etl::fdim(x, y))                                                              \
        C13_FN2(fmod_##S, "fmod." #S, "cmath", T, T, (y != 0), fmod_excl(x, y), etl::fmod(x, y)) \
        C13_FN2(remainder_##S, "remainder." #S, "cmath", T, T, (y != 0 && !is_inf(x) && !remainder_tie(x, y)), remainder_excl(x, y), etl::remainder(x, y))                                  \
        C13_FN2(nextafter_##S, "nextafter." #S, "cmath", T, T, true, kNoTag, etl::nextafter(x, y))                                               \
        C13_FN2(midpoint_##S, "midpoint." #S, "cmath", T, T, midpoint_dom(x, y), kNoTag, etl::midpoint(x, y))                                                  \
        C13_FN3(lerp_##S, "lerp." #S, "cmath", T, T, T, lerp_dom(x, y, z), kNoTag, etl::lerp(x, y, z))                                             \
        C13_FN3(fma_##S, "fma." #S, "cmath", T, T, T, fma_dom(x, y, z), fma_excl(x, y, z), etl::fma(x, y, z))
#endif
#if defined(C13_PART_CM64)
C13_CMATH(f64, double)
    #define C13_HAVE_PART 1
#endif
#if defined(C13_PART_CM32)
C13_CMATH(f32, float)
    #define C13_HAVE_PART 1
#endif

// ================================================================== cmath, long double overloads
#if defined(C13_PART_CMLD)
// Arguments: (hi, lo) pairs of doubles, value hi + lo exactly (every double; n + .5 and n +- 1 beyond 2^53; not the
// extended exponent range).  rint/lrint/llrint/signbit have a builtin run-time path, the other overloads one path.
using ldbl = long double;
constexpr auto ld_fits_ll(ldbl v) -> bool { return v == v && v >= -9223372036854775808.0L && v <= 9223372036854775807.0L; } // the rounded value fits
constexpr auto ld_integral(ldbl v) -> bool { return ld_fits_ll(v) && static_cast<ldbl>(static_cast<long long>(v)) == v; }
constexpr auto ld_fin(ldbl v) -> bool { return v == v && v <= LDBL_MAX && v >= -LDBL_MAX; }
constexpr auto ld_huge(ldbl v) -> char const* { return (ld_fin(v) && !(v > -9223372036854775808.0L && v < 9223372036854775808.0L)) ? "cmath.round.ct_huge" : (v != 0 && (v < 0 ? -v : v) < LDBL_EPSILON) ? "cmath.round.ct_tiny" : kNoTag; }
constexpr auto ld_negzero(ldbl v) -> bool { return v == 0 && __builtin_signbit(v) != 0; }
    #define C13_LD1(F, DOM, EXCL) C13_FN2(F##_ld, #F ".ld", "cmath", LD, LDlo, DOM, EXCL, etl::F(ld(x, y)))
C13_LD1(floor, true, ld_huge(ld(x, y)))
C13_LD1(ceil, true, ((ld_huge(ld(x, y)) != kNoTag && ld(x, y) != 0 && !((ld(x, y) < 0 ? -ld(x, y) : ld(x, y)) < LDBL_EPSILON)) ? "cmath.round.ct_huge" : kNoTag))
C13_LD1(trunc, true, (ld_huge(ld(x, y)) != kNoTag ? ld_huge(ld(x, y)) : (ld(x, y) < 0 && ld(x, y) > -1) ? "cmath.round.ct_negzero" : kNoTag))
// gcem::round casts floor(|x|) + 1 to long long: |x| in [2^63 - .5, 2^63) is representable only as a long double
C13_LD1(round, true, ((ld_fin(ld(x, y)) && (ld(x, y) < 0 ? -ld(x, y) : ld(x, y)) >= 9223372036854775807.5L && (ld(x, y) < 0 ? -ld(x, y) : ld(x, y)) < 9223372036854775808.0L) ? "cmath.round.ld_rounds_to_2p63" : ld_huge(ld(x, y))))
C13_LD1(rint, true, ((!ld_integral(ld(x, y)) || ld_negzero(ld(x, y))) ? "cmath.rint.ct_truncates" : kNoTag))
C13_LD1(lrint, ld_fits_ll(ld(x, y)), (!ld_integral(ld(x, y)) ? "cmath.rint.ct_truncates" : kNoTag))
C13_LD1(llrint, ld_fits_ll(ld(x, y)), (!ld_integral(ld(x, y)) ? "cmath.rint.ct_truncates" : kNoTag))
C13_LD1(signbit, true, (((x == 0 || x != x) && (__builtin_signbit(x) != 0) == (x != x)) ? "cmath.signbit.ct_poszero_negnan" : kNoTag))
C13_LD1(fabs, true, kNoTag)
C13_LD1(abs, true, kNoTag)
C13_LD1(isnan, true, kNoTag)
C13_LD1(isinf, true, kNoTag)
C13_LD1(isfinite, true, kNoTag)
C13_FN2(copysign_ld, "copysign.ld", "cmath", LD, LD, true, ((x == 0 || y == 0 || x != x || y != y) ? "cmath.copysign.ct_zero_nan" : kNoTag), etl::copysign(x, y))
C13_FN2(fmin_ld, "fmin.ld", "cmath", LD, LD, true, kNoTag, etl::fmin(x, y))
C13_FN2(fmax_ld, "fmax.ld", "cmath", LD, LD, true, kNoTag, etl::fmax(x, y))
    #define C13_HAVE_PART 1
#endif

// ================================================================== 8-bit exhaustive: cctype, bit, numeric
#if defined(C13_PART_INT8) || defined(C13_PART_NUM8) || defined(C13_PART_W1632) || defined(C13_PART_W64)
template <typename T>
constexpr auto ref_gcd(T a, T b) -> T { return b == 0 ? a : ref_gcd<T>(b, a % b); }
// lcm(|m|,|n|) representable in T  (and |m|, |n| representable)
template <typename T>
constexpr auto lcm_dom(T m, T n) -> bool
{
    using W = unsigned __int128;
    if constexpr (std::is_signed_v<T>) {
        if (m == std::numeric_limits<T>::min() || n == std::numeric_limits<T>::min()) { return false; }
    }
    auto const am = static_cast<W>(m < 0 ? -static_cast<__int128>(m) : static_cast<__int128>(m));
    auto const an = static_cast<W>(n < 0 ? -static_cast<__int128>(n) : static_cast<__int128>(n));
    if (am == 0 || an == 0) { return true; }
    auto const l = am / ref_gcd<W>(am, an) * an;
    return l <= static_cast<W>(std::numeric_limits<T>::max());
}
template <typename T>
constexpr auto gcd_dom(T m, T n) -> bool
{
    if constexpr (std::is_signed_v<T>) {
        return m != std::numeric_limits<T>::min() && n != std::numeric_limits<T>::min();
    } else {
        return true;
    }
}
// the unpatched lcm computes (m * n) / gcd(m, n): not a constant expression (and a trap at run time) for lcm(0, 0), and the
// product overflows although the result is representable (design/patches/23-gcd-lcm-sign-overflow-zero.patch)
template <typename T>
constexpr auto lcm_excl(T m, T n) -> char const*
{
    using P = decltype(m * n);
    if (m == 0 && n == 0) { return "numeric.lcm.zero_or_overflow"; }
    P out{};
    if (__builtin_mul_overflow(static_cast<P>(m), static_cast<P>(n), &out)) { return "numeric.lcm.zero_or_overflow"; }
    return kNoTag;
}
template <typename T>
constexpr auto not_min(T v) -> bool
{
    if constexpr (std::is_signed_v<T>) {
        return v != std::numeric_limits<T>::min();
    } else {
        return true;
    }
}
    #define C13_BITS(S, T)                                                                                                                       \
        C13_FN1(popcount_##S, "popcount." #S, "bit", T, true, kNoTag, etl::popcount(x))                                                          \
        C13_FN1(countl_zero_##S, "countl_zero." #S, "bit", T, true, kNoTag, etl::countl_zero(x))                                                 \
        C13_FN1(countl_one_##S, "countl_one." #S, "bit", T, true, kNoTag, etl::countl_one(x))                                                    \
        C13_FN1(countr_zero_##S, "countr_zero." #S, "bit", T, true, kNoTag, etl::countr_zero(x))                                                 \
        C13_FN1(countr_one_##S, "countr_one." #S, "bit", T, true, kNoTag, etl::countr_one(x))                                                    \
        C13_FN1(bit_width_##S, "bit_width." #S, "bit", T, true, kNoTag, etl::bit_width(x))                                                       \
        C13_FN1(bit_ceil_##S, "bit_ceil." #S, "bit", T, (x <= (T(1) << (sizeof(T) * 8 - 1))), kNoTag, etl::bit_ceil(x))                         \
        C13_FN1(bit_floor_##S, "bit_floor." #S, "bit", T, true, kNoTag, etl::bit_floor(x))                                                       \
        C13_FN1(has_single_bit_##S, "has_single_bit." #S, "bit", T, true, kNoTag, etl::has_single_bit(x))                                        \
        C13_FN1(byteswap_##S, "byteswap." #S, "bit", T, true, kNoTag, etl::byteswap(x))                                                          \
        C13_FN2(rotl_##S, "rotl." #S, "bit", T, int, true, kNoTag, etl::rotl(x, y))                                                              \
        C13_FN2(rotr_##S, "rotr." #S, "bit", T, int, true, kNoTag, etl::rotr(x, y))                                                              \
        C13_FN2(set_bit_##S, "set_bit." #S, "bit", T, T, (y < sizeof(T) * 8), kNoTag, etl::set_bit(x, y))                                        \
        C13_FN2(reset_bit_##S, "reset_bit." #S, "bit", T, T, (y < sizeof(T) * 8), kNoTag, etl::reset_bit(x, y))                                  \
        C13_FN2(flip_bit_##S, "flip_bit." #S, "bit", T, T, (y < sizeof(T) * 8), kNoTag, etl::flip_bit(x, y))                                     \
        C13_FN2(test_bit_##S, "test_bit." #S, "bit", T, T, (y < sizeof(T) * 8), kNoTag, etl::test_bit(x, y))                                     \
        C13_FN2(set_bit0_##S, "set_bit0." #S, "bit", T, T, (y < sizeof(T) * 8), kNoTag, etl::set_bit(x, y, false))                               \
        C13_FN2(set_bit1_##S, "set_bit1." #S, "bit", T, T, (y < sizeof(T) * 8), kNoTag, etl::set_bit(x, y, true))
    #define C13_NUMERIC(S, T)                                                                                                                    \
        C13_FN2(add_sat_##S, "add_sat." #S, "numeric", T, T, true, kNoTag, etl::add_sat(x, y))                                                   \
        C13_FN2(div_sat_##S, "div_sat." #S, "numeric", T, T, (y != 0), kNoTag, etl::div_sat(x, y))                                               \
        C13_FN2(midpoint_##S, "midpoint." #S, "numeric", T, T, true, kNoTag, etl::midpoint(x, y))                                                \
        C13_FN2(gcd_##S, "gcd." #S, "numeric", T, T, gcd_dom(x, y), kNoTag, etl::gcd(x, y))                                                      \
        C13_FN2(lcm_##S, "lcm." #S, "numeric", T, T, lcm_dom(x, y), lcm_excl(x, y), etl::lcm(x, y))                                              \
        C13_FN1(abs_##S, "abs." #S, "numeric", T, not_min(x), kNoTag, etl::abs<T>(x))
    #define C13_SATCAST(SF, F, ST, T) C13_FN1(sat_##SF##_##ST, "saturate_cast." #SF "_" #ST, "numeric", F, true, kNoTag, etl::saturate_cast<T>(x))
#endif
#if defined(C13_PART_INT8) || defined(C13_PART_NUM8)
    #define C13_CCTYPE(F) C13_FN1(F, #F, "cctype", Ch, true, kNoTag, etl::F(x))
C13_CCTYPE(isalnum)
C13_CCTYPE(isalpha)
C13_CCTYPE(isblank)
C13_CCTYPE(iscntrl)
C13_CCTYPE(isdigit)
C13_CCTYPE(isgraph)
C13_CCTYPE(islower)
C13_CCTYPE(isprint)
C13_CCTYPE(ispunct)
C13_CCTYPE(isspace)
C13_CCTYPE(isupper)
C13_CCTYPE(isxdigit)
C13_CCTYPE(tolower)
C13_CCTYPE(toupper)
C13_BITS(u8, std::uint8_t)
C13_NUMERIC(i8, std::int8_t)
C13_NUMERIC(u8, std::uint8_t)
C13_SATCAST(i8, std::int8_t, u8, std::uint8_t)
C13_SATCAST(u8, std::uint8_t, i8, std::int8_t)
    #define C13_HAVE_PART 1
#endif

// ================================================================== 16/32/64-bit integers, bit_cast
#if defined(C13_PART_W1632) || defined(C13_PART_W64)
C13_BITS(u16, std::uint16_t)
C13_BITS(u32, std::uint32_t)
C13_BITS(u64, std::uint64_t)
C13_NUMERIC(i16, std::int16_t)
C13_NUMERIC(u16, std::uint16_t)
C13_NUMERIC(i32, std::int32_t)
C13_NUMERIC(u32, std::uint32_t)
C13_NUMERIC(i64, std::int64_t)
C13_NUMERIC(u64, std::uint64_t)
C13_FN1(abs_int, "abs.int", "numeric", int, not_min(x), kNoTag, etl::abs(x))
C13_FN1(abs_ll, "abs.ll", "numeric", long long, not_min(x), kNoTag, etl::abs(x))
C13_FN1(labs, "labs", "numeric", long, not_min(x), kNoTag, etl::labs(x))
C13_FN1(llabs, "llabs", "numeric", long long, not_min(x), kNoTag, etl::llabs(x))
C13_SATCAST(i32, std::int32_t, i8, std::int8_t)
C13_SATCAST(i32, std::int32_t, u8, std::uint8_t)
C13_SATCAST(u32, std::uint32_t, i8, std::int8_t)
C13_SATCAST(i64, std::int64_t, i32, std::int32_t)
C13_SATCAST(u64, std::uint64_t, i64, std::int64_t)
C13_SATCAST(i64, std::int64_t, u64, std::uint64_t)
C13_SATCAST(i16, std::int16_t, u32, std::uint32_t)
C13_SATCAST(u64, std::uint64_t, u16, std::uint16_t)
C13_SATCAST(i64, std::int64_t, i16, std::int16_t)
C13_SATCAST(i32, std::int32_t, u32, std::uint32_t)
C13_SATCAST(u32, std::uint32_t, i32, std::int32_t)
// bit_cast: results are compared as exact bit patterns (no NaN folding: the payload must survive)
struct Arr4 {
    unsigned char b[4];
};
C13_FN1(bit_cast_u32_f32, "bit_cast.u32_f32", "bit", u32, true, kNoTag, std::bit_cast<u32>(etl::bit_cast<float>(x)))
C13_FN1(bit_cast_f32_u32, "bit_cast.f32_u32", "bit", float, true, kNoTag, etl::bit_cast<u32>(x))
C13_FN1(bit_cast_arr_u32, "bit_cast.arr_u32", "bit", u32, true, kNoTag, etl::bit_cast<u32>(etl::bit_cast<Arr4>(x)) ^ (u32{etl::bit_cast<Arr4>(x).b[0]} << 8U))
C13_FN1(bit_cast_u64_f64, "bit_cast.u64_f64", "bit", u64, true, kNoTag, std::bit_cast<u64>(etl::bit_cast<double>(x)))
C13_FN1(bit_cast_f64_u64, "bit_cast.f64_u64", "bit", double, true, kNoTag, etl::bit_cast<u64>(x))
C13_FN1(bit_cast_i64_f64, "bit_cast.i64_f64", "bit", i64, true, kNoTag, std::bit_cast<u64>(etl::bit_cast<double>(x)))
    #define C13_HAVE_PART 1
#endif

// ================================================================== C strings (exact-size constexpr char arrays)
#if defined(C13_PART_CSTR)
using sv = etl::string_view;
C13_FN1(strlen, "strlen", "cstring", Str, true, kNoTag, [&] { CStr s{x}; return etl::strlen(s.p); }())
C13_FN2(strcmp, "strcmp", "cstring", Str, Str, true, kNoTag, [&] { CStr s{x}; CStr t{y}; return etl::strcmp(s.p, t.p); }())
C13_FN3(strncmp, "strncmp", "cstring", Str, Str, Cnt, true, kNoTag, [&] { CStr s{x}; CStr t{y}; return etl::strncmp(s.p, t.p, z); }())
C13_FN2(strchr, "strchr", "cstring", Str, Ch, true, kNoTag, [&] { CStr s{x}; return off(etl::strchr(static_cast<char const*>(s.p), y), s.p); }())
C13_FN2(strrchr, "strrchr", "cstring", Str, Ch, true, kNoTag, [&] { CStr s{x}; return off(etl::strrchr(static_cast<char const*>(s.p), y), s.p); }())
C13_FN2(strspn, "strspn", "cstring", Str, Str, true, kNoTag, [&] { CStr s{x}; CStr t{y}; return etl::strspn(s.p, t.p); }())
C13_FN2(strcspn, "strcspn", "cstring", Str, Str, true, kNoTag, [&] { CStr s{x}; CStr t{y}; return etl::strcspn(s.p, t.p); }())
C13_FN2(strpbrk, "strpbrk", "cstring", Str, Str, true, kNoTag, [&] { CStr s{x}; CStr t{y}; return off(etl::strpbrk(static_cast<char const*>(s.p), static_cast<char const*>(t.p)), s.p); }())
C13_FN2(strstr, "strstr", "cstring", Str, Str, true, kNoTag, [&] { CStr s{x}; CStr t{y}; return off(etl::strstr(static_cast<char const*>(s.p), static_cast<char const*>(t.p)), s.p); }())
C13_FN2(sv_find, "sv_find", "cstring", Str, Str, true, kNoTag, [&] { CStr s{x}; CStr t{y}; return sv{s.p, s.n}.find(sv{t.p, t.n}); }())
C13_FN2(sv_rfind, "sv_rfind", "cstring", Str, Str, true, kNoTag, [&] { CStr s{x}; CStr t{y}; return sv{s.p, s.n}.rfind(sv{t.p, t.n}); }())
C13_FN2(sv_compare, "sv_compare", "cstring", Str, Str, true, kNoTag, [&] { CStr s{x}; CStr t{y}; return sv{s.p, s.n}.compare(sv{t.p, t.n}); }())
C13_FN2(traits_compare, "traits_compare", "cstring", Str, Str, true, kNoTag, [&] { CStr s{x}; CStr t{y}; return etl::char_traits<char>::compare(s.p, t.p, s.n < t.n ? s.n : t.n); }())
C13_FN2(traits_find, "traits_find", "cstring", Str, Ch, true, kNoTag, [&] { CStr s{x}; auto const c = static_cast<char>(y); return off(etl::char_traits<char>::find(s.p, s.n, c), s.p); }())
    #define C13_HAVE_PART 1
#endif

// ================================================================== bounded / wide character sequences
#if defined(C13_PART_WSTR)
// Every character type (char, char8_t, char16_t, char32_t, wchar_t); arrays are EXACTLY as long as the call may read:
// a source of count characters has no terminator (allowed for strncpy / strncmp / mem* / char_traits), a shorter one has.
// Reading one element further is not a constant expression (transient allocation of exactly that size) and an ASan
// report at run time.  Results of copying functions are hashes of the whole destination.
template <typename C>
struct Arr {
    C* p;
    std::size_t n;    // characters
    std::size_t size; // allocated elements: n, or n + 1 when terminated
    [[gnu::noinline]] constexpr Arr(u64 packed, bool terminated) : p{nullptr}, n{0}, size{0}
    {
        while (n < 15 && ((packed >> (4 * n)) & 0xf) != 0) { ++n; }
        size = n + (terminated ? 1U : 0U);
        p    = new C[size];
        for (std::size_t i = 0; i < n; ++i) { p[i] = unit<C>((packed >> (4 * i)) & 0xf); }
        if (terminated) { p[n] = C(0); }
    }
    [[gnu::noinline]] constexpr Arr(std::size_t count, C fill) : p{new C[count]}, n{count}, size{count}
    {
        for (std::size_t i = 0; i < count; ++i) { p[i] = fill; }
    }
    [[gnu::noinline]] constexpr ~Arr() { delete[] p; }
    Arr(Arr const&)                    = delete;
    auto operator=(Arr const&) -> Arr& = delete;
};
constexpr auto seq_len(u64 packed) -> std::size_t
{
    std::size_t n = 0;
    while (n < 15 && ((packed >> (4 * n)) & 0xf) != 0) { ++n; }
    return n;
}
template <typename C>
[[gnu::noinline]] constexpr auto hash_units(C const* p, std::size_t n) -> u64
{
    u64 h = 1469598103934665603ULL;
    for (std::size_t i = 0; i < n; ++i) {
        h ^= static_cast<u64>(static_cast<std::uint32_t>(p[i])); // the code unit, value preserved modulo 2^32
        h *= 1099511628211ULL;
    }
    return h ^ (n << 56U);
}
constexpr auto sgn3(int v) -> int { return v < 0 ? -1 : (v > 0 ? 1 : 0); }
template <typename C>
constexpr auto woff(C const* r, C const* base) -> long { return r == nullptr ? -1L : static_cast<long>(r - base); }
constexpr auto min_sz(std::size_t a, std::size_t b) -> std::size_t { return a < b ? a : b; }

// exclusion classes of the pinned tree (active only while the matching known finding is open):
//   cstring.strncat.reads_src_count  strncat / wcsncat test *src before the count: a source array of exactly count
//                                    characters (no terminator, allowed) is read one element past its end
//   cwchar.wcscmp.int_overflow       wcscmp / wcsncmp return the difference of the first differing wide characters as int:
//                                    signed overflow (not a constant expression, UBSan report at run time)
//   cwchar.wmemmove.void_cast        wmemmove goes through void*: never a constant expression although declared constexpr
inline auto wdiff_overflows(u64 xs, u64 ys, std::size_t n) -> bool
{
    for (std::size_t i = 0; i < n; ++i) {
        auto const a = (xs >> (4 * i)) & 0xf;
        auto const b = (ys >> (4 * i)) & 0xf;
        auto const ca = a == 0 ? 0LL : static_cast<long long>(unit<wchar_t>(a));
        auto const cb = b == 0 ? 0LL : static_cast<long long>(unit<wchar_t>(b));
        if (ca != cb) { return ca - cb > INT_MAX || ca - cb < INT_MIN; }
        if (a == 0) { return false; }
    }
    return false;
}
    #define C13_WSTR(S, C)                                                                                                                       \
        using sv_##S  = etl::basic_string_view<C, etl::char_traits<C>>;                                                                          \
        using str_##S = etl::basic_inplace_string<C, 8>;                                                                                         \
        using tr_##S  = etl::char_traits<C>;                                                                                                     \
        C13_FN2(traits_lt_##S, "traits_lt." #S, "wstring", WUnit<C>, WUnit<C>, true, kNoTag, tr_##S::lt(unit<C>(x), unit<C>(y)))                 \
        C13_FN2(traits_eq_##S, "traits_eq." #S, "wstring", WUnit<C>, WUnit<C>, true, kNoTag, tr_##S::eq(unit<C>(x), unit<C>(y)))                 \
        C13_FN1(traits_length_##S, "traits_length." #S, "wstring", WSeq<C>, true, kNoTag, [&] { Arr<C> a{x, true}; return tr_##S::length(a.p); }()) \
        C13_FN3(traits_compare_##S, "traits_compare." #S, "wstring", WSeq<C>, WSeq<C>, Cnt, (z <= min_sz(seq_len(x), seq_len(y))), kNoTag,       \
            [&] { Arr<C> a{x, false}; Arr<C> b{y, false}; return sgn3(tr_##S::compare(a.p, b.p, z)); }())                                         \
        C13_FN3(traits_find_##S, "traits_find." #S, "wstring", WSeq<C>, WUnit<C>, Cnt, (z <= seq_len(x)), kNoTag,                                \
            [&] { Arr<C> a{x, false}; auto const c = unit<C>(y); return woff(tr_##S::find(a.p, z, c), static_cast<C const*>(a.p)); }())           \
        C13_FN2(traits_copy_##S, "traits_copy." #S, "wstring", WSeq<C>, Cnt, (y <= seq_len(x)), kNoTag,                                          \
            [&] { Arr<C> a{x, false}; Arr<C> d{y, C(0x55)}; auto* r = tr_##S::copy(d.p, a.p, y); return hash_units(d.p, y) ^ static_cast<u64>(r == d.p); }()) \
        C13_FN2(traits_move_up_##S, "traits_move_up." #S, "wstring", WSeq<C>, Cnt, (y + 1 <= seq_len(x)), kNoTag,                                \
            [&] { Arr<C> a{x, false}; tr_##S::move(a.p + 1, a.p, y); return hash_units(a.p, a.n); }())                                            \
        C13_FN2(traits_move_down_##S, "traits_move_down." #S, "wstring", WSeq<C>, Cnt, (y + 1 <= seq_len(x)), kNoTag,                            \
            [&] { Arr<C> a{x, false}; tr_##S::move(a.p, a.p + 1, y); return hash_units(a.p, a.n); }())                                            \
        C13_FN2(traits_assign_##S, "traits_assign." #S, "wstring", WUnit<C>, Cnt, true, kNoTag,                                                  \
            [&] { Arr<C> d{y, C(0x55)}; tr_##S::assign(d.p, y, unit<C>(x)); return hash_units(d.p, y); }())                                       \
        C13_FN2(sv_compare_##S, "sv_compare." #S, "wstring", WSeq<C>, WSeq<C>, true, kNoTag,                                                     \
            [&] { Arr<C> a{x, false}; Arr<C> b{y, false}; return sgn3(sv_##S{a.p, a.n}.compare(sv_##S{b.p, b.n})); }())                            \
        C13_FN2(sv_less_##S, "sv_less." #S, "wstring", WSeq<C>, WSeq<C>, true, kNoTag,                                                           \
            [&] { Arr<C> a{x, false}; Arr<C> b{y, false}; sv_##S const l{a.p, a.n}; sv_##S const r{b.p, b.n}; return (l < r) + 2 * (l == r) + 4 * (l > r) + 8 * (l <= r) + 16 * (l != r); }()) \
        C13_FN2(sv_find_##S, "sv_find." #S, "wstring", WSeq<C>, WSeq<C>, true, kNoTag,                                                           \
            [&] { Arr<C> a{x, false}; Arr<C> b{y, false}; sv_##S const l{a.p, a.n}; sv_##S const r{b.p, b.n}; return l.find(r) * 131 + l.rfind(r) * 17 + l.starts_with(r) + 2 * l.ends_with(r); }()) \
        C13_FN2(sv_find_ch_##S, "sv_find_ch." #S, "wstring", WSeq<C>, WUnit<C>, true, kNoTag,                                                    \
            [&] { Arr<C> a{x, false}; sv_##S const l{a.p, a.n}; auto const c = unit<C>(y); return l.find(c) * 131 + l.rfind(c) * 17 + l.find_first_not_of(c); }()) \
        C13_FN2(str_compare_##S, "str_compare." #S, "wstring", WSeq<C>, WSeq<C>, (seq_len(x) <= 8 && seq_len(y) <= 8), kNoTag,                   \
            [&] { Arr<C> a{x, false}; Arr<C> b{y, false}; str_##S const l{a.p, a.n}; str_##S const r{b.p, b.n}; return sgn3(l.compare(r)) + 3 * (l < r) + 9 * (l == r) + 27 * (l.find(r) + 1); }())
C13_WSTR(c8, char)
C13_WSTR(u8, char8_t)
C13_WSTR(u16, char16_t)
C13_WSTR(u32, char32_t)
C13_WSTR(wc, wchar_t)
// <cstring> / <cwchar> bounded functions.  Sources of at least `count` characters are not terminated.
    #define C13_NCPY(ID, NAME, C, F)                                                                                                             \
        C13_FN2(ID, NAME, "wstring", WSeq<C>, Cnt, true, kNoTag,                                                                                 \
            [&] { Arr<C> a{x, seq_len(x) < y}; Arr<C> d{y, C(0x55)}; auto* r = F(d.p, a.p, y); return hash_units(d.p, y) ^ static_cast<u64>(r == d.p); }())
    #define C13_NCAT(ID, NAME, C, F)                                                                                                             \
        C13_FN3(ID, NAME, "wstring", WSeq<C>, WSeq<C>, Cnt, true, (seq_len(y) == z ? "cstring.strncat.reads_src_count" : kNoTag), [&] {            \
            Arr<C> a{y, seq_len(y) < z};                                                                                                         \
            auto const dl = seq_len(x);                                                                                                          \
            Arr<C> d{dl + min_sz(a.n, z) + 1, C(0x55)};                                                                                          \
            for (std::size_t i = 0; i < dl; ++i) { d.p[i] = unit<C>((x >> (4 * i)) & 0xf); }                                                     \
            d.p[dl]  = C(0);                                                                                                                     \
            auto* r  = F(d.p, a.p, z);                                                                                                           \
            return hash_units(d.p, d.size) ^ static_cast<u64>(r == d.p);                                                                         \
        }())
    #define C13_NCMP(ID, NAME, C, F)                                                                                                             \
        C13_FN3(ID, NAME, "wstring", WSeq<C>, WSeq<C>, Cnt, true, kNoTag,                                                                        \
            [&] { Arr<C> a{x, seq_len(x) < z}; Arr<C> b{y, seq_len(y) < z}; return sgn3(F(a.p, b.p, z)); }())
C13_NCPY(strncpy_x, "strncpy", char, etl::strncpy)
C13_NCAT(strncat_x, "strncat", char, etl::strncat)
C13_NCMP(strncmp_x, "strncmp_exact", char, etl::strncmp)
C13_NCPY(wcsncpy_x, "wcsncpy", wchar_t, etl::wcsncpy)
C13_NCAT(wcsncat_x, "wcsncat", wchar_t, etl::wcsncat)
C13_FN3(wcsncmp_x, "wcsncmp", "wstring", WSeq<wchar_t>, WSeq<wchar_t>, Cnt, true, (wdiff_overflows(x, y, z) ? "cwchar.wcscmp.int_overflow" : kNoTag),
    [&] { Arr<wchar_t> a{x, seq_len(x) < z}; Arr<wchar_t> b{y, seq_len(y) < z}; return sgn3(etl::wcsncmp(a.p, b.p, z)); }())
C13_FN2(wcscmp_x, "wcscmp", "wstring", WSeq<wchar_t>, WSeq<wchar_t>, true, (wdiff_overflows(x, y, 16) ? "cwchar.wcscmp.int_overflow" : kNoTag), [&] { Arr<wchar_t> a{x, true}; Arr<wchar_t> b{y, true}; return sgn3(etl::wcscmp(a.p, b.p)); }())
C13_FN1(wcslen_x, "wcslen", "wstring", WSeq<wchar_t>, true, kNoTag, [&] { Arr<wchar_t> a{x, true}; return etl::wcslen(a.p); }())
C13_FN2(wcsstr_x, "wcsstr", "wstring", WSeq<wchar_t>, WSeq<wchar_t>, true, kNoTag,
    [&] { Arr<wchar_t> a{x, true}; Arr<wchar_t> b{y, true}; return woff(etl::wcsstr(static_cast<wchar_t const*>(a.p), static_cast<wchar_t const*>(b.p)), static_cast<wchar_t const*>(a.p)); }())
C13_FN2(wcsspn_x, "wcsspn", "wstring", WSeq<wchar_t>, WSeq<wchar_t>, true, kNoTag,
    [&] { Arr<wchar_t> a{x, true}; Arr<wchar_t> b{y, true}; return etl::wcsspn(a.p, b.p) * 16 + etl::wcscspn(a.p, b.p); }())
C13_FN3(wmemcmp_x, "wmemcmp", "wstring", WSeq<wchar_t>, WSeq<wchar_t>, Cnt, (z <= min_sz(seq_len(x), seq_len(y))), kNoTag,
    [&] { Arr<wchar_t> a{x, false}; Arr<wchar_t> b{y, false}; return sgn3(etl::wmemcmp(a.p, b.p, z)); }())
C13_FN3(wmemchr_x, "wmemchr", "wstring", WSeq<wchar_t>, WUnit<wchar_t>, Cnt, (z <= seq_len(x)), kNoTag,
    [&] { Arr<wchar_t> a{x, false}; return woff(etl::wmemchr(static_cast<wchar_t const*>(a.p), unit<wchar_t>(y), z), static_cast<wchar_t const*>(a.p)); }())
C13_FN2(wmemcpy_x, "wmemcpy", "wstring", WSeq<wchar_t>, Cnt, (y <= seq_len(x)), kNoTag,
    [&] { Arr<wchar_t> a{x, false}; Arr<wchar_t> d{y, wchar_t(0x55)}; auto* r = etl::wmemcpy(d.p, a.p, y); return hash_units(d.p, y) ^ static_cast<u64>(r == d.p); }())
C13_FN2(wmemmove_up_x, "wmemmove_up", "wstring", WSeq<wchar_t>, Cnt, (y + 1 <= seq_len(x)), "cwchar.wmemmove.void_cast",
    [&] { Arr<wchar_t> a{x, false}; etl::wmemmove(a.p + 1, a.p, y); return hash_units(a.p, a.n); }())
C13_FN2(wmemmove_down_x, "wmemmove_down", "wstring", WSeq<wchar_t>, Cnt, (y + 1 <= seq_len(x)), "cwchar.wmemmove.void_cast",
    [&] { Arr<wchar_t> a{x, false}; etl::wmemmove(a.p, a.p + 1, y); return hash_units(a.p, a.n); }())
C13_FN2(wmemset_x, "wmemset", "wstring", WUnit<wchar_t>, Cnt, true, kNoTag,
    [&] { Arr<wchar_t> d{y, wchar_t(0x55)}; etl::wmemset(d.p, unit<wchar_t>(x), y); return hash_units(d.p, y); }())
    #define C13_HAVE_PART 1
#endif

// ================================================================== heterogeneous needles (HET), mixed integer types (MIX), 32-bit durations (DUR)
#if defined(C13_PART_HET)
// Value-taking algorithms on exact-size arrays of 1- and 2-byte elements with a needle of a WIDER type that is not
// representable in the element type (+256k, negative for unsigned, >= 0x80 for signed char): `*it == value` compares after
// the usual arithmetic conversions, a byte-wise run-time fast path would compare low bytes.
inline constexpr unsigned kElem[8] = {0x0041, 0xe9e9, 0xffff, 0x8000, 0x7fff, 0x0000, 0x0001, 0x80e9};
template <typename E>
constexpr auto elem(u64 idx) -> E
{
    if constexpr (std::is_same_v<E, bool>) {
        return (idx & 1U) != 0;
    } else if constexpr (sizeof(E) == 1) {
        return static_cast<E>(kElem[(idx - 1) % 8] & 0xffU); // 0x41 0xe9 0xff 0x00 0xff 0x00 0x01 0xe9 ... low bytes
    } else {
        return static_cast<E>(kElem[(idx - 1) % 8]);
    }
}
template <typename E, typename N>
constexpr auto hetero(u64 packed, N needle) -> u64
{
    scen_hash h;
    std::size_t n = 0;
    while (n < 15 && ((packed >> (4 * n)) & 0xf) != 0) { ++n; }
    auto* p = new E[n];
    for (std::size_t i = 0; i < n; ++i) { p[i] = elem<E>((packed >> (4 * i)) & 0xf); }
    E const* f = p;
    E const* l = p + n;
    h.add(etl::find(f, l, needle) - f);
    h.add(etl::find(p, p + n, needle) - p);
    h.add(etl::count(f, l, needle));
    h.add(etl::search_n(f, l, 1, needle) - f);
    h.add(etl::search_n(f, l, 2, needle) - f);
    {
        auto* q = new E[n];
        for (std::size_t i = 0; i < n; ++i) { q[i] = p[i]; }
        auto* e = etl::remove(q, q + n, needle);
        h.add(e - q);
        for (auto* it = q; it != e; ++it) { h.add(static_cast<u64>(static_cast<long long>(*it))); }
        for (std::size_t i = 0; i < n; ++i) { q[i] = p[i]; }
        etl::replace(q, q + n, needle, static_cast<N>(1)); // (one deduced type: old and new value are both N)
        for (std::size_t i = 0; i < n; ++i) { h.add(static_cast<u64>(static_cast<long long>(q[i]))); }
        etl::fill(q, q + n, needle);
        for (std::size_t i = 0; i < n; ++i) { h.add(static_cast<u64>(static_cast<long long>(q[i]))); }
        etl::fill_n(q, n, needle);
        if (n != 0) { h.add(static_cast<u64>(static_cast<long long>(q[n - 1]))); }
        delete[] q;
    }
    if constexpr (!std::is_same_v<E, bool>) {
        etl::static_vector<E, 15> v(f, l);
        h.add(etl::erase(v, needle));
        h.add(v.size());
        // heterogeneous binary searches need the conversion E -> common type to keep the order of the elements
        if constexpr (std::is_unsigned_v<E> || (std::is_signed_v<N> && sizeof(N) >= sizeof(int))) {
            auto* q = new E[n];
            for (std::size_t i = 0; i < n; ++i) { q[i] = p[i]; }
            etl::sort(q, q + n);
            E const* sf = q;
            h.add(etl::lower_bound(sf, sf + n, needle) - sf);
            h.add(etl::upper_bound(sf, sf + n, needle) - sf);
            h.add(etl::binary_search(sf, sf + n, needle));
            auto const er = etl::equal_range(sf, sf + n, needle);
            h.add(er.first - sf);
            h.add(er.second - sf);
            delete[] q;
        }
    }
    delete[] p;
    return h.h;
}
template <typename E>
constexpr auto hetero_all(u64 packed, u64 needle) -> u64
{
    u64 r = hetero<E, E>(packed, static_cast<E>(needle));
    r     = r * 0x100000001b3ULL + hetero<E, short>(packed, static_cast<short>(needle));
    r     = r * 0x100000001b3ULL + hetero<E, int>(packed, static_cast<int>(needle));
    r     = r * 0x100000001b3ULL + hetero<E, unsigned>(packed, static_cast<unsigned>(needle));
    r     = r * 0x100000001b3ULL + hetero<E, long long>(packed, static_cast<long long>(needle));
    r     = r * 0x100000001b3ULL + hetero<E, unsigned long long>(packed, static_cast<unsigned long long>(needle));
    return r;
}
// the needle word is converted to E, short, int, unsigned, long long and unsigned long long in turn
    #define C13_HET_E(ES, E) C13_FN2(het_##ES, "hetero." #ES, "hetero", BSeq, long long, true, kNoTag, hetero_all<E>(x, static_cast<u64>(y)))
C13_HET_E(char, char)
C13_HET_E(schar, signed char)
C13_HET_E(uchar, unsigned char)
C13_HET_E(char8, char8_t)
C13_HET_E(bool, bool)
C13_HET_E(i16, std::int16_t)
C13_HET_E(u16, std::uint16_t)
    #define C13_HAVE_PART 1
#endif
#if defined(C13_PART_MIX)
// Two-argument integer helpers with MIXED argument types: every (signed/unsigned x 8/16/32/64)^2 pair, each argument at
// its own min / max.  gcd/lcm domain: |m| and |n| (and the lcm) representable in common_type_t<M, N>.
template <typename M, typename N>
constexpr auto gcdlcm_dom(M m, N n, bool with_lcm) -> bool
{
    using R = std::common_type_t<M, N>;
    using W = unsigned __int128;
    auto const am = static_cast<W>(m < 0 ? -static_cast<__int128>(m) : static_cast<__int128>(m));
    auto const an = static_cast<W>(n < 0 ? -static_cast<__int128>(n) : static_cast<__int128>(n));
    auto const rmax = static_cast<W>(std::numeric_limits<R>::max());
    if (am > rmax || an > rmax) { return false; }
    if (!with_lcm || am == 0 || an == 0) { return true; }
    W a = am;
    W b = an;
    while (b != 0) {
        auto const t = a % b;
        a            = b;
        b            = t;
    }
    return am / a * an <= rmax;
}
template <typename M, typename N>
constexpr auto mixed_cmp(M m, N n) -> u64
{
    u64 r = 0;
    r     = r * 2 + etl::cmp_equal(m, n);
    r     = r * 2 + etl::cmp_not_equal(m, n);
    r     = r * 2 + etl::cmp_less(m, n);
    r     = r * 2 + etl::cmp_greater(m, n);
    r     = r * 2 + etl::cmp_less_equal(m, n);
    r     = r * 2 + etl::cmp_greater_equal(m, n);
    r     = r * 2 + etl::in_range<M>(n);
    r     = r * 2 + etl::in_range<N>(m);
    r     = r * 0x100000001b3ULL + res(etl::saturate_cast<M>(n));
    r     = r * 0x100000001b3ULL + res(etl::saturate_cast<N>(m));
    return r;
}
template <typename M, typename N>
constexpr auto mixed_one(M m, u64 nbits) -> u64
{
    auto const n = static_cast<N>(nbits);
    u64 r        = mixed_cmp(m, n);
    if (gcdlcm_dom(m, n, false)) { r = r * 0x100000001b3ULL + res(etl::gcd(m, n)); }
    if (gcdlcm_dom(m, n, true)) { r = r * 0x100000001b3ULL + res(etl::lcm(m, n)); }
    return r;
}
template <typename M>
constexpr auto mixed_all(M m, u64 nbits) -> u64
{
    u64 r = mixed_one<M, std::int8_t>(m, nbits);
    r     = r * 31 + mixed_one<M, std::uint8_t>(m, nbits);
    r     = r * 31 + mixed_one<M, std::int16_t>(m, nbits);
    r     = r * 31 + mixed_one<M, std::uint16_t>(m, nbits);
    r     = r * 31 + mixed_one<M, std::int32_t>(m, nbits);
    r     = r * 31 + mixed_one<M, std::uint32_t>(m, nbits);
    r     = r * 31 + mixed_one<M, std::int64_t>(m, nbits);
    r     = r * 31 + mixed_one<M, std::uint64_t>(m, nbits);
    r     = r * 31 + mixed_one<M, long long>(m, nbits);
    r     = r * 31 + mixed_one<M, unsigned long>(m, nbits);
    return r;
}
// the second word is converted to every integer type in turn: gcd / lcm (where in the domain), cmp_*, in_range, saturate_cast
    #define C13_MIX_M(MS, M) C13_FN2(mixed_##MS, "mixed." #MS, "numeric", M, long long, true, kNoTag, mixed_all<M>(x, static_cast<u64>(y)))
C13_MIX_M(i8, std::int8_t)
C13_MIX_M(u8, std::uint8_t)
C13_MIX_M(i16, std::int16_t)
C13_MIX_M(u16, std::uint16_t)
C13_MIX_M(i32, std::int32_t)
C13_MIX_M(u32, std::uint32_t)
C13_MIX_M(i64, std::int64_t)
C13_MIX_M(u64, std::uint64_t)
    #define C13_HAVE_PART 1
#endif
#if defined(C13_PART_DUR)
// duration_cast / floor / ceil / round between durations with 32-bit representations at counts where count * num exceeds
// INT32_MAX although argument and result are representable.  Domain: the exact quotient (+-1 for ceil / round) fits To::rep.
namespace dur {
namespace ec = etl::chrono;
using sec32   = ec::duration<std::int32_t>;
using ms32    = ec::duration<std::int32_t, etl::milli>;
using t44100  = ec::duration<std::int32_t, etl::ratio<1, 44100>>;
using t48000  = ec::duration<std::int32_t, etl::ratio<1, 48000>>;
template <typename To, typename From>
constexpr auto fits(long long count) -> bool
{
    using CF = etl::ratio_divide<typename From::period, typename To::period>;
    if (count < std::numeric_limits<typename From::rep>::min() || count > std::numeric_limits<typename From::rep>::max()) { return false; }
    auto const q = static_cast<__int128>(count) * CF::num / CF::den;
    return q - 1 >= std::numeric_limits<typename To::rep>::min() && q + 1 <= std::numeric_limits<typename To::rep>::max();
}
// floor / ceil / round compare and subtract d and the candidate results in common_type_t<From, To> (as the standard
// specifies them): both must be representable there, otherwise the call has undefined behaviour in every implementation
template <typename To, typename From>
constexpr auto rounding_fits(long long count) -> bool
{
    using CT = etl::common_type_t<From, To>;
    using CF = etl::ratio_divide<typename From::period, typename To::period>;
    using FC = etl::ratio_divide<typename From::period, typename CT::period>;
    using TC = etl::ratio_divide<typename To::period, typename CT::period>;
    constexpr auto lo = static_cast<__int128>(std::numeric_limits<typename CT::rep>::min());
    constexpr auto hi = static_cast<__int128>(std::numeric_limits<typename CT::rep>::max());
    auto const q  = static_cast<__int128>(count) * CF::num / CF::den;
    auto const d  = static_cast<__int128>(count) * FC::num / FC::den;
    auto const t0 = (q - 2) * TC::num / TC::den;
    auto const t1 = (q + 2) * TC::num / TC::den;
    return d >= lo && d <= hi && t0 >= lo && t1 <= hi && t1 - t0 <= hi;
}
template <typename To, typename From>
constexpr auto casts(long long count) -> u64
{
    From const d{static_cast<typename From::rep>(count)};
    u64 r = 0;
    r     = r * 0x100000001b3ULL + static_cast<u64>(static_cast<long long>(ec::duration_cast<To>(d).count()));
    if (rounding_fits<To, From>(count)) {
        r = r * 0x100000001b3ULL + static_cast<u64>(static_cast<long long>(ec::floor<To>(d).count()));
        r = r * 0x100000001b3ULL + static_cast<u64>(static_cast<long long>(ec::ceil<To>(d).count()));
        r = r * 0x100000001b3ULL + static_cast<u64>(static_cast<long long>(ec::round<To>(d).count()));
        using TP = ec::time_point<ec::system_clock, From>;
        r = r * 0x100000001b3ULL + static_cast<u64>(static_cast<long long>(ec::floor<To>(TP{d}).time_since_epoch().count()));
    }
    return r;
}
} // namespace dur
namespace dur {
template <typename To, typename From>
constexpr auto one(long long count) -> u64 { return fits<To, From>(count) ? casts<To, From>(count) : 0x55; }
template <typename From>
constexpr auto all(long long count) -> u64
{
    u64 r = one<ec::minutes, From>(count);
    r     = r * 31 + one<ec::hours, From>(count);
    r     = r * 31 + one<ec::days, From>(count);
    r     = r * 31 + one<ec::weeks, From>(count);
    r     = r * 31 + one<ec::months, From>(count);
    r     = r * 31 + one<ec::years, From>(count);
    r     = r * 31 + one<sec32, From>(count);
    r     = r * 31 + one<ms32, From>(count);
    r     = r * 31 + one<t44100, From>(count);
    r     = r * 31 + one<t48000, From>(count);
    r     = r * 31 + one<ec::seconds, From>(count);
    r     = r * 31 + one<ec::milliseconds, From>(count);
    return r;
}
} // namespace dur
// every target type whose result is representable is cast to in turn
    #define C13_DUR_F(FS, F)                                                                                                                     \
        C13_FN1(dur_##FS, "duration_cast." #FS, "chrono", long long, (x >= std::numeric_limits<F::rep>::min() && x <= std::numeric_limits<F::rep>::max()), kNoTag, dur::all<F>(x))
C13_DUR_F(minutes, dur::ec::minutes)
C13_DUR_F(hours, dur::ec::hours)
C13_DUR_F(days, dur::ec::days)
C13_DUR_F(weeks, dur::ec::weeks)
C13_DUR_F(months, dur::ec::months)
C13_DUR_F(years, dur::ec::years)
C13_DUR_F(sec32, dur::sec32)
C13_DUR_F(ms32, dur::ms32)
C13_DUR_F(t44100, dur::t44100)
C13_DUR_F(t48000, dur::t48000)
    #define C13_HAVE_PART 1
#endif

// ================================================================== calendar field values that are not ok() (CAL), degenerate counts / positions (DEG)
#if defined(C13_PART_CAL)
// ok(), the accessors and the comparisons are defined for every field value the constructors accept (month, day < 255):
// they must be constant expressions and agree with the run time for invalid dates as well.
namespace cal {
namespace ec = etl::chrono;
constexpr auto ymd(int y, unsigned m, unsigned d) -> u64
{
    scen_hash h;
    ec::year_month_day const a{ec::year{y}, ec::month{m}, ec::day{d}};
    ec::year_month_day const b{ec::year{2024}, ec::month{2}, ec::day{29}};
    h.add(a.ok());
    h.add(static_cast<u64>(static_cast<long long>(int{a.year()})));
    h.add(unsigned{a.month()});
    h.add(unsigned{a.day()});
    h.add(a == b);
    h.add(a != b);
    h.add(a == a);
    h.add(a.year().ok());
    h.add(a.month().ok());
    h.add(a.day().ok());
    h.add(a.year().is_leap());
    ec::year_month const ym{a.year(), a.month()};
    h.add(ym.ok());
    h.add(ym == ec::year_month{b.year(), b.month()});
    ec::year_month_day_last const l{a.year(), ec::month_day_last{a.month()}};
    h.add(l.ok());
    if (l.ok()) {
        h.add(unsigned{l.day()});
        h.add(ec::year_month_day{l}.ok());
        h.add(ec::sys_days{ec::year_month_day{l}}.time_since_epoch().count()); // (year_month_day_last -> sys_days itself is not defined on this tree)
    }
    if (a.ok()) {
        auto const sd = ec::sys_days{a};
        h.add(sd.time_since_epoch().count());
        h.add(ec::year_month_day{sd} == a);
        h.add(ec::weekday{sd}.c_encoding());
    }
    return h.h;
}
constexpr auto md(unsigned m, unsigned d, unsigned w) -> u64
{
    scen_hash h;
    ec::month_day const a{ec::month{m}, ec::day{d}};
    h.add(a.ok());
    h.add(unsigned{a.month()});
    h.add(unsigned{a.day()});
    h.add(a == ec::month_day{ec::month{2}, ec::day{29}});
    h.add(a == a);
    ec::month_day_last const l{ec::month{m}};
    h.add(l.ok());
    h.add(l == ec::month_day_last{ec::month{12}});
    ec::weekday const wd{w};
    ec::weekday_indexed const wi{wd, d % 8};
    ec::weekday_last const wl{wd};
    h.add(wd.ok());
    h.add(wd.c_encoding());
    h.add(wd.iso_encoding());
    h.add(wd == ec::weekday{0U});
    h.add(wi.ok());
    h.add(wi.index());
    h.add(wi.weekday() == wd);
    h.add(wi == wi);
    h.add(wl.ok());
    h.add(wl.weekday() == wd);
    ec::month_weekday const mw{ec::month{m}, wi};
    h.add(mw.ok());
    h.add(unsigned{mw.month()});
    ec::month_weekday_last const mwl{ec::month{m}, wl};
    h.add(mwl.ok());
    h.add(ec::day{d}.ok());
    h.add(ec::month{m}.ok());
    h.add(ec::day{d} < ec::day{15});
    h.add(ec::month{m} < ec::month{6});
    h.add(ec::day{d} == ec::day{31});
    return h.h;
}
constexpr auto ymw(int y, unsigned m, unsigned wi) -> u64
{
    scen_hash h;
    ec::weekday const wd{wi & 15U};          // 0 .. 15
    ec::weekday_indexed const wdi{wd, wi >> 4U}; // index 0 .. 15
    ec::year_month_weekday const a{ec::year{y}, ec::month{m}, wdi};
    h.add(a.ok());
    h.add(static_cast<u64>(static_cast<long long>(int{a.year()})));
    h.add(unsigned{a.month()});
    h.add(a.index());
    h.add(a.weekday().ok());
    h.add(a.weekday_indexed().ok());
    // (year_month_weekday -> sys_days is declared but not defined on this tree: not part of the check)
    h.add(ec::year{y}.ok());
    h.add(ec::year{y}.is_leap());
    h.add(ec::year{y} < ec::year{0});
    h.add(ec::year{y} == ec::year::min());
    h.add(ec::year{y} == ec::year::max());
    return h.h;
}
} // namespace cal
C13_FN3(cal_ymd, "calendar.year_month_day", "chrono", int, unsigned, unsigned, (x >= -32768 && x <= 32767 && y < 255 && z < 255), kNoTag, cal::ymd(x, y, z))
C13_FN3(cal_md, "calendar.month_day_weekday", "chrono", unsigned, unsigned, unsigned, (x < 255 && y < 255 && z < 256), kNoTag, cal::md(x, y, z))
C13_FN3(cal_ymw, "calendar.year_month_weekday", "chrono", int, unsigned, unsigned, (x >= -32768 && x <= 32767 && y < 255 && z < 256), kNoTag, cal::ymw(x, y, z))
    #define C13_HAVE_PART 1
#endif
#if defined(C13_PART_DEG)
// Algorithms that take a count or a middle iterator, on an exact-size array of `len` elements (0 .. 6), with the count k in
// {0, 1, len-1, len, len+1, 2*len, 1000, 2^40}: past-the-range pointers must never be formed, empty ranges must work.
namespace deg {
// The ranges are etl::array<int, N>::begin() .. end(): GCC's constant evaluator rejects pointer arithmetic that leaves such an
// array (it does not for heap or plain local arrays), so forming first + n or last - n beyond the range is recorded.
template <std::size_t N>
struct Buf {
    etl::array<int, N> a{};
    int* p;
    std::size_t n;
    constexpr Buf() : p{a.begin()}, n{N}
    {
        for (std::size_t i = 0; i < N; ++i) { a[i] = static_cast<int>((i * 7 + 3) % 5) * 3 + 1; }
    }
    constexpr explicit Buf(std::size_t /*len*/) : Buf{} { }
    Buf(Buf const&)                    = delete;
    auto operator=(Buf const&) -> Buf& = delete;
    constexpr void hash(scen_hash& h) const
    {
        for (std::size_t i = 0; i < n; ++i) { h.add(p[i]); }
    }
};
template <std::size_t N>
constexpr auto shift(long long k) -> u64;
template <std::size_t N>
constexpr auto counted(long long k) -> u64;
template <std::size_t N>
constexpr auto middle(long long k) -> u64;
    #define C13_DEG_DISPATCH(F)                                                                                                                  \
        constexpr auto F(std::size_t len, long long k) -> u64                                                                                    \
        {                                                                                                                                        \
            switch (len) {                                                                                                                       \
            case 0: return F<0>(k);                                                                                                              \
            case 1: return F<1>(k);                                                                                                              \
            case 2: return F<2>(k);                                                                                                              \
            case 3: return F<3>(k);                                                                                                              \
            case 4: return F<4>(k);                                                                                                              \
            case 5: return F<5>(k);                                                                                                              \
            default: return F<6>(k);                                                                                                             \
            }                                                                                                                                    \
        }
template <std::size_t N>
constexpr auto shift(long long k) -> u64
{
    constexpr auto len = N;
    scen_hash h;
    {
        Buf<N> b{};
        auto* r = etl::shift_left(b.p, b.p + len, static_cast<std::ptrdiff_t>(k));
        h.add(r - b.p);
        if (k >= static_cast<long long>(len) || k == 0) { b.hash(h); } // nothing moved: every element is specified
        else { for (auto* q = b.p; q != r; ++q) { h.add(*q); } }
    }
    {
        Buf<N> b{};
        auto* r = etl::shift_right(b.p, b.p + len, static_cast<std::ptrdiff_t>(k));
        h.add(r - b.p);
        if (k >= static_cast<long long>(len) || k == 0) { b.hash(h); }
        else { for (auto* q = r; q != b.p + len; ++q) { h.add(*q); } }
    }
    return h.h;
}
template <std::size_t N>
constexpr auto counted(long long k) -> u64 // k <= len for the writing algorithms
{
    constexpr auto len = N;
    scen_hash h;
    auto const n = static_cast<std::size_t>(k);
    Buf<N> src{};
    if (n <= len) {
        Buf<N> dst{};
        dst.n = n;
        h.add(etl::copy_n(src.p, n, dst.p) - dst.p);
        dst.hash(h);
        h.add(etl::fill_n(dst.p, n, 9) - dst.p);
        dst.hash(h);
        int g = 0;
        etl::generate_n(dst.p, n, [&g] { return ++g; });
        dst.hash(h);
        int sum = 0;
        etl::for_each_n(src.p, n, [&sum](int v) { sum += v; });
        h.add(sum);
        h.add(etl::next(src.p, static_cast<std::ptrdiff_t>(n)) - src.p);
        h.add(etl::prev(src.p + len, static_cast<std::ptrdiff_t>(n)) - src.p);
        auto* it = src.p;
        etl::advance(it, static_cast<std::ptrdiff_t>(n));
        h.add(it - src.p);
    }
    int const* f = src.p;
    h.add(etl::search_n(f, f + len, k > 1000 ? 1000 : static_cast<int>(k), 4) - f);   // count may exceed the range
    h.add(etl::search_n(f, f + len, 0, 4) - f);
    h.add(etl::search(f, f + len, f, f + (n <= len ? n : 0)) - f);                      // needle: a prefix, possibly empty
    h.add(etl::find_end(f, f + len, f, f + (n <= len ? n : 0)) - f);
    h.add(etl::equal(f, f + (n <= len ? n : 0), f));
    h.add(etl::count(f, f + (n <= len ? n : 0), 4));
    h.add(etl::accumulate(f, f + (n <= len ? n : 0), 0));
    return h.h;
}
template <std::size_t N>
constexpr auto middle(long long k) -> u64 // middle = first + k, k <= len
{
    constexpr auto len = N;
    scen_hash h;
    auto const m = static_cast<std::size_t>(k);
    {
        Buf<N> b{};
        h.add(etl::rotate(b.p, b.p + m, b.p + len) - b.p);
        b.hash(h);
    }
    {
        Buf<N> b{};
        Buf<N> d{};
        h.add(etl::rotate_copy(static_cast<int const*>(b.p), static_cast<int const*>(b.p) + m, static_cast<int const*>(b.p) + len, d.p) - d.p);
        d.hash(h);
    }
    {
        Buf<N> b{};
        etl::partial_sort(b.p, b.p + m, b.p + len);
        for (std::size_t i = 0; i < m; ++i) { h.add(b.p[i]); }
    }
    {
        Buf<N> b{};
        etl::nth_element(b.p, b.p + m, b.p + len); // nth == last is allowed
        if (m < len) { h.add(b.p[m]); }
    }
    {
        Buf<N> b{};
        etl::sort(b.p, b.p + m);
        etl::sort(b.p + m, b.p + len);
        etl::inplace_merge(b.p, b.p + m, b.p + len);
        b.hash(h);
        h.add(etl::is_sorted(b.p, b.p + len));
    }
    {
        Buf<N> b{};
        etl::reverse(b.p, b.p + m);
        etl::reverse(b.p + m, b.p + len);
        b.hash(h);
        Buf<N> c{};
        h.add(etl::swap_ranges(b.p, b.p + m, c.p) - c.p);
        h.add(etl::copy_backward(static_cast<int const*>(b.p), static_cast<int const*>(b.p) + m, c.p + len) - c.p);
        h.add(etl::move_backward(b.p, b.p + m, c.p + len) - c.p);
        h.add(etl::unique(c.p, c.p + m) - c.p);
        h.add(etl::remove(c.p, c.p + m, 4) - c.p);
        h.add(etl::partition(c.p, c.p + m, [](int v) { return v > 5; }) - c.p);
        h.add(etl::stable_partition(b.p, b.p + m, [](int v) { return v > 5; }) - b.p);
        h.add(etl::min_element(b.p, b.p + m) - b.p);
        h.add(etl::max_element(b.p + m, b.p + len) - b.p);
        h.add(etl::is_sorted_until(b.p + m, b.p + len) - b.p);
        h.add(etl::adjacent_find(b.p, b.p + m) - b.p);
        h.add(etl::lower_bound(b.p + m, b.p + m, 3) - b.p); // empty range in the middle
        h.add(etl::lexicographical_compare(b.p, b.p + m, b.p + m, b.p + len));
        h.add(etl::mismatch(b.p, b.p + (m < len - m ? m : len - m), b.p + m).first - b.p);
    }
    return h.h;
}
C13_DEG_DISPATCH(shift)
C13_DEG_DISPATCH(counted)
C13_DEG_DISPATCH(middle)
} // namespace deg
C13_FN2(deg_shift, "degenerate.shift", "algorithm", unsigned, long long, (x <= 6 && y >= 0), kNoTag, deg::shift(x, y))
C13_FN2(deg_counted, "degenerate.counted", "algorithm", unsigned, long long, (x <= 6 && y >= 0), kNoTag, deg::counted(x, y))
C13_FN2(deg_middle, "degenerate.middle", "algorithm", unsigned, long long, (x <= 6 && y >= 0 && y <= static_cast<long long>(x)), kNoTag, deg::middle(x, y))
    #define C13_HAVE_PART 1
#endif

// ================================================================== scenario digests (SCEN) and full-capacity container probes (CONT)
#if defined(C13_PART_SCEN) || defined(C13_PART_CONT)
// A scenario is a constexpr function that derives a fixed-length, valid-by-construction operation history from a 64-bit
// seed, runs it on the etl type and folds every observable (sizes, elements, return values, error codes) into a hash.
// The obligation is: hash computed by the compiler == hash computed at run time from the laundered seed, and the history
// is a constant expression.  Unspecified values (tails after unique/remove/partition, order inside nth_element's
// halves) are never hashed.
namespace scen {
struct Rng {
    u64 s;
    constexpr auto next() -> u64
    {
        u64 z = (s += 0x9E3779B97F4A7C15ULL);
        z     = (z ^ (z >> 30U)) * 0xBF58476D1CE4E5B9ULL;
        z     = (z ^ (z >> 27U)) * 0x94D049BB133111EBULL;
        return z ^ (z >> 31U);
    }
    constexpr auto below(u64 n) -> u64 { return n == 0 ? 0 : next() % n; }
    constexpr auto small() -> int { return static_cast<int>(below(19)) - 9; }
};
struct Hash {
    u64 h{1469598103934665603ULL};
    template <typename T>
    constexpr void add(T v)
    {
        h ^= static_cast<u64>(v);
        h *= 1099511628211ULL;
        h ^= h >> 29U;
    }
};

constexpr auto static_vector(u64 seed) -> u64
{
    using V = etl::static_vector<int, 4>;
    Rng r{seed};
    Hash h;
    V v;
    V w;
    auto snap = [&] {
        h.add(v.size());
        for (auto x : v) { h.add(x); }
    };
    for (int step = 0; step < 14; ++step) {
        auto const op = r.below(13);
        auto const x  = r.small();
        switch (op) {
        case 0:
        case 1:
            if (!v.full()) { v.push_back(x); }
            break;
        case 2:
            if (!v.empty()) { v.pop_back(); }
            break;
        case 3:
            if (!v.full()) { h.add(*v.insert(v.begin() + static_cast<long>(r.below(v.size() + 1)), x)); }
            break;
        case 4:
            if (!v.empty()) { h.add(v.erase(v.begin() + static_cast<long>(r.below(v.size()))) - v.begin()); }
            break;
        case 5: {
            auto const a = r.below(v.size() + 1);
            auto const b = a + r.below(v.size() - a + 1);
            h.add(v.erase(v.begin() + static_cast<long>(a), v.begin() + static_cast<long>(b)) - v.begin());
            break;
        }
        case 6: v.resize(r.below(5)); break;
        case 7: v.resize(r.below(5), x); break;
        case 8: v.assign(r.below(5), x); break;
        case 9: {
            auto const n = r.below(v.capacity() - v.size() + 1);
            v.insert(v.begin() + static_cast<long>(r.below(v.size() + 1)), n, x);
            break;
        }
        case 10:
            w = v;
            if (!w.full()) { w.emplace_back(x); }
            v.swap(w);
            h.add(w.size());
            break;
        case 11: {
            V c{v};
            h.add(c == v);
            h.add(c < w);
            if (!c.empty()) { h.add(c.front() + c.back() + c[c.size() / 2]); }
            break;
        }
        default: v.clear(); break;
        }
        snap();
    }
    return h.h;
}

// probe == true: do not run the history to the end, only report (1) whether it contains an erase of the whole string
// (exclusion class "string.erase.whole": a precondition rejects that valid call on the pinned tree, C04 / patch 17)
constexpr auto inplace_string_impl(u64 seed, bool probe) -> u64
{
    using S = etl::inplace_string<12>;
    constexpr char alpha[] = {'a', 'b', 'c', static_cast<char>(0xe9)};
    Rng r{seed};
    Hash h;
    S s;
    auto ch   = [&] { return alpha[r.below(4)]; };
    auto snap = [&] {
        h.add(s.size());
        for (auto c : s) { h.add(static_cast<unsigned char>(c)); }
        h.add(static_cast<unsigned char>(s.data()[s.size()])); // the terminator
    };
    for (int step = 0; step < 14; ++step) {
        auto const op = r.below(13);
        switch (op) {
        case 0:
        case 1:
            if (!s.full()) { s.push_back(ch()); }
            break;
        case 2:
            if (!s.empty()) { s.pop_back(); }
            break;
        case 3: {
            auto const n = r.below(s.capacity() - s.size() + 1); // (argument evaluation order is unspecified: draw first)
            s.append(n, ch());
            break;
        }
        case 4: {
            char buf[4] = {ch(), ch(), ch(), '\0'};
            buf[r.below(4)] = '\0';
            if (s.size() + 3 <= s.capacity()) { s.append(buf); }
            break;
        }
        case 5: {
            auto const i = r.below(s.size() + 1);
            auto const n = r.below(s.capacity() - s.size() + 1);
            s.insert(i, n, ch());
            break;
        }
        case 6:
            if (!s.empty()) {
                auto const i = r.below(s.size());
                auto const n = r.below(s.size() - i) + 1;
                if (probe && n == s.size()) { return 1; }
                s.erase(i, n);
            }
            break;
        case 7: {
            auto const c = ch();
            h.add(s.find(c, r.below(s.size() + 1)));
            break;
        }
        case 8: {
            auto const tn = r.below(3) + 1;
            S t(tn, ch());
            h.add(s.find(t));
            h.add(s.compare(t) < 0);
            h.add(s.compare(t) > 0);
            h.add(s.starts_with(t));
            h.add(s.ends_with(t));
            h.add(s.contains(ch()));
            h.add(s == t);
            h.add(s < t);
            break;
        }
        case 9: {
            auto const pos = r.below(s.size() + 1);
            auto const t   = s.substr(pos, r.below(6));
            h.add(t.size());
            for (auto c : t) { h.add(static_cast<unsigned char>(c)); }
            break;
        }
        case 10:
            h.add(s.find_first_of(ch()));
            h.add(s.find_first_not_of(ch()));
            break;
        case 11: {
            auto const n = r.below(s.capacity() + 1);
            s.assign(n, ch());
            break;
        }
        default: s.clear(); break;
        }
        snap();
    }
    return probe ? 0 : h.h;
}
constexpr auto inplace_string(u64 seed) -> u64 { return inplace_string_impl(seed, false); }

constexpr auto string_view(u64 seed) -> u64
{
    constexpr char alpha[] = {'a', 'b', static_cast<char>(0xe9)};
    Rng r{seed};
    Hash h;
    char text[12]{};
    char need[3]{};
    auto const tn = r.below(13);
    auto const nn = r.below(4);
    for (std::size_t i = 0; i < tn; ++i) { text[i] = alpha[r.below(3)]; }
    for (std::size_t i = 0; i < nn; ++i) { need[i] = alpha[r.below(3)]; }
    etl::string_view const t{text, tn};
    etl::string_view const n{need, nn};
    auto const pos = r.below(tn + 2);
    h.add(t.find(n));
    h.add(t.find(n, pos));
    h.add(t.rfind(n));
    h.add(t.rfind(n, pos));
    h.add(t.find(alpha[r.below(3)], pos));
    h.add(t.rfind(alpha[r.below(3)], pos));
    h.add(t.find_first_of(n, pos));
    h.add(t.find_last_of(n));
    h.add(t.find_last_of(n, pos));
    h.add(t.find_first_not_of(n, pos));
    h.add(t.find_last_not_of(n));
    h.add(t.find_last_not_of(n, pos));
    h.add(t.compare(n) < 0);
    h.add(t.compare(n) > 0);
    h.add(t.starts_with(n));
    h.add(t.ends_with(n));
    h.add(t.contains(n));
    h.add(t == n);
    h.add(t < n);
    if (pos <= tn) {
        auto const sub = t.substr(pos, r.below(5));
        h.add(sub.size());
        for (auto c : sub) { h.add(static_cast<unsigned char>(c)); }
        auto u = t;
        u.remove_prefix(pos);
        h.add(u.size());
        auto w = t;
        w.remove_suffix(pos);
        h.add(w.size());
        if (!w.empty()) { h.add(static_cast<unsigned char>(w.front()) + static_cast<unsigned char>(w.back())); }
    }
    return h.h;
}

template <typename Int>
constexpr void charconv_one(Rng& r, Hash& h)
{
    // value: boundary or random bit length; base 2..36; buffer generous, exact fit or one short
    using U       = std::make_unsigned_t<Int>;
    auto const k  = r.below(8);
    auto const bl = r.below(sizeof(Int) * 8) + 1;
    U u           = static_cast<U>(r.next() >> (64U - bl));
    if (k == 0) { u = 0; }
    if (k == 1) { u = static_cast<U>(std::numeric_limits<Int>::max()); }
    if (k == 2) { u = static_cast<U>(std::numeric_limits<Int>::min()); }
    if (k == 3) { u = static_cast<U>(-1); }
    auto const val  = static_cast<Int>(u);
    auto const base = static_cast<int>(r.below(35)) + 2;
    char buf[72]{};
    auto const res = etl::to_chars(buf, buf + sizeof(buf), val, base);
    h.add(static_cast<int>(res.ec));
    auto const len = static_cast<std::size_t>(res.ptr - buf);
    h.add(len);
    for (std::size_t i = 0; i < len; ++i) { h.add(static_cast<unsigned char>(buf[i])); }
    Int back{};
    auto const fr = etl::from_chars(buf, buf + len, back, base);
    h.add(static_cast<int>(fr.ec));
    h.add(fr.ptr - buf);
    h.add(static_cast<U>(back));
    // short buffers: only the error code and, on success, the characters are specified
    auto const cut = r.below(2);
    if (len > cut) {
        char small[72]{};
        auto const rs = etl::to_chars(small, small + (len - cut), val, base);
        h.add(static_cast<int>(rs.ec));
        if (rs.ec == etl::errc{}) {
            h.add(rs.ptr - small);
            for (auto const* q = small; q != rs.ptr; ++q) { h.add(static_cast<unsigned char>(*q)); }
        }
    }
}
constexpr auto charconv(u64 seed) -> u64
{
    Rng r{seed};
    Hash h;
    charconv_one<int>(r, h);
    charconv_one<unsigned>(r, h);
    charconv_one<long long>(r, h);
    charconv_one<unsigned long long>(r, h);
    charconv_one<signed char>(r, h);
    charconv_one<unsigned short>(r, h);
    return h.h;
}

constexpr auto algorithm(u64 seed) -> u64
{
    Rng r{seed};
    Hash h;
    etl::array<int, 8> a{};
    auto const n = r.below(9);
    for (std::size_t i = 0; i < n; ++i) { a[i] = r.small() / 2; }
    auto* const f = a.data();
    auto* const l = a.data() + n;
    auto all      = [&](auto* first, auto* last) {
        for (auto* q = first; q != last; ++q) { h.add(*q); }
    };
    auto const v = r.small() / 2;
    h.add(etl::count(f, l, v));
    h.add(etl::find(f, l, v) - f);
    h.add(etl::min_element(f, l) - f);
    h.add(etl::max_element(f, l) - f);
    h.add(etl::accumulate(f, l, 0));
    h.add(etl::is_sorted(f, l));
    h.add(etl::adjacent_find(f, l) - f);
    {
        auto b = a;
        etl::reverse(b.data(), b.data() + n);
        all(b.data(), b.data() + n);
        auto const mid = r.below(n + 1);
        h.add(etl::rotate(b.data(), b.data() + mid, b.data() + n) - b.data());
        all(b.data(), b.data() + n);
    }
    {
        auto b = a;
        auto* e = etl::remove(b.data(), b.data() + n, v);
        h.add(e - b.data());
        all(b.data(), e);
    }
    {
        auto b = a;
        auto* m = etl::partition(b.data(), b.data() + n, [](int x) { return x < 0; });
        h.add(m - b.data());
        h.add(etl::is_partitioned(b.data(), b.data() + n, [](int x) { return x < 0; }));
    }
    {
        auto b = a;
        if (n != 0) {
            auto const k = r.below(n);
            etl::nth_element(b.data(), b.data() + k, b.data() + n);
            h.add(b[k]);
        }
        auto c = a;
        etl::partial_sort(c.data(), c.data() + r.below(n + 1), c.data() + n);
        auto d = a;
        etl::stable_sort(d.data(), d.data() + n, [](int x, int y) { return (x / 2) < (y / 2); });
        all(d.data(), d.data() + n);
    }
    etl::sort(f, l);
    all(f, l);
    h.add(etl::is_sorted(f, l));
    h.add(etl::lower_bound(f, l, v) - f);
    h.add(etl::upper_bound(f, l, v) - f);
    h.add(etl::binary_search(f, l, v));
    auto const er = etl::equal_range(f, l, v);
    h.add(er.first - f);
    h.add(er.second - f);
    auto* u = etl::unique(f, l);
    h.add(u - f);
    all(f, u);
    return h.h;
}

constexpr auto chrono(u64 seed) -> u64
{
    namespace ec = etl::chrono;
    Rng r{seed};
    Hash h;
    auto const z   = static_cast<int>(r.below(2 * 1100000)) - 1100000; // days around the epoch, about +-3000 years
    auto const sd  = ec::sys_days{ec::days{z}};
    auto const ymd = ec::year_month_day{sd};
    h.add(int{ymd.year()});
    h.add(unsigned{ymd.month()});
    h.add(unsigned{ymd.day()});
    h.add(ymd.ok());
    h.add(ec::sys_days{ymd}.time_since_epoch().count());
    h.add(ec::weekday{sd}.c_encoding());
    auto const dm = static_cast<int>(r.below(81)) - 40;
    auto const ym = ec::year_month{ymd.year(), ymd.month()} + ec::months{dm};
    h.add(int{ym.year()});
    h.add(unsigned{ym.month()});
    auto const w0 = static_cast<unsigned>(r.below(7));
    auto const wn = static_cast<int>(r.below(41)) - 20;
    auto const wd = ec::weekday{w0} + ec::days{wn};
    h.add(wd.c_encoding());
    auto const last = ec::year_month_day_last{ymd.year(), ec::month_day_last{ymd.month()}};
    h.add(unsigned{last.day()});
    h.add(ymd.year().is_leap());
    // durations: count in ms, the rounding casts to seconds / minutes (exactly specified, ties to even for round)
    auto const m0  = static_cast<long long>(r.below(2000001)) - 1000000;
    auto const tie = r.below(4) == 0; // every fourth scenario: an exact .5 s tie for round<seconds>
    auto const ms  = ec::milliseconds{tie ? (m0 / 1000) * 1000 + 500 : m0};
    h.add(ec::duration_cast<ec::seconds>(ms).count());
    h.add(ec::floor<ec::seconds>(ms).count());
    h.add(ec::ceil<ec::seconds>(ms).count());
    h.add(ec::round<ec::seconds>(ms).count());
    h.add(ec::floor<ec::minutes>(ms).count());
    h.add(ec::abs(ms).count());
    h.add((ms + ec::seconds{3}).count());
    h.add((ms % ec::seconds{7}).count());
    h.add(ms < ec::seconds{1});
    return h.h;
}

constexpr auto array_bitset(u64 seed) -> u64
{
    Rng r{seed};
    Hash h;
    etl::bitset<20> b{r.next()};
    etl::bitset<20> c{r.next()};
    for (int step = 0; step < 10; ++step) {
        auto const op  = r.below(10);
        auto const pos = r.below(20);
        switch (op) {
        case 0: b.set(pos); break;
        case 1: b.reset(pos); break;
        case 2: b.flip(pos); break;
        case 3: b.set(pos, r.below(2) != 0); break;
        case 4: b = ~b; break;
        case 5: b = (b & c) | (b ^ c); break;
        case 6: b &= c; break;
        case 7: b |= c; break;
        case 8: b ^= c; break;
        default: b.flip(); break;
        }
        h.add(b.count());
        h.add(b.any());
        h.add(b.all());
        h.add(b.none());
        h.add(b.test(pos));
        h.add(b[19 - pos]);
        h.add(b == c);
        h.add(b.to_ullong());
    }
    return h.h;
}
// element-wise algorithms over every element width: a run-time-only memcmp / memcpy fast path would order or copy
// differently for values whose byte order and value order disagree, for negative values and beyond 2^32
template <typename T>
constexpr auto ranges(u64 seed) -> u64
{
    constexpr T alpha[] = {T(0), T(1), T(0x7f), T(0x80), T(0xff), static_cast<T>(0x100), static_cast<T>(0x1ff), static_cast<T>(0x200), static_cast<T>(-1),
        std::numeric_limits<T>::min(), std::numeric_limits<T>::max(), static_cast<T>(0x100000001ULL), static_cast<T>(0x0100000000000000ULL),
        static_cast<T>(0x00ffffffffffffffULL), static_cast<T>(0x20ac), static_cast<T>(0x21ab)};
    Rng r{seed};
    Hash h;
    etl::array<T, 6> a{};
    etl::array<T, 6> b{};
    auto const n1 = r.below(7);
    auto const n2 = r.below(7);
    auto const cp = r.below((n1 < n2 ? n1 : n2) + 1); // common prefix
    for (std::size_t i = 0; i < 6; ++i) { a[i] = alpha[r.below(16)]; }
    for (std::size_t i = 0; i < 6; ++i) { b[i] = i < cp ? a[i] : alpha[r.below(16)]; }
    auto* const af = a.data();
    auto* const bf = b.data();
    auto val = [](T v) { return static_cast<u64>(static_cast<std::make_unsigned_t<T>>(v)); };
    auto all = [&](T const* f, T const* l) {
        for (auto const* q = f; q != l; ++q) { h.add(val(*q)); }
    };
    h.add(etl::equal(af, af + n1, bf, bf + n2));
    h.add(etl::equal(af, af + cp, bf));
    h.add(etl::lexicographical_compare(af, af + n1, bf, bf + n2));
    h.add(etl::lexicographical_compare(bf, bf + n2, af, af + n1));
    auto const mm = etl::mismatch(af, af + (n1 < n2 ? n1 : n2), bf);
    h.add(mm.first - af);
    h.add(a == b);
    h.add(a != b);
    h.add(a < b);
    h.add(a <= b);
    h.add(a > b);
    h.add(etl::min_element(af, af + n1) - af);
    h.add(etl::max_element(af, af + n1) - af);
    auto const v = alpha[r.below(16)];
    h.add(etl::find(af, af + n1, v) - af);
    h.add(etl::count(af, af + n1, v));
    h.add(val(etl::min(a[0], b[1])));
    h.add(val(etl::max(a[2], b[3])));
    h.add(val(etl::clamp(v, etl::min(a[4], b[4]), etl::max(a[4], b[4]))));
    {
        etl::array<T, 6> c{};
        h.add(etl::copy(af, af + n1, c.data()) - c.data());
        all(c.data(), c.data() + 6);
        h.add(c.data() + 6 - etl::copy_backward(bf, bf + n2, c.data() + 6));
        all(c.data(), c.data() + 6);
        etl::move(af + cp, af + n1, c.data());
        all(c.data(), c.data() + 6);
        // overlapping, in the permitted direction
        if (n1 >= 2) {
            auto d = a;
            etl::copy(d.data() + 1, d.data() + n1, d.data());
            all(d.data(), d.data() + 6);
            auto e = a;
            etl::copy_backward(e.data(), e.data() + n1 - 1, e.data() + n1);
            all(e.data(), e.data() + 6);
        }
        etl::fill(c.data(), c.data() + n2, v);
        etl::fill_n(c.data() + n2, 6 - n2, a[5]);
        all(c.data(), c.data() + 6);
        etl::reverse_copy(af, af + n1, c.data());
        all(c.data(), c.data() + n1);
        etl::rotate_copy(bf, bf + cp, bf + n2, c.data());
        all(c.data(), c.data() + n2);
        auto x = a;
        auto y = b;
        etl::swap_ranges(x.data(), x.data() + n1, y.data());
        all(x.data(), x.data() + 6);
        all(y.data(), y.data() + 6);
        etl::sort(x.data(), x.data() + 6);
        all(x.data(), x.data() + 6);
    }
    return h.h;
}
// element-wise algorithms and containers over FLOATING-POINT elements: equal values with different representations
// (+0.0 / -0.0), identical representations that are unequal (NaN), infinities, denormals.  Equality-based operations
// see the whole alphabet; ordering-based ones (the comparator must be a strict weak order) see it without NaN.
template <typename T>
constexpr auto franges(u64 seed) -> u64
{
    using L = std::numeric_limits<T>;
    T const eqa[16]  = {T(0), -T(0), L::quiet_NaN(), -L::quiet_NaN(), L::infinity(), -L::infinity(), L::denorm_min(), -L::denorm_min(), T(1), T(-1), L::max(),
         L::lowest(), L::min(), T(0.5), T(2), T(3)};
    T const orda[16] = {T(0), -T(0), T(1.5), T(-2.5), L::infinity(), -L::infinity(), L::denorm_min(), -L::denorm_min(), T(1), T(-1), L::max(), L::lowest(),
        L::min(), T(0.5), T(2), T(3)};
    Rng r{seed};
    Hash h;
    auto bits  = [](T v) { return res(v); };                          // NaN folded, the sign of a zero kept
    auto value = [](T v) { return v == 0 ? u64{0} : res(v); };        // for results where "which of two equal elements" is unspecified
    auto twin  = [&](T v) { return (v == 0 && r.below(2) == 0) ? -v : v; }; // the equal value with the other representation
    {
        etl::array<T, 6> a{};
        etl::array<T, 6> b{};
        auto const n1 = r.below(7);
        auto const n2 = r.below(7);
        auto const cp = r.below((n1 < n2 ? n1 : n2) + 1);
        for (std::size_t i = 0; i < 6; ++i) { a[i] = eqa[r.below(16)]; }
        for (std::size_t i = 0; i < 6; ++i) { b[i] = i < cp ? twin(a[i]) : eqa[r.below(16)]; }
        if (r.below(4) == 0) {
            for (std::size_t i = cp; i < 6; ++i) { b[i] = twin(a[i]); } // completely "equal" ranges
        }
        auto* const af = a.data();
        auto* const bf = b.data();
        auto const m   = n1 < n2 ? n1 : n2;
        auto const v   = eqa[r.below(16)];
        h.add(etl::equal(af, af + m, bf));
        h.add(etl::equal(af, af + n1, bf, bf + n2));
        h.add(etl::equal(af, af + cp, bf, bf + cp));
        h.add(etl::equal(af, af + n1, af));
        h.add(etl::equal(a.begin(), a.end(), b.begin()));
        h.add(etl::mismatch(af, af + m, bf).first - af);
        h.add(etl::find(af, af + n1, v) - af);
        h.add(etl::count(af, af + n1, v));
        h.add(etl::search(af, af + n1, bf, bf + (n2 < 2 ? n2 : 2)) - af);
        h.add(etl::find_end(af, af + n1, bf, bf + (n2 < 2 ? n2 : 2)) - af);
        h.add(etl::find_first_of(af, af + n1, bf, bf + n2) - af);
        h.add(etl::adjacent_find(af, af + n1) - af);
        h.add(etl::search_n(af, af + n1, 2, v) - af);
        h.add(etl::is_permutation(af, af + m, bf));
        h.add(a == b);
        h.add(a != b);
        h.add(a == a);
        etl::static_vector<T, 6> const va(af, af + n1);
        etl::static_vector<T, 6> const vb(bf, bf + n2);
        h.add(va == vb);
        h.add(va != vb);
        h.add(va == va);
        {
            auto c = a;
            auto* e = etl::remove(c.data(), c.data() + n1, v);
            h.add(e - c.data());
            for (auto* q = c.data(); q != e; ++q) { h.add(bits(*q)); }
            auto d = a;
            etl::replace(d.data(), d.data() + n1, v, T(42));
            for (auto q : d) { h.add(bits(q)); }
            auto u  = b;
            auto* ue = etl::unique(u.data(), u.data() + n2);
            h.add(ue - u.data());
            for (auto* q = u.data(); q != ue; ++q) { h.add(value(*q)); }
            etl::array<T, 6> w{};
            etl::copy(af, af + n1, w.data());
            for (auto q : w) { h.add(bits(q)); }
        }
    }
    {
        etl::array<T, 6> c{};
        etl::array<T, 6> d{};
        auto const n1 = r.below(7);
        auto const n2 = r.below(7);
        auto const cp = r.below((n1 < n2 ? n1 : n2) + 1);
        for (std::size_t i = 0; i < 6; ++i) { c[i] = orda[r.below(16)]; }
        for (std::size_t i = 0; i < 6; ++i) { d[i] = i < cp ? twin(c[i]) : orda[r.below(16)]; }
        auto* const cf = c.data();
        auto* const df = d.data();
        auto const v   = orda[r.below(16)];
        h.add(etl::lexicographical_compare(cf, cf + n1, df, df + n2));
        h.add(etl::lexicographical_compare(df, df + n2, cf, cf + n1));
        h.add(c < d);
        h.add(c <= d);
        h.add(c > d);
        h.add(etl::min_element(cf, cf + n1) - cf);
        h.add(etl::max_element(cf, cf + n1) - cf);
        auto const mme = etl::minmax_element(df, df + n2);
        h.add(mme.first - df);
        h.add(mme.second - df);
        h.add(etl::is_sorted(cf, cf + n1));
        h.add(etl::is_sorted_until(cf, cf + n1) - cf);
        h.add(bits(etl::min(c[0], d[0])));
        h.add(bits(etl::max(c[1], d[1])));
        h.add(bits(etl::clamp(v, etl::min(c[2], d[2]), etl::max(c[2], d[2]))));
        auto st = c;
        etl::stable_sort(st.data(), st.data() + n1);
        for (std::size_t i = 0; i < n1; ++i) { h.add(bits(st[i])); }
        auto so = c;
        etl::sort(so.data(), so.data() + n1);
        for (std::size_t i = 0; i < n1; ++i) { h.add(value(so[i])); }
        h.add(etl::lower_bound(so.data(), so.data() + n1, v) - so.data());
        h.add(etl::upper_bound(so.data(), so.data() + n1, v) - so.data());
        h.add(etl::binary_search(so.data(), so.data() + n1, v));
        etl::static_set<T, 6> const s1(cf, cf + n1);
        etl::static_set<T, 6> const s2(df, df + n2);
        h.add(s1.size());
        h.add(s1 == s2);
        h.add(s1 != s2);
        h.add(s1 == s1);
        h.add(s1.contains(v));
        h.add(s1.find(v) - s1.begin());
        h.add(s1.lower_bound(v) - s1.begin());
        for (auto q : s1) { h.add(bits(q)); }
        using FS = etl::flat_set<T, etl::static_vector<T, 6>>;
        FS const f1(cf, cf + n1);
        FS const f2(df, df + n2);
        h.add(f1.size());
        h.add(f1 == f2);
        h.add(f1 == f1);
        h.add(f1 < f2);
        h.add(f1.contains(v));
        h.add(f1.find(v) - f1.begin());
        h.add(f1.upper_bound(v) - f1.begin());
        for (auto q : f1) { h.add(bits(q)); }
    }
    return h.h;
}

// searches in containers AT FULL CAPACITY (and every smaller fill): elements are the values 10*(i+1) of the set bits of
// `mask`, the key sweeps 5, 10, 15 .. 45: smaller than every element, each element, absent in the middle, greater than every
// element.  With size() == capacity, end() is one past the storage: a read through it is not a constant expression.
constexpr auto mask_count(u64 mask) -> std::size_t { return static_cast<std::size_t>(__builtin_popcountll(mask & 15U)); }
template <typename S>
constexpr auto set_probe(u64 mask, u64 keyi) -> u64
{
    Hash h;
    S s;
    if ((keyi & 1U) != 0) { // insertion order: ascending or descending
        for (int i = 0; i < 4; ++i) {
            if (((mask >> i) & 1U) != 0) { s.insert(10 * (i + 1)); }
        }
    } else {
        for (int i = 3; i >= 0; --i) {
            if (((mask >> i) & 1U) != 0) { s.insert(10 * (i + 1)); }
        }
    }
    S const& cs    = s;
    auto const key = static_cast<int>(5 * keyi + 5);
    h.add(cs.size());
    h.add(cs.find(key) - cs.begin());
    h.add(s.find(key) - s.begin());
    h.add(cs.contains(key));
    h.add(cs.count(key));
    h.add(cs.lower_bound(key) - cs.begin());
    h.add(s.lower_bound(key) - s.begin());
    h.add(cs.upper_bound(key) - cs.begin());
    h.add(s.upper_bound(key) - s.begin());
    if constexpr (requires { typename S::key_compare::is_transparent; }) { // heterogeneous overloads
        auto const lk = static_cast<long>(key);
        h.add(cs.find(lk) - cs.begin());
        h.add(s.find(lk) - s.begin());
        h.add(cs.contains(lk));
        h.add(cs.count(lk));
        h.add(cs.lower_bound(lk) - cs.begin());
        h.add(cs.upper_bound(lk) - cs.begin());
    }
    for (auto v : cs) { h.add(v); }
    auto t = s;
    h.add(t == cs);
    h.add(t.erase(key));
    h.add(t.size());
    h.add(t == cs);
    h.add(t < cs);
    if (t.size() < t.max_size()) {
        auto const ins = t.insert(key);
        h.add(ins.second);
        h.add(ins.first - t.begin());
        h.add(t.contains(key));
    }
    for (auto v : t) { h.add(v); }
    return h.h;
}
template <typename S>
constexpr auto flat_probe(u64 mask, u64 keyi) -> u64
{
    auto h = set_probe<S>(mask, keyi);
    S s;
    for (int i = 0; i < 4; ++i) {
        if (((mask >> i) & 1U) != 0) { s.insert(10 * (i + 1)); }
    }
    S const& cs    = s;
    auto const key = static_cast<int>(5 * keyi + 5);
    auto const er  = cs.equal_range(key);
    auto const er2 = s.equal_range(key);
    return h ^ (static_cast<u64>(er.first - cs.begin()) * 7 + static_cast<u64>(er.second - cs.begin()) * 63 + static_cast<u64>(er2.first - s.begin()) * 511
                   + static_cast<u64>(er2.second - s.begin()) * 4095);
}
// the same sweep over an exact-size sorted array (a transient allocation of exactly size() elements)
constexpr auto sorted_array_probe(u64 mask, u64 keyi) -> u64
{
    Hash h;
    auto const n = mask_count(mask);
    auto* p      = new int[n];
    std::size_t k = 0;
    for (int i = 0; i < 4; ++i) {
        if (((mask >> i) & 1U) != 0) { p[k++] = 10 * (i + 1); }
    }
    auto const key = static_cast<int>(5 * keyi + 5);
    int const* f   = p;
    int const* l   = p + n;
    h.add(etl::lower_bound(f, l, key) - f);
    h.add(etl::upper_bound(f, l, key) - f);
    auto const er = etl::equal_range(f, l, key);
    h.add(er.first - f);
    h.add(er.second - f);
    h.add(etl::binary_search(f, l, key));
    h.add(etl::find(f, l, key) - f);
    h.add(etl::count(f, l, key));
    h.add(etl::partition_point(f, l, [key](int v) { return v < key; }) - f);
    h.add(etl::is_sorted_until(f, l) - f);
    h.add(etl::adjacent_find(f, l) - f);
    h.add(etl::search_n(f, l, 1, key) - f);
    h.add(etl::find_if(f, l, [key](int v) { return v > key; }) - f);
    h.add(etl::find_if_not(f, l, [key](int v) { return v < key; }) - f);
    h.add(etl::min_element(f, l) - f);
    h.add(etl::max_element(f, l) - f);
    h.add(etl::includes(f, l, &key, &key + 1));
    h.add(etl::lower_bound(f, l, key, etl::less<>()) - f);
    h.add(etl::upper_bound(f, l, key, etl::less<>()) - f);
    delete[] p;
    return h.h;
}
// a full (and partly filled) static_vector and inplace_string searched up to their end
template <std::size_t N>
constexpr auto vector_probe(u64 mask, u64 keyi) -> u64
{
    Hash h;
    etl::static_vector<int, N> v;
    for (int i = 0; i < 4; ++i) {
        if (((mask >> i) & 1U) != 0) { v.push_back(10 * (i + 1)); }
    }
    auto const& cv  = v;
    auto const key = static_cast<int>(5 * keyi + 5);
    h.add(etl::find(cv.begin(), cv.end(), key) - cv.begin());
    h.add(etl::lower_bound(cv.begin(), cv.end(), key) - cv.begin());
    h.add(etl::upper_bound(cv.begin(), cv.end(), key) - cv.begin());
    h.add(etl::binary_search(cv.begin(), cv.end(), key));
    h.add(etl::count(cv.begin(), cv.end(), key));
    h.add(etl::find(cv.rbegin(), cv.rend(), key) - cv.rbegin());
    if (!cv.empty()) { h.add(cv.front() + cv.back() + cv[cv.size() - 1]); }
    auto w = v;
    h.add(w == cv);
    auto const it = etl::find(w.begin(), w.end(), key);
    if (it != w.end()) { h.add(w.erase(it) - w.begin()); }
    if (!w.full()) { h.add(*w.insert(etl::lower_bound(w.begin(), w.end(), key), key)); }
    for (auto x : w) { h.add(x); }
    return h.h;
}
template <std::size_t N>
constexpr auto string_probe(u64 mask, u64 keyi) -> u64
{
    Hash h;
    etl::inplace_string<N> s;
    for (int i = 0; i < 4; ++i) {
        if (((mask >> i) & 1U) != 0) { s.push_back(static_cast<char>('b' + 2 * i)); } // b d f h
    }
    auto const& cs = s;
    auto const c   = static_cast<char>('a' + keyi); // a .. i: below all, each element, between, above all
    char const needle[3] = {c, static_cast<char>(c + 2), '\0'};
    h.add(cs.find(c));
    h.add(cs.find(c, cs.size()));
    h.add(cs.rfind(c, cs.size()));
    h.add(cs.find(needle));
    h.add(cs.find_first_of(c));
    h.add(cs.find_first_of(needle));
    h.add(cs.find_first_not_of(c));
    h.add(cs.find_last_of(c));
    h.add(cs.find_last_of(needle));
    h.add(cs.find_last_not_of(c));
    h.add(cs.contains(c));
    h.add(cs.contains(needle));
    h.add(cs.starts_with(c));
    h.add(cs.ends_with(c));
    h.add(cs.ends_with(needle));
    h.add(cs.compare(needle) < 0);
    h.add(static_cast<unsigned char>(cs.data()[cs.size()]));
    etl::string_view const sv{cs};
    h.add(sv.find(c));
    h.add(sv.rfind(c));
    h.add(sv.find(etl::string_view{needle}));
    h.add(sv.find_last_of(etl::string_view{needle}));
    h.add(sv.find_last_not_of(c));
    h.add(sv.ends_with(c));
    auto const sub = cs.substr(cs.size());
    h.add(sub.size());
    return h.h;
}
} // namespace scen
    #define C13_RANGES(S, T) C13_FN1(scen_ranges_##S, "scenario.ranges_" #S, "scenario", Seed, true, kNoTag, scen::ranges<T>(x))
C13_RANGES(i8, std::int8_t)
C13_RANGES(u8, std::uint8_t)
C13_RANGES(i16, std::int16_t)
C13_RANGES(u16, std::uint16_t)
C13_RANGES(i32, std::int32_t)
C13_RANGES(u32, std::uint32_t)
C13_RANGES(i64, std::int64_t)
C13_RANGES(u64, std::uint64_t)
C13_RANGES(c16, char16_t)
C13_FN1(scen_franges_f32, "scenario.franges_f32", "scenario", Seed, true, kNoTag, scen::franges<float>(x))
C13_FN1(scen_franges_f64, "scenario.franges_f64", "scenario", Seed, true, kNoTag, scen::franges<double>(x))
// (mask, key index): containers at every fill up to full capacity N (the mask must fit)
    #define C13_PROBE(ID, NAME, N, ...) C13_FN2(ID, NAME, "container", unsigned, unsigned, (scen::mask_count(x) <= N && x < 16 && y < 9), kNoTag, __VA_ARGS__)
    #define C13_SETS(N)                                                                                                                            \
        C13_PROBE(flat_set_less_##N, "flat_set.less.cap" #N, N, scen::flat_probe<etl::flat_set<int, etl::static_vector<int, N>>>(x, y))               \
        C13_PROBE(flat_set_void_##N, "flat_set.less_void.cap" #N, N, scen::flat_probe<etl::flat_set<int, etl::static_vector<int, N>, etl::less<>>>(x, y)) \
        C13_PROBE(flat_set_greater_##N, "flat_set.greater.cap" #N, N, scen::flat_probe<etl::flat_set<int, etl::static_vector<int, N>, etl::greater<int>>>(x, y)) \
        C13_PROBE(static_set_less_##N, "static_set.less.cap" #N, N, scen::set_probe<etl::static_set<int, N>>(x, y))                                 \
        C13_PROBE(static_set_void_##N, "static_set.less_void.cap" #N, N, scen::set_probe<etl::static_set<int, N, etl::less<>>>(x, y))                \
        C13_PROBE(static_set_greater_##N, "static_set.greater.cap" #N, N, scen::set_probe<etl::static_set<int, N, etl::greater<int>>>(x, y))         \
        C13_PROBE(static_vector_##N, "static_vector.cap" #N, N, scen::vector_probe<N>(x, y))                                                        \
        C13_PROBE(inplace_string_##N, "inplace_string.cap" #N, N, scen::string_probe<N>(x, y))
C13_SETS(1)
C13_SETS(2)
C13_SETS(3)
C13_SETS(4)
C13_PROBE(sorted_array, "sorted_array", 4, scen::sorted_array_probe(x, y))
    #define C13_SCEN(F) C13_FN1(scen_##F, "scenario." #F, "scenario", Seed, true, kNoTag, scen::F(x))
C13_SCEN(static_vector)
C13_FN1(scen_inplace_string, "scenario.inplace_string", "scenario", Seed, true, (scen::inplace_string_impl(x, true) == 1 ? "string.erase.whole" : kNoTag), scen::inplace_string(x))
C13_SCEN(string_view)
C13_SCEN(charconv)
C13_SCEN(algorithm)
C13_SCEN(chrono)
C13_SCEN(array_bitset)
    #define C13_HAVE_PART 1
#endif

} // namespace c13

#if !defined(C13_HAVE_PART) || !defined(C13_GEN_HEADER)
    #error "compile with -DC13_PART_<CM64|CM32|CMLD|INT8|NUM8|W1632|W64|CSTR|WSTR|SCEN|CONT|HET|MIX|DUR|CAL|DEG> (one or more) and -DC13_GEN_HEADER=\"C13_gen_<part>.hpp\""
#endif
#include C13_GEN_HEADER

namespace c13 {

struct Case {
    Set const* s;
    Args a;
};
auto show_case(Case const& k) -> std::string
{
    char buf[96];
    std::string o = k.s->fname;
    o += "|";
    for (int i = 0; i < k.s->arity; ++i) {
        std::snprintf(buf, sizeof buf, "%s0x%llx", i == 0 ? "" : ",", static_cast<unsigned long long>(k.a.v[i]));
        o += buf;
    }
    return o;
}

void register_all()
{
    if (!sets().empty()) { return; }
#define C13_ADD(F, D) add_set<F, D>();
    C13_OBLIGATIONS(C13_ADD)
#undef C13_ADD
}

// one obligation: "" or the mismatch detail (deterministic text)
auto check_one(Set const& s, Args const& a, Ct const& ct) -> std::string
{
    if (!ct.ok) { return std::string(s.fname) + "(" + s.show_args(a) + "): not a constant expression for an in-domain argument"; }
    auto const r = s.rt(a);
    if (r != ct.v) { return std::string(s.fname) + "(" + s.show_args(a) + "): compile time " + s.show_res(ct.v) + ", run time " + s.show_res(r); }
    return "";
}

void label_classes(Set const& s, unsigned cl)
{
    if ((cl & kFloat) != 0) {
        vf::label("float arg: zero", (cl & kZero) != 0);
        vf::label("float arg: denormal", (cl & kDenormal) != 0);
        vf::label("float arg: tie n+.5", (cl & kTie) != 0);
        vf::label("float arg: >= 2^23 / 2^52", (cl & kBig) != 0);
        vf::label("float arg: inf/NaN", (cl & kInfNan) != 0);
    } else if ((cl & kChar) != 0) {
        vf::label("char arg: high bit / EOF", (cl & kHighBit) != 0);
    } else if ((cl & kInt) != 0) {
        vf::label("int arg: negative or top bit", (cl & (kNegative | kTopBit)) != 0);
        vf::label("int arg: zero", (cl & kZero) != 0);
    }
    (void)s;
}

} // namespace c13

void vf_run(vf::Ctx& c)
{
    using namespace c13;
    register_all();
    std::vector<Ct> ct;
    std::uint64_t item  = 0;
    bool const list_all = std::getenv("C13_LIST") != nullptr;
    for (auto const& s : sets()) {
        s.ct(ct);
        for (std::size_t i = 0; i < s.size; ++i) {
            if (!c.mine(item++)) { continue; }
            Case const k{&s, s.arg(i)};
            if (!s.dom(k.a)) {
                vf::count("outside the documented domain (not evaluated)");
                continue;
            }
            if (auto const* tag = s.excl(k.a); tag != nullptr && c.excluded(tag)) {
                vf::excluded_known(tag);
                continue;
            }
            vf::Flight<Case> fl(s.sub, k);
            auto const d = check_one(s, k.a, ct[i]);
            vf::eval(s.sub);
            auto const cl = s.classes(k.a);
            label_classes(s, cl);
            if ((cl & (kZero | kDenormal | kTie | kBig | kInfNan | kHighBit | kNegative | kTopBit)) != 0 || std::string_view(s.sub) == "scenario" || std::string_view(s.sub) == "container" || std::string_view(s.sub) == "algorithm") {
                vf::nontrivial_count();
                vf::sample(s.sub, [&] { return std::string(s.fname) + "(" + s.show_args(k.a) + ") = " + s.show_res(ct[i].v); });
            }
            if (!d.empty()) {
                if (list_all) { // developer aid (C13_LIST=1): print every failing obligation instead of stopping at the first
                    std::printf("FAIL %s [%s] %s :: %s\n", show_case(k).c_str(), s.excl(k.a) != nullptr ? s.excl(k.a) : "-", s.dname, d.c_str());
                    continue;
                }
                vf::mismatch(s.sub, k, d);
                return;
            }
        }
    }
    vf::count("obligation sets (function x table)", sets().size());
#if defined(C13_GEN_PINNED)
    vf::count("pinned obligations from recorded cases", C13_GEN_PINNED);
#endif
}

std::string vf_replay(std::string const& sub, std::string const& cs)
{
    using namespace c13;
    (void)sub;
    register_all();
    auto const bar = cs.find('|');
    if (bar == std::string::npos) { return "unparsable case string: " + cs; }
    auto const fname = cs.substr(0, bar);
    Args a{{0, 0, 0}};
    {
        std::stringstream ss(cs.substr(bar + 1));
        std::string t;
        int n = 0;
        while (n < 3 && std::getline(ss, t, ',')) { a.v[n++] = std::strtoull(t.c_str(), nullptr, 0); }
    }
    bool known = false;
    std::vector<Ct> ct;
    for (auto const& s : sets()) {
        if (fname != s.fname) { continue; }
        known = true;
        for (std::size_t i = 0; i < s.size; ++i) {
            if (!(s.arg(i) == a)) { continue; }
            if (!s.dom(a)) { return ""; } // outside the documented domain: nothing is claimed
            s.ct(ct);
            Case const k{&s, a};
            vf::Flight<Case> fl(s.sub, k);
            return check_one(s, a, ct[i]);
        }
    }
    // The compile-time half of an obligation exists only for arguments that are in the generated tables; recorded cases
    // are pinned into them by gen/C13_gen.py, so this is reached only for hand-written case strings.
    return std::string(known ? "argument tuple" : "function") + " of '" + cs + "' is not in the compiled tables of this harness (put the case under replay/C13 and rebuild)";
}
