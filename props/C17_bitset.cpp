// C17 — etl::bitset<N> and etl::basic_bitset<N,W> equal std::bitset<N> for every width and operation history;
//        padding bits (unused high bits of the last storage word) never influence a result.
// Engines: E1 rapidcheck histories over two bitsets (<= 40 ops); E2 for N <= 9: every value x every single op
//          (every value pair for the binary ops, every string of length <= N for the string constructors).
// Oracle : std::bitset<N>, driven in lock-step.  After every op EVERY observer of the touched bitset is compared
//          (test / operator[] const / proxy->bool for every bit, count, all, any, none, size, to_ulong, to_ullong,
//          to_string with default and custom characters, == with itself and with a bitset that was freshly built
//          bit by bit from the oracle's value — the latter two are how dirty padding would show).
//
// One source, five translation units (registry passes -DC17_WIDTHS=a,b,c: the widths of that unit); every width
// covers etl::bitset<N> and basic_bitset<N,W> for W in {uint8_t, uint16_t, uint32_t, uint64_t}.
// g++ only (clang 14 cannot parse bitset.hpp).
//
// Not part of the check on this tree: basic_bitset has no test()/set(pos)/reset(pos)/flip(pos) (the unchecked_* members
// are used instead), no operator~, no string constructors and no to_string/to_ulong/to_ullong; etl::bitset::to_ulong /
// to_ullong only exist for N <= digits (std: "only where the value fits"), so they are compared for N <= 64 only.
// Never asked (preconditions / std throws): pos >= N; strings with characters other than zero/one inside the used
// range; a used length > N (etl precondition; std would silently use the first N); pos > str.size().
#include <etl/bitset.hpp>
#include <etl/string.hpp>
#include <etl/string_view.hpp>
#include <etl/utility.hpp>

#include "rc.hpp"

#include <bitset>
#include <cstdarg>
#include <memory>
#include <string>

#ifndef C17_WIDTHS
    #define C17_WIDTHS 9
#endif
#ifndef C17_DENSE // widths that only get the light "dense contents + whole-set operations" runner
    #define C17_DENSE 16
#endif

namespace {

using vf::OpsCase;
using vf::RawOp;

__attribute__((noinline, format(printf, 1, 2))) auto fmt(char const* f, ...) -> std::string
{
    char buf[1024];
    va_list ap;
    va_start(ap, f);
    std::vsnprintf(buf, sizeof buf, f, ap);
    va_end(ap);
    return buf;
}

auto splitmix(std::uint64_t z) -> std::uint64_t
{
    z += 0x9E3779B97F4A7C15ULL;
    z = (z ^ (z >> 30)) * 0xBF58476D1CE4E5B9ULL;
    z = (z ^ (z >> 27)) * 0x94D049BB133111EBULL;
    return z ^ (z >> 31);
}

// ------------------------------------------------------------------ observations (POD) and their judgement (no templates)
struct Bits {
    std::uint64_t w[16]{}; // up to 1024 bits
    auto put(std::size_t i, bool v) -> void
    {
        if (v) { w[i / 64] |= (std::uint64_t{1} << (i % 64)); }
    }
    [[nodiscard]] auto get(std::size_t i) const -> bool { return ((w[i / 64] >> (i % 64)) & 1U) != 0; }
    auto operator==(Bits const& o) const -> bool
    {
        for (int i = 0; i < 16; ++i) {
            if (w[i] != o.w[i]) { return false; }
        }
        return true;
    }
};
auto show_bits(Bits const& b, std::size_t n) -> std::string // most significant bit first, like to_string
{
    std::string s;
    for (std::size_t i = n; i > 0; --i) { s += b.get(i - 1) ? '1' : '0'; }
    return s;
}
struct Snap {
    std::size_t n{0};
    bool full{false};
    Bits by_test, by_index, by_proxy;
    std::size_t count{0}, size{0};
    bool all{false}, any{false}, none{false};
    bool eq_self{true}, ne_self{false}, eq_fresh{true}, fresh_eq{true};
    bool has_conv{false};
    unsigned long ul{0};
    unsigned long long ull{0};
    bool has_str{false};
    std::string str, str_custom, str_roomy;
};

auto judge(char const* name, Snap const& e, Snap const& r) -> std::string
{
    auto const n = r.n;
    if (!(e.by_test == r.by_test)) { return fmt("%s: bits by test() are %s, std::bitset has %s", name, show_bits(e.by_test, n).c_str(), show_bits(r.by_test, n).c_str()); }
    if (e.count != r.count) { return fmt("%s: count() is %zu, std::bitset says %zu (value %s)", name, e.count, r.count, show_bits(r.by_test, n).c_str()); }
    if (!r.full) { return ""; }
    if (!(e.by_index == r.by_test)) { return fmt("%s: bits by operator[] const are %s, std::bitset has %s", name, show_bits(e.by_index, n).c_str(), show_bits(r.by_test, n).c_str()); }
    if (!(e.by_proxy == r.by_test)) { return fmt("%s: bits by proxy reference are %s, std::bitset has %s", name, show_bits(e.by_proxy, n).c_str(), show_bits(r.by_test, n).c_str()); }
    if (e.size != r.size) { return fmt("%s: size() is %zu, expected %zu", name, e.size, r.size); }
    if (e.all != r.all) { return fmt("%s: all() is %s, std::bitset says %s (value %s)", name, e.all ? "true" : "false", r.all ? "true" : "false", show_bits(r.by_test, n).c_str()); }
    if (e.any != r.any) { return fmt("%s: any() is %s, std::bitset says %s (value %s)", name, e.any ? "true" : "false", r.any ? "true" : "false", show_bits(r.by_test, n).c_str()); }
    if (e.none != r.none) { return fmt("%s: none() is %s, std::bitset says %s (value %s)", name, e.none ? "true" : "false", r.none ? "true" : "false", show_bits(r.by_test, n).c_str()); }
    if (!e.eq_self || e.ne_self) { return fmt("%s: does not compare equal to itself", name); }
    if (!e.eq_fresh || !e.fresh_eq) { return fmt("%s: does not compare equal to a bitset holding the same bits set one by one (value %s): padding bits influence operator==", name, show_bits(r.by_test, n).c_str()); }
    // (basic_bitset has neither the integer conversions nor to_string: e.has_conv / e.has_str are false for it)
    if (e.has_conv && e.ul != r.ul) { return fmt("%s: to_ulong() is %lu, std::bitset says %lu", name, e.ul, r.ul); }
    if (e.has_conv && e.ull != r.ull) { return fmt("%s: to_ullong() is %llu, std::bitset says %llu", name, e.ull, r.ull); }
    if (e.has_str) {
        if (e.str != r.str) { return fmt("%s: to_string() is \"%s\", std::bitset says \"%s\"", name, e.str.c_str(), r.str.c_str()); }
        if (e.str_custom != r.str_custom) { return fmt("%s: to_string('.','#') is \"%s\", std::bitset says \"%s\"", name, e.str_custom.c_str(), r.str_custom.c_str()); }
        if (e.str_roomy != r.str_roomy) { return fmt("%s: to_string<N+3>() is \"%s\", std::bitset says \"%s\"", name, e.str_roomy.c_str(), r.str_roomy.c_str()); }
    }
    return "";
}

// ------------------------------------------------------------------ ops
enum Code : std::uint32_t {
    SET_ALL, RESET_ALL, FLIP_ALL, SET_POS, RESET_POS, FLIP_POS, REF_ASSIGN_BOOL, REF_ASSIGN_REF, REF_FLIP, REF_NOT, AND_ASSIGN, OR_ASSIGN, XOR_ASSIGN, NOT, AND, OR, XOR, EQ, CTOR_ULL, COPY, OBSERVE, CTOR_STRING, CTOR_CSTR,
    SWAP, CTOR_STRING_CI, CTOR_STRING_W, CTOR_STRING_U16, CTOR_RAW, // appended later: the numbers of the older codes are used by the replay corpus
    NCODES
};
char const* const code_names[] = {"set()", "reset()", "flip()", "set(pos,v)", "reset(pos)", "flip(pos)", "b[i]=v", "b[i]=c[j]", "b[i].flip()", "~b[i]", "&=", "|=", "^=", "~", "&", "|", "^", "==", "ctor(ull)", "copy-assign", "observe",
    "ctor(string_view,pos,n,zero,one)", "ctor(char const*,n,zero,one)", "swap", "ctor(basic_string_view<char,case-insensitive traits>,pos,n,'N','y')", "ctor(wstring_view,pos,n,zero,one)", "ctor(u16string_view,pos,n,zero,one)",
    "ctor(exact-size buffer,n,extreme zero/one) + to_string(zero,one)"};

// digit pairs made of extreme code units: CharT(0) as zero or as one (so the text contains NULs and is not a C string),
// 0xFF / 0x80, and for wchar_t values above 0xFFFF
constexpr char raw_pairs_c[6][2]    = {{'\0', '\1'}, {'\1', '\0'}, {'\0', '\xff'}, {'\xff', '\0'}, {'\x80', '\x7f'}, {'0', '\0'}};
constexpr wchar_t raw_pairs_w[6][2] = {{L'\0', L'\1'}, {L'\1', L'\0'}, {L'\0', static_cast<wchar_t>(0x10FFFF)}, {static_cast<wchar_t>(0x1F600), L'\0'}, {static_cast<wchar_t>(0x10000), static_cast<wchar_t>(0xFFFF)}, {L'0', L'\0'}};

// character traits whose eq() is coarser than ==: the string constructors must compare with Traits::eq
constexpr auto ci_lower(char c) -> char { return (c >= 'A' && c <= 'Z') ? static_cast<char>(c - 'A' + 'a') : c; }
struct StdCi : std::char_traits<char> {
    static auto eq(char a, char b) noexcept -> bool { return ci_lower(a) == ci_lower(b); }
    static auto lt(char a, char b) noexcept -> bool { return ci_lower(a) < ci_lower(b); }
    static auto compare(char const* a, char const* b, std::size_t n) -> int
    {
        for (std::size_t i = 0; i < n; ++i) {
            if (lt(a[i], b[i])) { return -1; }
            if (lt(b[i], a[i])) { return 1; }
        }
        return 0;
    }
    static auto find(char const* s, std::size_t n, char const& c) -> char const*
    {
        for (std::size_t i = 0; i < n; ++i) {
            if (eq(s[i], c)) { return s + i; }
        }
        return nullptr;
    }
};
struct EtlCi : etl::char_traits<char> {
    static constexpr auto eq(char a, char b) noexcept -> bool { return ci_lower(a) == ci_lower(b); }
    static constexpr auto lt(char a, char b) noexcept -> bool { return ci_lower(a) < ci_lower(b); }
};

// value of a CTOR_ULL op: a%4 selects literal / all ones / shifted / hashed (so that small raw arguments give small and
// boundary values and large ones give dense 64-bit patterns, including bits at and above N)
auto ull_value(RawOp const& op) -> unsigned long long
{
    switch (op.a % 4U) {
    case 0: return op.b;
    case 1: return ~0ULL;
    case 2: return static_cast<unsigned long long>(op.b | 1U) << ((op.a / 4U) % 64U);
    default: return splitmix((static_cast<std::uint64_t>(op.a) << 32) | op.b);
    }
}
auto has_high_bits(unsigned long long val, std::size_t n) -> bool { return n < 64 && (val >> n) != 0; }

// text of a string-constructor op
struct Text {
    unsigned overload{0}; // 0: all five arguments, 1: (str), 2: (str,pos), 3: (str,pos,n) — used where the defaults apply
    std::string s;        // the whole text handed over
    std::size_t pos{0};   // starting offset
    std::size_t n{0};     // count argument
    bool n_is_npos{true};
    char zero{'0'}, one{'1'};
};
auto pick_len(std::uint32_t raw, std::size_t width) -> std::size_t
{
    switch (raw % 8U) {
    case 0: return 0;
    case 1: return 1;
    case 2: return width;
    case 3: return width - 1;
    default: return (raw / 8U) % (width + 1);
    }
}
auto make_text(RawOp const& op, bool cstr, std::size_t width) -> Text
{
    Text t;
    auto const len    = pick_len(op.b, width);
    t.overload        = (op.b % 8U < 4U) ? (op.b / 8U) % 4U : (op.b / (8U * static_cast<std::uint32_t>(width + 1))) % 4U;
    auto const modes  = op.c >> 1;
    auto const posm   = cstr ? 0U : modes % 4U; // the char const* overload has no pos
    auto const nmode  = (modes / 4U) % 3U;      // 0: n = npos, text ends with the digits; 1: n = len, two more characters follow; 2: n = len/2 (only the first half is used)
    auto const chars  = (modes / 12U) % 3U;     // 0: '0'/'1'  1: 'a'/'b'  2: swapped '1'/'0'
    bool const hashed = ((modes / 36U) % 2U) != 0 || len > 32;
    t.zero            = chars == 0 ? '0' : chars == 1 ? 'a' : '1';
    t.one             = chars == 0 ? '1' : chars == 1 ? 'b' : '0';
    t.pos             = posm;
    t.s.assign(posm, 'x'); // characters before pos are never looked at
    for (std::size_t k = 0; k < len; ++k) {
        bool const bit = hashed ? ((splitmix(op.a + 977U * (k / 64)) >> (k % 64)) & 1U) != 0 : ((op.a >> (k % 32)) & 1U) != 0;
        t.s += bit ? t.one : t.zero;
    }
    if (nmode == 0) {
        t.n_is_npos = true;
        t.n         = std::string::npos;
    } else if (nmode == 1) {
        t.n_is_npos = false;
        t.n         = len;
        if (!cstr) { t.s += "yz"; } // beyond n: never looked at
    } else {
        t.n_is_npos = false;
        t.n         = len / 2;
    }
    return t;
}

struct Flags {
    bool whole{false}, single{false}, both{false}, strings{false}, proxy{false}, binary{false}, high_ull{false};
};
auto record(Flags const& fl, bool full_api, bool has_padding, std::size_t n, int stats, OpsCase const& k) -> void
{
    if (stats > 1) {
        vf::label("hist.whole_set_op_and_single_bit_op", fl.both);
        if (full_api) { vf::label("hist.string_constructor (etl::bitset only)", fl.strings); }
        vf::label("hist.proxy_reference", fl.proxy);
        vf::label("hist.binary_operator", fl.binary);
        if (n < 64) { vf::label("hist.ull_with_bits_at_or_above_N", fl.high_ull); }
    }
    if (stats == 2 && fl.both && has_padding) { vf::nontrivial(vf::digest(k)); }
    // exhaustive value x op cases: non-trivial = an operation that has to keep the padding clean (whole-set op, binary
    // operator, constructor from a value with bits at or above N) on a type that has padding at this width
    if (stats == 1 && has_padding && (fl.whole || fl.binary || fl.high_ull)) { vf::nontrivial_count(); }
}

// ------------------------------------------------------------------ everything that depends on the width
template <std::size_t N>
struct Width {
    using Ref = std::bitset<N>;

    // uniform access to the two etl types
    struct AdBitset {
        using T                                = etl::bitset<N>;
        static constexpr bool full_api         = true;
        static constexpr std::size_t word_bits = sizeof(etl::size_t) * 8;
        static auto set(T& t, std::size_t i, bool v) -> T& { return t.set(i, v); }
        static auto reset(T& t, std::size_t i) -> T& { return t.reset(i); }
        static auto flip(T& t, std::size_t i) -> T& { return t.flip(i); }
        static auto test(T const& t, std::size_t i) -> bool { return t.test(i); }
    };
    template <typename W>
    struct AdBasic {
        using T                                = etl::basic_bitset<N, W>;
        static constexpr bool full_api         = false;
        static constexpr std::size_t word_bits = sizeof(W) * 8;
        static auto set(T& t, std::size_t i, bool v) -> T& { return t.unchecked_set(i, v); }
        static auto reset(T& t, std::size_t i) -> T& { return t.unchecked_reset(i); }
        static auto flip(T& t, std::size_t i) -> T& { return t.unchecked_flip(i); }
        static auto test(T const& t, std::size_t i) -> bool { return t.unchecked_test(i); }
    };

    static auto snap_ref(Ref const& m, bool full) -> Snap
    {
        Snap s;
        s.n    = N;
        s.full = full;
        for (std::size_t i = 0; i < N; ++i) { s.by_test.put(i, m.test(i)); }
        s.count = m.count();
        if (!full) { return s; }
        s.by_index = s.by_test;
        s.by_proxy = s.by_test;
        s.size     = m.size();
        s.all      = m.all();
        s.any      = m.any();
        s.none     = m.none();
        if constexpr (N <= 64) {
            s.has_conv = true;
            s.ul       = m.to_ulong();
            s.ull      = m.to_ullong();
        }
        s.has_str    = true;
        s.str        = m.to_string();
        s.str_custom = m.to_string('.', '#');
        s.str_roomy  = s.str;
        return s;
    }

    template <typename A>
    static auto snap_etl(typename A::T& x, Ref const& m, bool full) -> Snap
    {
        using T     = typename A::T;
        T const& cx = x;
        Snap s;
        s.n    = N;
        s.full = full;
        for (std::size_t i = 0; i < N; ++i) { s.by_test.put(i, A::test(cx, i)); }
        s.count = cx.count();
        if (!full) { return s; }
        for (std::size_t i = 0; i < N; ++i) {
            s.by_index.put(i, cx[i]);
            s.by_proxy.put(i, static_cast<bool>(x[i]));
        }
        s.size    = cx.size();
        s.all     = cx.all();
        s.any     = cx.any();
        s.none    = cx.none();
        s.eq_self = cx == cx;
        s.ne_self = cx != cx;
        {
            T fresh{};
            for (std::size_t i = 0; i < N; ++i) {
                if (m.test(i)) { A::set(fresh, i, true); }
            }
            s.eq_fresh = cx == fresh;
            s.fresh_eq = fresh == cx;
        }
        if constexpr (A::full_api) {
            if constexpr (N <= 64) {
                s.has_conv = true;
                s.ul       = cx.to_ulong();
                s.ull      = cx.to_ullong();
            }
            s.has_str = true;
            {
                auto t = cx.template to_string<N>();
                s.str.assign(t.data(), t.size());
            }
            {
                auto t = cx.template to_string<N>('.', '#');
                s.str_custom.assign(t.data(), t.size());
            }
            {
                auto t = cx.template to_string<N + 3>();
                s.str_roomy.assign(t.data(), t.size());
            }
        }
        return s;
    }

    template <typename A>
    struct Dense; // light runner, defined below

    template <typename A>
    struct Runner {
        using T = typename A::T;

        static auto check(char const* name, T& x, Ref const& m, bool full) -> std::string { return judge(name, snap_etl<A>(x, m, full), snap_ref(m, full)); }

        // Pointer / view constructor from a heap buffer of EXACTLY n characters (no terminator: a read past n is an ASan
        // error) whose digits are an extreme pair, then to_string with the same pair; both against std::bitset.
        template <typename CharT>
        static auto raw_ctor(RawOp const& op, T& x, Ref& mx, CharT zero, CharT one, bool via_view) -> std::string
        {
            auto const len = pick_len(op.b, N);
            std::unique_ptr<CharT[]> buf(new CharT[len]);
            for (std::size_t q = 0; q < len; ++q) {
                bool const bit = len > 32 ? ((splitmix(op.a + 977U * (q / 64)) >> (q % 64)) & 1U) != 0 : ((op.a >> q) & 1U) != 0;
                buf[q]         = bit ? one : zero;
            }
            if (via_view) {
                etl::basic_string_view<CharT> const sv(buf.get(), len);
                x  = T(sv, 0, len, zero, one);
                mx = Ref(std::basic_string<CharT>(buf.get(), len), 0, len, zero, one);
            } else {
                x  = T(buf.get(), len, zero, one);
                mx = Ref(buf.get(), len, zero, one);
            }
            T const& cx = x;
            for (std::size_t q = 0; q < N; ++q) {
                if (A::test(cx, q) != mx.test(q)) { return ""; } // the constructor itself is wrong: the comparison after the op reports the bits
            }
            auto const t = cx.template to_string<N, CharT>(zero, one);
            auto const w = mx.template to_string<CharT>(zero, one);
            if (t.size() != w.size()) { return fmt("to_string(zero=%ld, one=%ld) has size %zu, std::bitset's has %zu", static_cast<long>(zero), static_cast<long>(one), static_cast<std::size_t>(t.size()), w.size()); }
            for (std::size_t q = 0; q < w.size(); ++q) {
                if (t.data()[q] != w[q]) { return fmt("to_string(zero=%ld, one=%ld) differs from std::bitset's at character %zu (%ld, expected %ld)", static_cast<long>(zero), static_cast<long>(one), q, static_cast<long>(t.data()[q]), static_cast<long>(w[q])); }
            }
            return "";
        }

        // string constructor from a view of wide characters (default traits), same text as the char version
        template <typename CharT>
        static auto wide_ctor(RawOp const& op, T& x, Ref& mx, Flags& fl) -> void
        {
            auto const t = make_text(op, false, N);
            std::basic_string<CharT> ws;
            for (char c : t.s) { ws.push_back(static_cast<CharT>(c)); }
            etl::basic_string_view<CharT> const sv(ws.data(), ws.size());
            x          = T(sv, t.pos, t.n_is_npos ? etl::basic_string_view<CharT>::npos : t.n, static_cast<CharT>(t.zero), static_cast<CharT>(t.one));
            mx         = Ref(ws, t.pos, t.n, static_cast<CharT>(t.zero), static_cast<CharT>(t.one));
            fl.strings = true;
        }

        // check_from: ops before this index are applied without comparing (the exhaustive enumeration checks its
        // constructor ops in their own cases)
        static auto run(OpsCase const& k, int stats, std::size_t check_from) -> std::string
        {
            std::string err;
            Flags fl;
            std::size_t op_index = 0;
            struct Sandwich {
                std::uint64_t pre{0xA5A5A5A5A5A5A5A5ULL};
                T a{};
                std::uint64_t mid{0x5A5A5A5A5A5A5A5AULL};
                T b{};
                std::uint64_t post{0xC3C3C3C3C3C3C3C3ULL};
            } sw;
            Ref ma, mb;
            if (check_from == 0) {
                err = check("default-constructed A", sw.a, ma, true);
                if (err.empty()) { err = check("default-constructed B", sw.b, mb, true); }
                if (!err.empty()) { return err; }
            }
            for (auto const& op : k.ops) {
                bool const tb = (op.c & 1U) != 0;
                T& x          = tb ? sw.b : sw.a;
                T& y          = tb ? sw.a : sw.b;
                Ref& mx       = tb ? mb : ma;
                Ref& my       = tb ? ma : mb;
                auto code     = op.code % NCODES;
                if (!A::full_api && (code == CTOR_STRING || code == CTOR_CSTR || code == CTOR_STRING_CI || code == CTOR_STRING_W || code == CTOR_STRING_U16 || code == CTOR_RAW)) { code = CTOR_ULL; } // basic_bitset has no string constructors
                std::size_t const i = op.a % N;
                std::size_t const j = op.b % N;
                bool const v        = (op.b & 1U) != 0;
                bool const self     = ((op.c >> 1) & 1U) != 0; // binary ops: the right-hand side is the target itself
                if (stats > 1) { vf::count((std::string("op.") + code_names[code]).c_str()); }
                bool touches_y = false;
                switch (code) {
                case SET_ALL: {
                    T& r = x.set();
                    mx.set();
                    if (&r != &x) { err = "set() did not return *this"; }
                    fl.whole = true;
                    break;
                }
                case RESET_ALL: {
                    T& r = x.reset();
                    mx.reset();
                    if (&r != &x) { err = "reset() did not return *this"; }
                    fl.whole = true;
                    break;
                }
                case FLIP_ALL: {
                    T& r = x.flip();
                    mx.flip();
                    if (&r != &x) { err = "flip() did not return *this"; }
                    fl.whole = true;
                    break;
                }
                case SET_POS: {
                    T& r = A::set(x, i, v);
                    mx.set(i, v);
                    if (&r != &x) { err = "set(pos,v) did not return *this"; }
                    fl.single = true;
                    break;
                }
                case RESET_POS: {
                    T& r = A::reset(x, i);
                    mx.reset(i);
                    if (&r != &x) { err = "reset(pos) did not return *this"; }
                    fl.single = true;
                    break;
                }
                case FLIP_POS: {
                    T& r = A::flip(x, i);
                    mx.flip(i);
                    if (&r != &x) { err = "flip(pos) did not return *this"; }
                    fl.single = true;
                    break;
                }
                case REF_ASSIGN_BOOL: {
                    bool const r = (x[i] = v);
                    mx[i]        = v;
                    if (r != v) { err = fmt("(b[%zu] = %d) converts to %d", i, v ? 1 : 0, r ? 1 : 0); }
                    fl.single = fl.proxy = true;
                    break;
                }
                case REF_ASSIGN_REF: {
                    bool r = false;
                    if (self) { // (the flag means "from the other bitset" here)
                        r     = (x[i] = y[j]);
                        mx[i] = my[j];
                    } else {
                        r     = (x[i] = x[j]);
                        mx[i] = mx[j];
                    }
                    if (r != mx[i]) { err = fmt("(b[%zu] = c[%zu]) converts to %d, expected %d", i, j, r ? 1 : 0, mx[i] ? 1 : 0); }
                    fl.single = fl.proxy = true;
                    break;
                }
                case REF_FLIP: {
                    bool const r = x[i].flip();
                    mx[i].flip();
                    if (r != mx[i]) { err = fmt("b[%zu].flip() converts to %d, expected %d", i, r ? 1 : 0, mx[i] ? 1 : 0); }
                    fl.single = fl.proxy = true;
                    break;
                }
                case REF_NOT: {
                    bool const r = ~x[i];
                    bool const e = ~mx[i];
                    if (r != e) { err = fmt("~b[%zu] is %d, std::bitset says %d", i, r ? 1 : 0, e ? 1 : 0); }
                    fl.proxy = true;
                    break;
                }
                case AND_ASSIGN: {
                    T& r = self ? (x &= x) : (x &= y);
                    if (self) {
                        mx &= mx;
                    } else {
                        mx &= my;
                    }
                    if (&r != &x) { err = "operator&= did not return *this"; }
                    fl.binary = true;
                    break;
                }
                case OR_ASSIGN: {
                    T& r = self ? (x |= x) : (x |= y);
                    if (self) {
                        mx |= mx;
                    } else {
                        mx |= my;
                    }
                    if (&r != &x) { err = "operator|= did not return *this"; }
                    fl.binary = true;
                    break;
                }
                case XOR_ASSIGN: {
                    T& r = self ? (x ^= x) : (x ^= y);
                    if (self) {
                        mx ^= mx;
                    } else {
                        mx ^= my;
                    }
                    if (&r != &x) { err = "operator^= did not return *this"; }
                    fl.binary = true;
                    break;
                }
                case NOT: {
                    if constexpr (A::full_api) {
                        T const& cx = x;
                        y           = ~cx;
                    } else { // basic_bitset has no operator~: copy + flip()
                        T t = x;
                        t.flip();
                        y = t;
                    }
                    my        = ~mx;
                    touches_y = true;
                    fl.whole  = true;
                    break;
                }
                case AND:
                case OR:
                case XOR: {
                    T const& cx   = x;
                    T const& cy   = self ? x : y;
                    Ref const& ry = self ? mx : my;
                    T r           = code == AND ? (cx & cy) : code == OR ? (cx | cy) : (cx ^ cy);
                    Ref mr        = code == AND ? (mx & ry) : code == OR ? (mx | ry) : (mx ^ ry);
                    if (auto e = check("result of binary operator", r, mr, true); !e.empty()) { err = e; }
                    if (err.empty()) { err = check("left operand after binary operator", x, mx, false); }
                    x         = r;
                    mx        = mr;
                    fl.binary = true;
                    break;
                }
                case EQ: {
                    T const& cx  = x;
                    T const& cy  = y;
                    bool const e = mx == my;
                    if ((cx == cy) != e) { err = fmt("operator== is %s, std::bitset says %s (A %s, B %s)", (cx == cy) ? "true" : "false", e ? "true" : "false", ma.to_string().c_str(), mb.to_string().c_str()); }
                    if (err.empty() && (cx != cy) == e) { err = fmt("operator!= is %s, std::bitset says %s", (cx != cy) ? "true" : "false", !e ? "true" : "false"); }
                    fl.binary = true;
                    break;
                }
                case CTOR_ULL: {
                    auto const val = ull_value(op);
                    x              = T(val);
                    mx             = Ref(val);
                    fl.high_ull |= has_high_bits(val, N);
                    break;
                }
                case COPY: {
                    if (self) { // x = x
                        T& alias = x;
                        x        = alias;
                    } else {
                        y         = x;
                        my        = mx;
                        touches_y = true;
                    }
                    break;
                }
                case SWAP: {
                    using etl::swap;
                    if (self) {
                        T& alias = x;
                        swap(x, alias);
                    } else {
                        swap(x, y);
                        std::swap(mx, my);
                        touches_y = true;
                    }
                    break;
                }
                case CTOR_STRING_CI: {
                    if constexpr (A::full_api) {
                        // digits are 'y'/'Y' (one) and 'n'/'N' (zero); the constructor is told zero = 'N', one = 'y' and must
                        // compare with Traits::eq, exactly like std::bitset built from a basic_string with the same traits
                        auto const t = make_text(op, false, N);
                        std::string txt;
                        for (std::size_t q = 0; q < t.s.size(); ++q) {
                            bool const upper = ((splitmix(op.a * 31U + q) >> 7) & 1U) != 0;
                            char const c     = t.s[q];
                            if (q < t.pos) {
                                txt += 'x';
                            } else if (c == 'y' || c == 'z') { // the two characters behind n (make_text appends "yz"): must not look like a digit
                                txt += 'q';
                            } else {
                                txt += c == t.one ? (upper ? 'Y' : 'y') : (upper ? 'N' : 'n');
                            }
                        }
                        etl::basic_string_view<char, EtlCi> const sv(txt.data(), txt.size());
                        std::basic_string<char, StdCi> const ms(txt.data(), txt.size());
                        x          = T(sv, t.pos, t.n_is_npos ? etl::basic_string_view<char, EtlCi>::npos : t.n, 'N', 'y');
                        mx         = Ref(ms, t.pos, t.n, 'N', 'y');
                        fl.strings = true;
                    }
                    break;
                }
                case CTOR_STRING_W: {
                    if constexpr (A::full_api) { wide_ctor<wchar_t>(op, x, mx, fl); }
                    break;
                }
                case CTOR_STRING_U16: {
                    if constexpr (A::full_api) { wide_ctor<char16_t>(op, x, mx, fl); }
                    break;
                }
                case CTOR_RAW: {
                    if constexpr (A::full_api) {
                        auto const modes = op.c >> 1; // digit pair 0..5 x {char, wchar_t} x {pointer + n, view}
                        auto const pi    = modes % 6U;
                        bool const view  = ((modes / 12U) % 2U) != 0;
                        if ((modes / 6U) % 2U == 0) {
                            err = raw_ctor<char>(op, x, mx, raw_pairs_c[pi][0], raw_pairs_c[pi][1], view);
                        } else {
                            err = raw_ctor<wchar_t>(op, x, mx, raw_pairs_w[pi][0], raw_pairs_w[pi][1], view);
                        }
                        fl.strings = true;
                    }
                    break;
                }
                case OBSERVE: break;
                case CTOR_STRING: {
                    if constexpr (A::full_api) {
                        auto const t = make_text(op, false, N);
                        etl::string_view const sv(t.s.data(), t.s.size());
                        bool const custom = t.zero != '0' || t.one != '1';
                        if (t.n_is_npos && t.pos == 0 && !custom && t.overload == 1) {
                            x  = T(sv);
                            mx = Ref(t.s);
                        } else if (t.n_is_npos && !custom && t.overload == 2) {
                            x  = T(sv, t.pos);
                            mx = Ref(t.s, t.pos);
                        } else if (!custom && t.overload == 3) {
                            x  = T(sv, t.pos, t.n_is_npos ? etl::string_view::npos : t.n);
                            mx = Ref(t.s, t.pos, t.n);
                        } else {
                            x  = T(sv, t.pos, t.n_is_npos ? etl::string_view::npos : t.n, t.zero, t.one);
                            mx = Ref(t.s, t.pos, t.n, t.zero, t.one);
                        }
                        fl.strings = true;
                    }
                    break;
                }
                case CTOR_CSTR: {
                    if constexpr (A::full_api) {
                        auto const t      = make_text(op, true, N);
                        bool const custom = t.zero != '0' || t.one != '1';
                        if (t.n_is_npos && !custom && t.overload == 1) {
                            x  = T(t.s.c_str());
                            mx = Ref(t.s.c_str());
                        } else if (!custom && t.overload >= 2) {
                            x  = T(t.s.c_str(), t.n_is_npos ? etl::string_view::npos : t.n);
                            mx = Ref(t.s.c_str(), t.n);
                        } else {
                            x  = T(t.s.c_str(), t.n_is_npos ? etl::string_view::npos : t.n, t.zero, t.one);
                            mx = Ref(t.s.c_str(), t.n, t.zero, t.one);
                        }
                        fl.strings = true;
                    }
                    break;
                }
                default: break;
                }
                bool const checked = op_index++ >= check_from;
                if (err.empty() && checked) { err = check(tb ? "B" : "A", x, mx, true); }
                if (err.empty() && checked) { err = check(tb ? "A" : "B", y, my, touches_y); }
                if (err.empty() && (sw.pre != 0xA5A5A5A5A5A5A5A5ULL || sw.mid != 0x5A5A5A5A5A5A5A5AULL || sw.post != 0xC3C3C3C3C3C3C3C3ULL)) { err = "canary next to the bitset was overwritten"; }
                fl.both |= fl.whole && fl.single;
                if (!err.empty()) {
                    err = std::string("after ") + code_names[code] + ": " + err;
                    break;
                }
            }
            record(fl, A::full_api, (N % A::word_bits) != 0, N, stats, k);
            return err;
        }
    };
};


// ------------------------------------------------------------------ light runner for many more widths (up to 1000 bits)
// Dense contents (bit density 0, 1/8, 1/2, 7/8, 1) and whole-set operations followed by count / all / any / none / == and
// every bit: these are plain word loops, so the per-width cost is kept small (no strings, no proxies).
enum DCode : std::uint32_t { D_FILL, D_SET_ALL, D_RESET_ALL, D_FLIP_ALL, D_NOT, D_AND_ASSIGN, D_OR_ASSIGN, D_XOR_ASSIGN, D_COPY, D_EQ, D_FLIP_POS, D_SET_POS, D_AND, D_OR, D_XOR, D_SWAP, D_NCODES };
char const* const dcode_names[] = {"fill(density)", "set()", "reset()", "flip()", "~", "&=", "|=", "^=", "copy-assign", "==", "flip(pos)", "set(pos,v)", "&", "|", "^", "swap"};
auto dense_bit(std::uint32_t density, std::uint32_t seed, std::size_t i) -> bool
{
    auto const r = splitmix((static_cast<std::uint64_t>(seed) << 20) + i) & 7U;
    switch (density % 5U) {
    case 0: return false;
    case 1: return r == 0;
    case 2: return r < 4;
    case 3: return r != 0;
    default: return true;
    }
}

template <std::size_t N>
template <typename A>
struct Width<N>::Dense {
    using T = typename A::T;
    static auto snap(T& x, Ref const& m) -> Snap
    {
        T const& cx = x;
        Snap s;
        s.n    = N;
        s.full = true;
        for (std::size_t i = 0; i < N; ++i) { s.by_test.put(i, A::test(cx, i)); }
        s.by_index = s.by_test;
        s.by_proxy = s.by_test;
        s.count    = cx.count();
        s.size     = cx.size();
        s.all      = cx.all();
        s.any      = cx.any();
        s.none     = cx.none();
        s.eq_self  = cx == cx;
        s.ne_self  = cx != cx;
        T fresh{};
        for (std::size_t i = 0; i < N; ++i) {
            if (m.test(i)) { A::set(fresh, i, true); }
        }
        s.eq_fresh = cx == fresh;
        s.fresh_eq = fresh == cx;
        return s;
    }
    static auto snap_ref(Ref const& m) -> Snap
    {
        Snap s;
        s.n    = N;
        s.full = true;
        for (std::size_t i = 0; i < N; ++i) { s.by_test.put(i, m.test(i)); }
        s.count = m.count();
        s.size  = m.size();
        s.all   = m.all();
        s.any   = m.any();
        s.none  = m.none();
        return s;
    }
    static auto check(char const* name, T& x, Ref const& m) -> std::string { return judge(name, snap(x, m), snap_ref(m)); }

    static auto run(OpsCase const& k, int stats, std::size_t check_from) -> std::string
    {
        std::string err;
        T a{}, b{};
        Ref ma, mb;
        bool whole = false, many = false, selfop = false;
        std::size_t op_index = 0;
        if (check_from == 0) {
            err = check("default-constructed A", a, ma);
            if (!err.empty()) { return err; }
        }
        for (auto const& op : k.ops) {
            bool const tb   = (op.c & 1U) != 0;
            bool const self = ((op.c >> 1) & 1U) != 0;
            T& x            = tb ? b : a;
            T& y            = tb ? a : b;
            Ref& mx         = tb ? mb : ma;
            Ref& my         = tb ? ma : mb;
            auto const code = op.code % D_NCODES;
            std::size_t const i = op.a % N;
            if (stats > 1) { vf::count((std::string("dense.op.") + dcode_names[code]).c_str()); }
            selfop |= self && (code == D_AND_ASSIGN || code == D_OR_ASSIGN || code == D_XOR_ASSIGN || code == D_COPY || code == D_SWAP);
            switch (code) {
            case D_FILL:
                for (std::size_t q = 0; q < N; ++q) {
                    bool const v = dense_bit(op.a, op.b, q);
                    A::set(x, q, v);
                    mx.set(q, v);
                }
                break;
            case D_SET_ALL: x.set(); mx.set(); whole = true; break;
            case D_RESET_ALL: x.reset(); mx.reset(); whole = true; break;
            case D_FLIP_ALL: x.flip(); mx.flip(); whole = true; break;
            case D_NOT: {
                if constexpr (A::full_api) {
                    T const& cx = x;
                    y           = ~cx;
                } else {
                    T t = x;
                    t.flip();
                    y = t;
                }
                my    = ~mx;
                whole = true;
                break;
            }
            case D_AND_ASSIGN:
                if (self) { x &= x; mx &= mx; } else { x &= y; mx &= my; }
                whole = true;
                break;
            case D_OR_ASSIGN:
                if (self) { x |= x; mx |= mx; } else { x |= y; mx |= my; }
                whole = true;
                break;
            case D_XOR_ASSIGN:
                if (self) { x ^= x; mx ^= mx; } else { x ^= y; mx ^= my; }
                whole = true;
                break;
            case D_COPY:
                if (self) {
                    T& alias = x;
                    x        = alias;
                } else {
                    y  = x;
                    my = mx;
                }
                break;
            case D_EQ: {
                T const& cx = x;
                T const& cy = y;
                if ((cx == cy) != (mx == my) || (cx != cy) == (mx == my)) { err = fmt("operator==/!= differ from std::bitset (== is %s, std says %s)", (cx == cy) ? "true" : "false", (mx == my) ? "true" : "false"); }
                break;
            }
            case D_FLIP_POS: A::flip(x, i); mx.flip(i); break;
            case D_SET_POS: A::set(x, i, (op.b & 1U) != 0); mx.set(i, (op.b & 1U) != 0); break;
            case D_AND:
            case D_OR:
            case D_XOR: {
                T const& cx   = x;
                T const& cy   = self ? x : y;
                Ref const& ry = self ? mx : my;
                T r           = code == D_AND ? (cx & cy) : code == D_OR ? (cx | cy) : (cx ^ cy);
                Ref mr        = code == D_AND ? (mx & ry) : code == D_OR ? (mx | ry) : (mx ^ ry);
                err           = check("result of binary operator", r, mr);
                x             = r;
                mx            = mr;
                whole         = true;
                break;
            }
            case D_SWAP: {
                using etl::swap;
                if (self) {
                    T& alias = x;
                    swap(x, alias);
                } else {
                    swap(x, y);
                    std::swap(mx, my);
                }
                break;
            }
            default: break;
            }
            many |= mx.count() >= 256 || my.count() >= 256;
            if (err.empty() && op_index++ >= check_from) {
                err = check(tb ? "B" : "A", x, mx);
                if (err.empty()) { err = check(tb ? "A" : "B", y, my); }
            }
            if (!err.empty()) {
                err = std::string("after ") + dcode_names[code] + ": " + err;
                break;
            }
        }
        bool const has_padding = (N % A::word_bits) != 0;
        if (stats > 1) {
            vf::label("dense.hist.whole_set_operation", whole);
            vf::label("dense.hist.self_operation (x op= x, x = x, swap(x,x))", selfop);
            if (N >= 256) { vf::label("dense.hist.at_least_256_bits_set (N>=256)", many); }
        }
        if (stats == 2 && whole && (has_padding || many)) { vf::nontrivial(vf::digest(k)); }
        if (stats == 1 && whole && (has_padding || many)) { vf::nontrivial_count(); }
        return err;
    }
};

struct Config {
    std::string name;
    std::string (*run)(OpsCase const&, int, std::size_t);
    bool full_api;
    std::size_t width;
    bool dense{false};
};

template <std::size_t N>
auto add_width(std::vector<Config>& out) -> void
{
    using W      = Width<N>;
    auto const n = std::to_string(N);
    out.push_back(Config{"bitset<" + n + ">", &W::template Runner<typename W::AdBitset>::run, true, N});
    out.push_back(Config{"basic_bitset<" + n + ",uint8_t>", &W::template Runner<typename W::template AdBasic<std::uint8_t>>::run, false, N});
    out.push_back(Config{"basic_bitset<" + n + ",uint16_t>", &W::template Runner<typename W::template AdBasic<std::uint16_t>>::run, false, N});
    out.push_back(Config{"basic_bitset<" + n + ",uint32_t>", &W::template Runner<typename W::template AdBasic<std::uint32_t>>::run, false, N});
    out.push_back(Config{"basic_bitset<" + n + ",uint64_t>", &W::template Runner<typename W::template AdBasic<std::uint64_t>>::run, false, N});
}
template <std::size_t N>
auto add_dense(std::vector<Config>& out) -> void
{
    using W      = Width<N>;
    auto const n = std::to_string(N);
    out.push_back(Config{"bitset<" + n + "> (dense)", &W::template Dense<typename W::AdBitset>::run, true, N, true});
    out.push_back(Config{"basic_bitset<" + n + ",uint8_t> (dense)", &W::template Dense<typename W::template AdBasic<std::uint8_t>>::run, false, N, true});
    out.push_back(Config{"basic_bitset<" + n + ",uint16_t> (dense)", &W::template Dense<typename W::template AdBasic<std::uint16_t>>::run, false, N, true});
    out.push_back(Config{"basic_bitset<" + n + ",uint32_t> (dense)", &W::template Dense<typename W::template AdBasic<std::uint32_t>>::run, false, N, true});
    out.push_back(Config{"basic_bitset<" + n + ",uint64_t> (dense)", &W::template Dense<typename W::template AdBasic<std::uint64_t>>::run, false, N, true});
}
template <std::size_t... Ns>
auto make_configs(std::vector<Config>& out) -> void
{
    (add_width<Ns>(out), ...);
}
template <std::size_t... Ns>
auto make_dense(std::vector<Config>& out) -> void
{
    (add_dense<Ns>(out), ...);
}
auto configs() -> std::vector<Config> const&
{
    // the full-runner widths first (the replay corpus refers to them by index), then the dense-only widths
    static auto const c = [] {
        std::vector<Config> out;
        make_configs<C17_WIDTHS>(out);
        make_dense<C17_DENSE>(out);
        return out;
    }();
    return c;
}

auto run_case(OpsCase const& k, int stats, std::size_t check_from = 0) -> std::string
{
    auto const& cfg = configs()[k.cfg % configs().size()];
    auto d          = cfg.run(k, stats, check_from);
    return d.empty() ? d : cfg.name + ": " + d;
}

auto describe(OpsCase const& k) -> std::string
{
    auto const& cfg = configs()[k.cfg % configs().size()];
    std::string s   = cfg.name + " :";
    for (auto const& o : k.ops) { s += " " + std::string(cfg.dense ? dcode_names[o.code % D_NCODES] : code_names[o.code % NCODES]) + "[" + std::to_string(o.a) + "," + std::to_string(o.b) + "," + std::to_string(o.c) + "]"; }
    return s;
}

// ------------------------------------------------------------------ E2: N <= 9, every value x every single op
void enum_values_x_ops(vf::Ctx& c, std::uint32_t ci, std::uint64_t& n)
{
    auto const& cfg        = configs()[ci];
    auto const NS          = static_cast<std::uint32_t>(cfg.width);
    std::uint32_t const nv = 1U << NS;
    bool ok                = true;
    auto one               = [&](std::vector<RawOp> const& prefix, RawOp const& op) -> bool {
        if (!ok) { return false; }
        if (!c.mine(n++)) { return true; }
        OpsCase k;
        k.cfg = ci;
        k.ops = prefix;
        k.ops.push_back(op);
        vf::Flight<OpsCase> fl("value_x_op", k);
        vf::eval("value_x_op");
        auto d = run_case(k, 1, prefix.size());
        if (!d.empty()) {
            ok = false;
            vf::mismatch("value_x_op", k, d);
        }
        return ok;
    };
    // constructors first: every value (also with every pattern of bits at and above N), every string
    for (std::uint32_t v = 0; v < nv && ok; ++v) {
        one({}, RawOp{CTOR_ULL, 0, v, 0});
        for (std::uint32_t hi = 1; hi < 8; ++hi) { one({}, RawOp{CTOR_ULL, 0, v | (hi << NS), 0}); } // garbage above bit N-1 must be ignored
        one({}, RawOp{CTOR_ULL, 2, v, 0});
    }
    one({}, RawOp{CTOR_ULL, 1, 0, 0});
    if (cfg.full_api) {
        // b selects the length (pick_len default branch: (b/8)%(N+1)) and the overload arity, a the digits (literal), c>>1 the modes
        for (std::uint32_t len = 0; len <= NS && ok; ++len) {
            for (std::uint32_t ovl = 0; ovl < 4; ++ovl) {
                std::uint32_t const b = 4U + 8U * len + 8U * (NS + 1U) * ovl;
                for (std::uint32_t bits = 0; bits < (1U << len) && ok; ++bits) {
                    for (std::uint32_t modes = 0; modes < 36; ++modes) { // pos 0..3 x n-mode 0..2 x characters 0..2
                        if (ovl != 0 && modes >= 12) { continue; }       // the short overloads only exist for the default characters
                        one({}, RawOp{CTOR_STRING, bits, b, modes << 1});
                        if (modes % 4U == 0) { one({}, RawOp{CTOR_CSTR, bits, b, modes << 1}); }
                        if (ovl == 0) {
                            if (modes < 12) { one({}, RawOp{CTOR_STRING_CI, bits, b, modes << 1}); } // user-defined traits; zero/one are fixed to 'N'/'y'
                            one({}, RawOp{CTOR_STRING_W, bits, b, modes << 1});
                            one({}, RawOp{CTOR_STRING_U16, bits, b, modes << 1});
                            if (modes < 24) { one({}, RawOp{CTOR_RAW, bits, b, modes << 1}); } // 6 extreme digit pairs x {char, wchar_t} x {pointer + n, view}
                        }
                    }
                }
            }
        }
    }
    // unary ops and proxy ops on every value
    for (std::uint32_t v = 0; v < nv && ok; ++v) {
        std::vector<RawOp> const prefix{RawOp{CTOR_ULL, 0, v, 0}};
        for (std::uint32_t code : {SET_ALL, RESET_ALL, FLIP_ALL, NOT, OBSERVE, COPY, SWAP}) { one(prefix, RawOp{code, 0, 0, 0}); }
        one(prefix, RawOp{COPY, 0, 0, 2}); // x = x
        one(prefix, RawOp{SWAP, 0, 0, 2}); // swap(x, x)
        for (std::uint32_t i = 0; i < NS; ++i) {
            for (std::uint32_t code : {SET_POS, REF_ASSIGN_BOOL}) {
                one(prefix, RawOp{code, i, 0, 0});
                one(prefix, RawOp{code, i, 1, 0});
            }
            for (std::uint32_t code : {RESET_POS, FLIP_POS, REF_FLIP, REF_NOT}) { one(prefix, RawOp{code, i, 0, 0}); }
            for (std::uint32_t j = 0; j < NS; ++j) { one(prefix, RawOp{REF_ASSIGN_REF, i, j, 0}); }
        }
    }
    // binary ops on every pair of values (the right-hand side B is built first)
    for (std::uint32_t v = 0; v < nv && ok; ++v) {
        for (std::uint32_t w = 0; w < nv && ok; ++w) {
            std::vector<RawOp> const prefix{RawOp{CTOR_ULL, 0, v, 0}, RawOp{CTOR_ULL, 0, w, 1}};
            for (std::uint32_t code : {AND_ASSIGN, OR_ASSIGN, XOR_ASSIGN, AND, OR, XOR, EQ}) { one(prefix, RawOp{code, 0, 0, 0}); }
        }
        // self-aliased forms and cross-object proxy assignment (depends on one bit of B only)
        std::vector<RawOp> const p1{RawOp{CTOR_ULL, 0, v, 0}};
        for (std::uint32_t code : {AND_ASSIGN, OR_ASSIGN, XOR_ASSIGN, AND, OR, XOR}) { one(p1, RawOp{code, 0, 0, 2}); }
        for (std::uint32_t w : {0U, nv - 1}) {
            std::vector<RawOp> const prefix{RawOp{CTOR_ULL, 0, v, 0}, RawOp{CTOR_ULL, 0, w, 1}};
            for (std::uint32_t i = 0; i < NS; ++i) { one(prefix, RawOp{REF_ASSIGN_REF, i, (i + 1) % NS, 2}); }
        }
    }
}

// a few fixed boundary histories for every type (cheap; run by shard 0)
void fixed_cases(vf::Ctx& c)
{
    if (c.shard != 0) { return; }
    for (std::uint32_t ci = 0; ci < configs().size(); ++ci) {
        if (configs()[ci].dense) { continue; }
        auto const top = static_cast<std::uint32_t>(configs()[ci].width - 1);
        std::vector<std::vector<RawOp>> hs{
            {{SET_ALL, 0, 0, 0}, {RESET_POS, top, 0, 0}, {FLIP_ALL, 0, 0, 0}, {FLIP_ALL, 0, 0, 0}, {SET_POS, top, 1, 0}},
            {{FLIP_ALL, 0, 0, 0}, {NOT, 0, 0, 0}, {EQ, 0, 0, 0}, {XOR_ASSIGN, 0, 0, 0}, {FLIP_ALL, 0, 0, 1}, {OR_ASSIGN, 0, 0, 0}},
            {{CTOR_ULL, 1, 0, 0}, {CTOR_ULL, 3, 12345, 1}, {AND, 0, 0, 0}, {NOT, 0, 0, 0}, {XOR, 0, 0, 1}},
            {{CTOR_STRING, 0xFFFFFFFFU, 2, 0}, {CTOR_CSTR, 0x55555555U, 2, 1}, {EQ, 0, 0, 0}, {CTOR_STRING, 1, 1, 0}, {CTOR_STRING, 1, 3, 2 << 1}},
            {{CTOR_RAW, 0x9A, 2, 0}, {CTOR_RAW, 0xC3C3C3C3U, 2, (1 + 6) << 1}, {CTOR_RAW, 0x5A5A5A5AU, 3, (3 + 12) << 1}, {CTOR_RAW, 7, 2, (2 + 18) << 1}, {CTOR_RAW, 1, 0, 5 << 1}, {CTOR_RAW, 0xFFFFFFFFU, 2, (5 + 6) << 1}},
            {{CTOR_STRING_CI, 0xA5A5A5A5U, 2, 0}, {CTOR_STRING_W, 0x0F0F0F0FU, 2, 1}, {EQ, 0, 0, 0}, {CTOR_STRING_U16, 0x33333333U, 3, (4 + 12) << 1}, {CTOR_STRING_CI, 3, 2, 5 << 1}},
            {{CTOR_ULL, 1, 0, 0}, {AND_ASSIGN, 0, 0, 2}, {OR_ASSIGN, 0, 0, 2}, {COPY, 0, 0, 2}, {SWAP, 0, 0, 2}, {XOR_ASSIGN, 0, 0, 2}, {SWAP, 0, 0, 0}},
        };
        for (auto const& h : hs) {
            OpsCase k;
            k.cfg = ci;
            k.ops = h;
            vf::Flight<OpsCase> fl("fixed", k);
            vf::eval("fixed");
            auto d = run_case(k, 2);
            if (!d.empty()) {
                vf::mismatch("fixed", k, d);
                return;
            }
        }
    }
}

// dense widths: every pair of densities for A and B, then every whole-set / compound / self operation (sharded)
void dense_cases(vf::Ctx& c)
{
    std::uint64_t n = 0;
    for (std::uint32_t ci = 0; ci < configs().size(); ++ci) {
        if (!configs()[ci].dense) { continue; }
        for (std::uint32_t da = 0; da < 5; ++da) {
            for (std::uint32_t db = 0; db < 5; ++db) {
                std::vector<RawOp> const prefix{RawOp{D_FILL, da, 11U + da, 0}, RawOp{D_FILL, db, 29U + db, 1}};
                std::vector<RawOp> ops;
                for (std::uint32_t code : {D_FILL, D_SET_ALL, D_RESET_ALL, D_FLIP_ALL, D_NOT, D_AND_ASSIGN, D_OR_ASSIGN, D_XOR_ASSIGN, D_COPY, D_EQ, D_AND, D_OR, D_XOR, D_SWAP}) { ops.push_back(RawOp{code, da, 7, 0}); }
                for (std::uint32_t code : {D_AND_ASSIGN, D_OR_ASSIGN, D_XOR_ASSIGN, D_COPY, D_AND, D_OR, D_XOR, D_SWAP}) { ops.push_back(RawOp{code, 0, 0, 2}); } // self forms
                ops.push_back(RawOp{D_FLIP_POS, static_cast<std::uint32_t>(configs()[ci].width - 1), 0, 0});
                ops.push_back(RawOp{D_SET_POS, 0, 1, 0});
                bool first = true;
                for (auto const& op : ops) {
                    bool const check_prefix = first;
                    first                   = false;
                    if (!c.mine(n++)) { continue; }
                    OpsCase k;
                    k.cfg = ci;
                    k.ops = prefix;
                    k.ops.push_back(op);
                    vf::Flight<OpsCase> fl("dense_x_op", k);
                    vf::eval("dense_x_op");
                    auto d = run_case(k, 1, check_prefix ? 0 : prefix.size());
                    if (!d.empty()) {
                        vf::mismatch("dense_x_op", k, d);
                        return;
                    }
                }
            }
        }
    }
}

} // namespace

// Keep the resident set small: ASan's default 256 MB quarantine of freed blocks is far more than these harnesses need
// (every case frees a few dozen small blocks); ASAN_OPTIONS set by bin/check still take precedence for the keys it sets.
extern "C" char const* __asan_default_options() { return "quarantine_size_mb=16:thread_local_quarantine_size_kb=256"; }

void vf_run(vf::Ctx& c)
{
    std::uint64_t n = 0;
    for (std::uint32_t ci = 0; ci < configs().size(); ++ci) {
        if (configs()[ci].width <= 9 && !configs()[ci].dense) { enum_values_x_ops(c, ci, n); }
    }
    fixed_cases(c);
    dense_cases(c);
    // E1: random histories of <= 40 ops over two bitsets, every type of every width of this unit (each shard has its own seed)
    for (std::uint32_t ci = 0; ci < configs().size(); ++ci) {
        auto const& cfg   = configs()[ci];
        int const per_cfg = cfg.dense ? (c.thorough() ? 4000 : 150) : c.thorough() ? (cfg.width <= 33 ? 60000 : 40000) : (cfg.width <= 33 ? 2000 : 1000);
        auto gen          = rc::gen::map(cfg.dense ? vf::gen_history(1, D_NCODES, 16) : vf::gen_history(1, NCODES, 40), [ci](OpsCase k) {
            k.cfg = ci;
            return k;
        });
        std::string sub = "histories/" + cfg.name;
        vf::rc_check<OpsCase>(sub.c_str(), gen, per_cfg, 100, [&](OpsCase const& k) {
            vf::eval("histories");
            auto d = run_case(k, 2);
            if (k.ops.size() >= 6) { vf::sample("histories", [&] { return describe(k); }); }
            return d;
        });
    }
}

std::string vf_replay(std::string const&, std::string const& cs)
{
    auto k = vf::parse_ops(cs);
    vf::Flight<OpsCase> fl("replay", k);
    std::fprintf(stderr, "replaying: %s\n", describe(k).c_str());
    return run_case(k, 0);
}
