// C16 (part 5) — the long double (x87 80-bit) overloads of the exact cmath functions against glibc's *l functions,
// RUN-TIME path only.
//
//   floor ceil trunc round rint lrint llrint fabs abs (both spellings: f(long double) and fl(long double)), signbit isnan
//   isinf isfinite, and the binary copysign fmin fmax fdim must return bit-identical results (80 significant bits; all
//   NaNs equal) on
//     * every binary exponent (0 .. 0x7ffe) of both signs x boundary significands (smallest / largest fractions, single
//       bits, low / high masks),
//     * for every exponent from 2^-2 to 2^64 additionally: fractions that only a 64-bit significand can hold (in particular
//       between 2^52 and 2^63), every kind of n+.5 tie with its neighbours, integers and their neighbours,
//     * +-0, +-inf, quiet NaNs, subnormals,
//     * seeded random 80-bit values of four shapes, random pairs for the binary functions.
//   lrint/llrint only where the rounded value fits.  Only valid x87 encodings are produced (integer bit set for
//   normal numbers, clear for subnormals; no pseudo-denormals, unnormals or pseudo-NaNs).
//   Masked as for float/double: sign of the zero returned by fmax/fmin(+0,-0); signalling NaNs are never generated.
//
//   Not part of this check: fmod/remainder(long double) (still gcem's x - trunc(x/y)*y, not named for long double),
//   nextafter has no long double overload, the approximating long double overloads (all gcem, libm's long double
//   accuracy is not what they aim at).
//   Built with ASan+UBSan+float-cast-overflow: gcem's rounding functions cast to long long.
#include <etl/cmath.hpp>

#include <math.h>

#include "verif.hpp"

#include "C16_common.hpp"

namespace {
using namespace c16;
using ld = long double;
static_assert(sizeof(ld) == 16 && std::numeric_limits<ld>::digits == 64, "x87 80-bit long double expected");

struct Raw {
    u64 mant;
    std::uint16_t se; // sign (bit 15) and biased exponent
};
auto raw(ld v) -> Raw
{
    Raw r{};
    std::memcpy(&r.mant, &v, 8);
    std::memcpy(&r.se, reinterpret_cast<char const*>(&v) + 8, 2);
    return r;
}
auto mk(std::uint16_t se, u64 mant) -> ld
{
    unsigned char b[16] = {0};
    std::memcpy(b, &mant, 8);
    std::memcpy(b + 8, &se, 2);
    ld v;
    std::memcpy(&v, b, 16);
    return v;
}
// canonical encoding for (sign, biased exponent, 63 fraction bits)
auto enc(unsigned sign, unsigned e, u64 frac63) -> ld
{
    frac63 &= 0x7FFFFFFFFFFFFFFFULL;
    if (e == 0) { return mk(static_cast<std::uint16_t>(sign << 15), frac63); }                        // zero / subnormal
    if (e >= 0x7FFF) { return mk(static_cast<std::uint16_t>((sign << 15) | 0x7FFF), 0x8000000000000000ULL); } // inf
    return mk(static_cast<std::uint16_t>((sign << 15) | e), 0x8000000000000000ULL | frac63);
}
auto qnan(unsigned sign) -> ld { return mk(static_cast<std::uint16_t>((sign << 15) | 0x7FFF), 0xC000000000000000ULL); }

auto nan_l(ld v) -> bool
{
    auto const r = raw(v);
    return (r.se & 0x7FFF) == 0x7FFF && (r.mant << 1) != 0;
}
auto inf_l(ld v) -> bool
{
    auto const r = raw(v);
    return (r.se & 0x7FFF) == 0x7FFF && (r.mant << 1) == 0;
}
auto zero_l(ld v) -> bool
{
    auto const r = raw(v);
    return (r.se & 0x7FFF) == 0 && r.mant == 0;
}
auto sign_l(ld v) -> bool { return (raw(v).se >> 15) != 0; }
auto same_l(ld a, ld b) -> bool
{
    if (nan_l(a) && nan_l(b)) { return true; }
    auto const x = raw(a), y = raw(b);
    return x.se == y.se && x.mant == y.mant;
}
auto show_l(ld v) -> std::string
{
    if (nan_l(v)) { return "nan"; }
    auto const r = raw(v);
    char buf[128];
    std::snprintf(buf, sizeof buf, "0x%04x:%016llx(%La)", static_cast<unsigned>(r.se), static_cast<unsigned long long>(r.mant), v);
    return buf;
}
auto show_arg_l(ld v) -> std::string
{
    auto const r = raw(v);
    char buf[128];
    if (nan_l(v)) {
        std::snprintf(buf, sizeof buf, "0x%04x:%016llx(nan)", static_cast<unsigned>(r.se), static_cast<unsigned long long>(r.mant));
    } else {
        std::snprintf(buf, sizeof buf, "0x%04x:%016llx(%La)", static_cast<unsigned>(r.se), static_cast<unsigned long long>(r.mant), v);
    }
    return buf;
}
auto cmpl(ld e, ld r, Out* o) -> int
{
    if (same_l(e, r)) { return 1; }
    if (o != nullptr) {
        o->etl = show_l(e);
        o->ref = show_l(r);
    }
    return 2;
}

// ------------------------------------------------------------------ oracle
ld (*volatile o_floorl)(ld)       = ::floorl;
ld (*volatile o_ceill)(ld)        = ::ceill;
ld (*volatile o_truncl)(ld)       = ::truncl;
ld (*volatile o_roundl)(ld)       = ::roundl;
ld (*volatile o_rintl)(ld)        = ::rintl;
ld (*volatile o_fabsl)(ld)        = ::fabsl;
long (*volatile o_lrintl)(ld)     = ::lrintl;
long long (*volatile o_llrintl)(ld) = ::llrintl;
int (*volatile o_isnanl)(ld)      = ::__isnanl;
int (*volatile o_isinfl)(ld)      = ::__isinfl;
int (*volatile o_finitel)(ld)     = ::__finitel;
int (*volatile o_signbitl)(ld)    = ::__signbitl;
ld (*volatile o_copysignl)(ld, ld) = ::copysignl;
ld (*volatile o_fminl)(ld, ld)    = ::fminl;
ld (*volatile o_fmaxl)(ld, ld)    = ::fmaxl;
ld (*volatile o_fdiml)(ld, ld)    = ::fdiml;

auto fits_long(ld x) -> bool
{
    if (nan_l(x) || inf_l(x)) { return false; }
    ld const r = o_rintl(x); // the value lrint has to return
    return r >= -0x1p63L && r < 0x1p63L;
}

struct U1 {
    char const* name;
    int (*check)(ld, Out*);
};
#define C16_L(name, E, R) {name, [](ld x, Out* o) -> int { return cmpl(E, R, o); }}
#define C16_LI(name, PRE, E, R) {name, [](ld x, Out* o) -> int { if (!(PRE)) { return 0; } return cmpi(static_cast<long long>(E), static_cast<long long>(R), o); }}
U1 const k_unary[] = {
    C16_L("floor", etl::floor(x), o_floorl(x)),
    C16_L("floorl", etl::floorl(x), o_floorl(x)),
    C16_L("ceil", etl::ceil(x), o_ceill(x)),
    C16_L("ceill", etl::ceill(x), o_ceill(x)),
    C16_L("trunc", etl::trunc(x), o_truncl(x)),
    C16_L("truncl", etl::truncl(x), o_truncl(x)),
    C16_L("round", etl::round(x), o_roundl(x)),
    C16_L("roundl", etl::roundl(x), o_roundl(x)),
    C16_L("rint", etl::rint(x), o_rintl(x)),
    C16_L("rintl", etl::rintl(x), o_rintl(x)),
    C16_L("fabs", etl::fabs(x), o_fabsl(x)),
    C16_L("fabsl", etl::fabsl(x), o_fabsl(x)),
    C16_L("abs", etl::abs(x), o_fabsl(x)),
    C16_LI("lrint", fits_long(x), etl::lrint(x), o_lrintl(x)),
    C16_LI("lrintl", fits_long(x), etl::lrintl(x), o_lrintl(x)),
    C16_LI("llrint", fits_long(x), etl::llrint(x), o_llrintl(x)),
    C16_LI("llrintl", fits_long(x), etl::llrintl(x), o_llrintl(x)),
    C16_LI("signbit", true, etl::signbit(x), o_signbitl(x) != 0),
    C16_LI("isnan", true, etl::isnan(x), o_isnanl(x) != 0),
    C16_LI("isinf", true, etl::isinf(x), o_isinfl(x) != 0),
    C16_LI("isfinite", true, etl::isfinite(x), o_finitel(x) != 0),
};

auto cmp_minmax(ld x, ld y, ld e, ld r, Out* o) -> int
{
    if (zero_l(x) && zero_l(y) && sign_l(x) != sign_l(y) && zero_l(e) && zero_l(r)) { return 1; }
    return cmpl(e, r, o);
}
struct U2 {
    char const* name;
    int (*check)(ld, ld, Out*);
};
U2 const k_binary[] = {
    {"copysign", [](ld x, ld y, Out* o) -> int { return cmpl(etl::copysign(x, y), o_copysignl(x, y), o); }},
    {"copysignl", [](ld x, ld y, Out* o) -> int { return cmpl(etl::copysignl(x, y), o_copysignl(x, y), o); }},
    {"fmin", [](ld x, ld y, Out* o) -> int { return cmp_minmax(x, y, etl::fmin(x, y), o_fminl(x, y), o); }},
    {"fminl", [](ld x, ld y, Out* o) -> int { return cmp_minmax(x, y, etl::fminl(x, y), o_fminl(x, y), o); }},
    {"fmax", [](ld x, ld y, Out* o) -> int { return cmp_minmax(x, y, etl::fmax(x, y), o_fmaxl(x, y), o); }},
    {"fmaxl", [](ld x, ld y, Out* o) -> int { return cmp_minmax(x, y, etl::fmaxl(x, y), o_fmaxl(x, y), o); }},
    {"fdim", [](ld x, ld y, Out* o) -> int { return cmpl(etl::fdim(x, y), o_fdiml(x, y), o); }},
    {"fdiml", [](ld x, ld y, Out* o) -> int { return cmpl(etl::fdiml(x, y), o_fdiml(x, y), o); }},
};

// known-finding classes of this harness (consulted only with --exclude <tag>)
// C16.ld.round.near_2_63: gcem::round goes through find_whole() -> long long: |x| in [2^63 - 0.5, 2^63) rounds to 2^63,
// which does not fit (undefined conversion).
auto cls_round_2_63(ld x) -> bool
{
    ld const a = o_fabsl(x);
    return !nan_l(x) && a >= 0x1p63L - 0.5L && a < 0x1p63L;
}

auto detail1(char const* fn, ld x, Out const& o) -> std::string { return std::string(fn) + "(f80 " + show_arg_l(x) + "): etl " + o.etl + ", libm " + o.ref; }
auto detail2(char const* fn, ld x, ld y, Out const& o) -> std::string
{
    return std::string(fn) + "(f80 " + show_arg_l(x) + ", " + show_arg_l(y) + "): etl " + o.etl + ", libm " + o.ref;
}

auto nt_l(ld x) -> bool
{
    auto const r     = raw(x);
    unsigned const e = r.se & 0x7FFF;
    if (e == 0 || e == 0x7FFF) { return true; }
    if (e >= 16383 + 52) { return true; } // beyond double's fraction: only the 64-bit significand decides
    u64 const f = r.mant << 1;
    return f <= 128 || f >= ~static_cast<u64>(0) - 128;
}

struct Stat {
    std::uint64_t n{0}, nt{0}, wide{0}, tie{0}, special{0};
};

void run_unary(ld x, Stat& st)
{
    auto const r = raw(x);
    for (auto const& f : k_unary) {
        Case k{f.name, "f80", 2, r.se, r.mant, 0};
        vf::Flight<Case> fl(f.name, k);
        bool const is_round = f.name[0] == 'r' && f.name[1] == 'o';
        if (is_round && vf::ctx().excluded("C16.ld.round.near_2_63") && cls_round_2_63(x)) {
            vf::excluded_known("C16.ld.round.near_2_63");
            continue;
        }
        int const rc = f.check(x, nullptr);
        if (rc == 0) { continue; }
        ++st.n;
        if (rc == 2) {
            Out o;
            f.check(x, &o);
            vf::mismatch(f.name, k, detail1(f.name, x, o));
        }
    }
    bool const t = nt_l(x);
    st.nt += t;
    unsigned const e = r.se & 0x7FFF;
    st.special += (e == 0 || e == 0x7FFF);
    if (e >= 16383 + 52 && e < 16383 + 63) {
        int const fb = 63 - static_cast<int>(e - 16383); // fraction bits left
        u64 const fr = r.mant & ((1ULL << fb) - 1);
        st.wide += fr != 0;
        st.tie += fr == (1ULL << (fb - 1));
    }
}

void run_binary(ld x, ld y, Stat& st)
{
    auto const a = raw(x), b = raw(y);
    for (auto const& f : k_binary) {
        Case k{f.name, "f80", 3, static_cast<u64>(a.se) | (static_cast<u64>(b.se) << 16), a.mant, b.mant};
        vf::Flight<Case> fl(f.name, k);
        int const rc = f.check(x, y, nullptr);
        ++st.n;
        if (rc == 2) {
            Out o;
            f.check(x, y, &o);
            vf::mismatch(f.name, k, detail2(f.name, x, y, o));
        }
    }
    st.nt += nt_l(x) || nt_l(y) || sign_l(x) != sign_l(y);
}

void flush(char const* what, Stat const& st, std::uint64_t per)
{
    vf::eval(what, st.n);
    vf::nontrivial_count(st.nt * per);
}

// ------------------------------------------------------------------ enumeration: exponents x significands
void grid(vf::Ctx& c)
{
    vf::Rng rng(c.seed ^ 0x80B17ULL);
    Stat st;
    std::uint64_t patterns = 0;
    u64 const M = 0x7FFFFFFFFFFFFFFFULL;
    for (unsigned e = 0; e <= 0x7FFE; ++e) {
        if (!c.mine(e)) { continue; }
        std::vector<u64> fr;
        for (u64 k = 0; k <= 3; ++k) {
            fr.push_back(k);
            fr.push_back(M - k);
        }
        fr.push_back(1ULL << 62);
        fr.push_back((1ULL << 62) + 1);
        fr.push_back((1ULL << 62) - 1);
        int const E = static_cast<int>(e) - 16383;
        bool const dense = E >= -2 && E <= 64;
        if (dense || (e % 64) == 0 || e <= 2 || e >= 0x7FFC) {
            for (int k = 0; k < 63; ++k) {
                fr.push_back(1ULL << k);
                fr.push_back((1ULL << k) - 1);
                fr.push_back(M & ~((1ULL << k) - 1));
            }
        }
        if (E >= 0 && E < 63) { // fraction bits: fb = 63 - E; ties and their neighbours with random / extreme integer parts
            int const fb   = 63 - E;
            u64 const half = 1ULL << (fb - 1);
            for (int j = 0; j < 24; ++j) {
                u64 upper = fb >= 63 ? 0 : ((rng.next() << fb) & M);
                if (j == 0) { upper = 0; }
                if (j == 1) { upper = fb >= 63 ? 0 : ((M >> fb) << fb); }
                if (j == 2) { upper = fb >= 62 ? 0 : (1ULL << fb); } // odd integer part: tie goes up for rint
                u64 const m = upper | half;
                for (u64 v : {m, (m + 1) & M, (m - 1) & M, upper, (upper - 1) & M, (upper + 1) & M, upper | (half >> 1), upper | half | (half >> 1)}) { fr.push_back(v); }
                fr.push_back(upper | (rng.next() & ((1ULL << fb) - 1))); // arbitrary fraction
            }
        }
        std::sort(fr.begin(), fr.end());
        fr.erase(std::unique(fr.begin(), fr.end()), fr.end());
        for (unsigned s = 0; s < 2; ++s) {
            for (u64 f : fr) {
                run_unary(enc(s, e, f), st);
                ++patterns;
            }
        }
    }
    if (c.shard == 0) {
        for (unsigned s = 0; s < 2; ++s) {
            run_unary(enc(s, 0x7FFF, 0), st); // inf
            run_unary(qnan(s), st);
            run_unary(mk(static_cast<std::uint16_t>((s << 15) | 0x7FFF), 0xC000000000000001ULL), st);
            run_unary(mk(static_cast<std::uint16_t>((s << 15) | 0x7FFF), 0xFFFFFFFFFFFFFFFFULL), st);
        }
    }
    flush("f80.grid", st, sizeof(k_unary) / sizeof(k_unary[0]));
    vf::count("f80.grid.patterns", patterns);
    vf::count("f80.grid.patterns with a fraction only long double can hold (2^52 <= |x| < 2^63)", st.wide);
    vf::count("f80.grid.exact ties between 2^52 and 2^63", st.tie);
}

auto random_ld(vf::Rng& rng, unsigned shape) -> ld
{
    unsigned const s = static_cast<unsigned>(rng.below(2));
    switch (shape) {
    case 0: return enc(s, static_cast<unsigned>(rng.below(0x7FFF)), rng.next()); // uniform over exponents
    case 1: {                                                                    // 2^-2 .. 2^65
        return enc(s, 16383 - 2 + static_cast<unsigned>(rng.below(68)), rng.next());
    }
    case 2: { // integer + {0, .5, tiny} built in the significand: exponent 2^0..2^62
        unsigned const E = static_cast<unsigned>(rng.below(63));
        int const fb     = 63 - static_cast<int>(E);
        u64 f            = fb >= 63 ? 0 : ((rng.next() << fb) & 0x7FFFFFFFFFFFFFFFULL);
        auto const k     = rng.below(5);
        if (k == 0) { f |= 1ULL << (fb - 1); }
        if (k == 1) { f |= (1ULL << (fb - 1)) + 1; }
        if (k == 2) { f |= (1ULL << (fb - 1)) - 1; }
        if (k == 3) { f |= 1; }
        return enc(s, 16383 + E, f);
    }
    default: { // trailing zeros / subnormals / extremes
        auto const k = rng.below(4);
        if (k == 0) { return enc(s, 0, rng.next() >> rng.below(63)); }
        if (k == 1) { return enc(s, 0x7FFE - static_cast<unsigned>(rng.below(3)), rng.next()); }
        u64 f = rng.next();
        f &= ~((1ULL << rng.below(63)) - 1);
        return enc(s, 16383 + static_cast<unsigned>(rng.below(70)), f);
    }
    }
}

void randoms(vf::Ctx& c)
{
    vf::Rng rng(c.seed);
    std::uint64_t const total = c.thorough() ? 4000000ULL : 400000ULL;
    std::uint64_t const n     = total / static_cast<unsigned>(c.nshards) + 1;
    Stat st;
    for (std::uint64_t i = 0; i < n; ++i) { run_unary(random_ld(rng, static_cast<unsigned>(i & 3)), st); }
    flush("f80.random", st, sizeof(k_unary) / sizeof(k_unary[0]));
    auto lab = [&](char const* nm, std::uint64_t h) {
        auto& cl = vf::stats().classes[std::string("f80.random.") + nm];
        cl.first += h;
        cl.second += n;
    };
    lab("nontrivial argument", st.nt);
    lab("fraction only long double can hold (2^52 <= |x| < 2^63)", st.wide);
    lab("zero, subnormal, inf or NaN", st.special);
}

void pairs(vf::Ctx& c)
{
    vf::Rng rng(c.seed ^ 0xB1ULL);
    // boundary set
    std::vector<ld> b;
    for (unsigned s = 0; s < 2; ++s) {
        b.push_back(enc(s, 0, 0));
        b.push_back(enc(s, 0, 1));
        b.push_back(enc(s, 0, 0x7FFFFFFFFFFFFFFFULL));
        b.push_back(enc(s, 1, 0));
        b.push_back(enc(s, 0x7FFE, 0x7FFFFFFFFFFFFFFFULL));
        b.push_back(enc(s, 0x7FFF, 0));
        b.push_back(qnan(s));
        for (unsigned e : {16383U - 1, 16383U, 16383U + 1, 16383U + 52, 16383U + 53, 16383U + 62, 16383U + 63, 16383U + 64}) {
            b.push_back(enc(s, e, 0));
            b.push_back(enc(s, e, 1));
            b.push_back(enc(s, e, 0x7FFFFFFFFFFFFFFFULL));
            b.push_back(enc(s, e, 1ULL << 62));
        }
    }
    Stat st;
    std::uint64_t idx = 0;
    for (ld x : b) {
        for (ld y : b) {
            if (!c.mine(idx++)) { continue; }
            run_binary(x, y, st);
        }
    }
    std::uint64_t const total = c.thorough() ? 2000000ULL : 200000ULL;
    std::uint64_t const n     = total / static_cast<unsigned>(c.nshards) + 1;
    std::uint64_t opp = 0, spec = 0, close = 0;
    for (std::uint64_t i = 0; i < n; ++i) {
        ld x = random_ld(rng, static_cast<unsigned>(i & 3));
        ld y = random_ld(rng, static_cast<unsigned>((i >> 2) & 3));
        auto const sh = rng.below(8);
        if (sh == 0) { y = b[rng.below(b.size())]; }
        if (sh == 1) { x = b[rng.below(b.size())]; }
        if (sh == 4) { // a zero, an infinity, a NaN or the smallest subnormal on either side
            unsigned const sg = static_cast<unsigned>(rng.below(2));
            ld const sp[]     = {enc(sg, 0, 0), enc(sg, 0x7FFF, 0), qnan(sg), enc(sg, 0, 1)};
            (rng.below(2) != 0 ? x : y) = sp[rng.below(4)];
        }
        if (sh == 2 || sh == 3) { // nearly equal: same exponent, significand a few units apart (fdim / fmin / fmax decide on the last bits)
            auto const r = raw(x);
            if ((r.se & 0x7FFF) != 0x7FFF && (r.se & 0x7FFF) != 0) {
                u64 m = r.mant + rng.below(7) - 3;
                m |= 0x8000000000000000ULL;
                y = mk(sh == 2 ? r.se : static_cast<std::uint16_t>(r.se ^ 0x8000), m);
                ++close;
            }
        }
        run_binary(x, y, st);
        opp += sign_l(x) != sign_l(y);
        spec += nan_l(x) || nan_l(y) || inf_l(x) || inf_l(y) || zero_l(x) || zero_l(y);
    }
    flush("f80.pairs", st, sizeof(k_binary) / sizeof(k_binary[0]));
    auto lab = [&](char const* nm, std::uint64_t h) {
        auto& cl = vf::stats().classes[std::string("f80.pairs.") + nm];
        cl.first += h;
        cl.second += n;
    };
    lab("opposite signs", opp);
    lab("a zero, inf or NaN argument", spec);
    lab("significands a few units apart", close);
}


// ------------------------------------------------------------------ constant-evaluation leg (long double rounding family)
// C13 owns compile-time = run-time in general; this small table is here because the arguments that matter for long
// double - more than 53 significant bits: odd integers above 2^53, halves +- 2^-63 - are exactly the ones this harness
// is about.  Every entry is evaluated in a constant expression (constexpr array initialiser) and compared at run time
// with glibc's *l function on the same value.  (2^63 - 0.5 is left out: its lrint does not fit long, which is not a constant.)
struct CtRow {
    ld x;
    ld floor_, ceil_, trunc_, round_, rint_, rintl_;
    long lrint_, lrintl_;
    long long llrint_, llrintl_;
};
#define C16_CT(v)                                                                                                       \
    CtRow { (v), etl::floor(v), etl::ceil(v), etl::trunc(v), etl::round(v), etl::rint(v), etl::rintl(v), etl::lrint(v), etl::lrintl(v), etl::llrint(v), etl::llrintl(v) }
constexpr CtRow k_ct[] = {
    C16_CT(0x1p53L + 1.0L),
    C16_CT(-(0x1p53L + 1.0L)),
    C16_CT(0x1p62L + 1.0L),
    C16_CT(0x1p63L - 1025.0L), // (values within half a double-ulp of 2^63 are avoided: a tree that narrows the argument to
                               //  double first would turn them into non-constant expressions = a build failure, not a verdict)
    C16_CT(-0x1p63L),
    C16_CT(-(0x1p63L - 1025.0L)),
    C16_CT(0.5L + 0x1p-64L),
    C16_CT(0.5L - 0x1p-65L),
    C16_CT(-(0.5L + 0x1p-64L)),
    C16_CT(1.5L - 0x1p-63L),
    C16_CT(1.5L + 0x1p-63L),
    C16_CT(-(2.5L + 0x1p-62L)),
    C16_CT(2.5L - 0x1p-62L),
    C16_CT(0x1p55L + 1.5L),
    C16_CT(0x1p52L + 0.5L),
    C16_CT(0x1p52L + 1.5L),
    C16_CT(-(0x1p52L + 0.5L)),
    C16_CT(0x1p60L + 0.5L),
    C16_CT(0x1p60L + 1.5L),
    C16_CT(0x1p62L + 0.5L),
    C16_CT(0x1p62L + 1.5L),
    C16_CT(-(0x1p62L + 0.5L)),
    C16_CT(0x1p53L + 0.25L),
    C16_CT(0x1p61L + 0.75L),
    C16_CT(2.5L),
    C16_CT(3.5L),
    C16_CT(-2.5L),
    C16_CT(0.5L),
    C16_CT(-0.5L),
    C16_CT(-0.0L),
    C16_CT(0.0L),
    C16_CT(1e-4000L),
    C16_CT(-1e-4000L),
    C16_CT(123456789.987654321L),
    C16_CT(-9007199254740992.5L),
    C16_CT(4611686018427387903.5L),
};
char const* const k_ct_names[] = {"ct.floor", "ct.ceil", "ct.trunc", "ct.round", "ct.rint", "ct.rintl", "ct.lrint", "ct.lrintl", "ct.llrint", "ct.llrintl"};

auto ct_case(CtRow const& row, int which, bool run_mode) -> std::string
{
    auto const r = raw(row.x);
    Case k{k_ct_names[which], "f80", 2, r.se, r.mant, 0};
    vf::Flight<Case> fl(k_ct_names[which], k);
    Out o;
    int rc = 0;
    switch (which) {
    case 0: rc = cmpl(row.floor_, o_floorl(row.x), &o); break;
    case 1: rc = cmpl(row.ceil_, o_ceill(row.x), &o); break;
    case 2: rc = cmpl(row.trunc_, o_truncl(row.x), &o); break;
    case 3: rc = cmpl(row.round_, o_roundl(row.x), &o); break;
    case 4: rc = cmpl(row.rint_, o_rintl(row.x), &o); break;
    case 5: rc = cmpl(row.rintl_, o_rintl(row.x), &o); break;
    case 6: rc = cmpi(row.lrint_, o_lrintl(row.x), &o); break;
    case 7: rc = cmpi(row.lrintl_, o_lrintl(row.x), &o); break;
    case 8: rc = cmpi(row.llrint_, o_llrintl(row.x), &o); break;
    default: rc = cmpi(row.llrintl_, o_llrintl(row.x), &o); break;
    }
    std::string d;
    if (rc == 2) { d = std::string("constant-evaluated ") + (k_ct_names[which] + 3) + "(f80 " + show_arg_l(row.x) + "): etl " + o.etl + ", libm at run time " + o.ref; }
    if (run_mode) {
        vf::eval("f80.constexpr");
        vf::nontrivial_count();
        if (rc == 2) { vf::mismatch(k_ct_names[which], k, d); }
    }
    return d;
}

void ct_leg(vf::Ctx& c)
{
    if (c.shard != 0) { return; }
    for (auto const& row : k_ct) {
        for (int w = 0; w < 10; ++w) { ct_case(row, w, true); }
    }
    vf::count("f80.constexpr.values (all with more than 53 significant bits or on a tie)", sizeof(k_ct) / sizeof(k_ct[0]));
}

} // namespace

void vf_run(vf::Ctx& c)
{
    ct_leg(c);
    grid(c);
    randoms(c);
    pairs(c);
    vf::sample("floor", [] { return std::string("floor f80 0x4034 0x8000000000000400  (= 2^53 + 0.5: sign+exponent word, 64-bit significand; every unary function is called on every value)"); });
}

std::string vf_replay(std::string const& /*sub*/, std::string const& cs)
{
    auto const p = parse_case(cs);
    if (p.ty != "f80") { return "replay: unknown type " + p.ty; }
    if (p.fn.rfind("ct.", 0) == 0) {
        for (int w = 0; w < 10; ++w) {
            if (p.fn != k_ct_names[w]) { continue; }
            for (auto const& row : k_ct) {
                auto const r = raw(row.x);
                if (r.se == static_cast<std::uint16_t>(p.a) && r.mant == p.b) { return ct_case(row, w, false); }
            }
        }
        return "replay: value is not in the constant-evaluation table: " + cs;
    }
    for (auto const& f : k_unary) {
        if (p.fn == f.name) {
            ld const x = mk(static_cast<std::uint16_t>(p.a), p.b);
            Case k{f.name, "f80", 2, p.a, p.b, 0};
            vf::Flight<Case> fl(f.name, k);
            Out o;
            return f.check(x, &o) == 2 ? detail1(f.name, x, o) : std::string();
        }
    }
    for (auto const& f : k_binary) {
        if (p.fn == f.name) {
            ld const x = mk(static_cast<std::uint16_t>(p.a & 0xFFFF), p.b);
            ld const y = mk(static_cast<std::uint16_t>((p.a >> 16) & 0xFFFF), p.c);
            Case k{f.name, "f80", 3, p.a, p.b, p.c};
            vf::Flight<Case> fl(f.name, k);
            Out o;
            return f.check(x, y, &o) == 2 ? detail2(f.name, x, y, o) : std::string();
        }
    }
    return "replay: unknown function " + p.fn;
}
