// C04 — shared helpers of the inplace_string harness (included by props/C04_strings.cpp; not a TU of its own).
// Alphabet, exact-size heap argument buffers, boundary-biased pos/count mapping, printing, the op-code table and the
// per-operation comparison of an etl string with its std::basic_string model (contents + the C04 invariant).
#pragma once

#include <cwchar>
#include <memory>
#include <string>
#include <string_view>
#include <type_traits>

namespace c04 {

using vf::OpsCase;
using vf::RawOp;

constexpr std::size_t knpos = static_cast<std::size_t>(-1);

// ------------------------------------------------------------------ alphabet: a, b, c, NUL, two code units >= 0x80 and five extreme code units
template <typename Char>
constexpr auto hi_unit() -> Char
{
    if constexpr (sizeof(Char) == 1) {
        return static_cast<Char>(0xE9);
    } else if constexpr (std::is_same_v<Char, char16_t>) {
        return static_cast<Char>(0xD83D);
    } else if constexpr (std::is_same_v<Char, char32_t>) {
        return static_cast<Char>(0x1F600);
    } else {
        return static_cast<Char>(0x20AC);
    }
}
// extreme code units of each character type: the sign / range boundaries where a traits implementation can go wrong
// (wchar_t is a signed 32-bit type here and std::char_traits<wchar_t> orders it as such)
template <typename Char>
constexpr auto extreme_unit(std::uint32_t i) -> Char
{
    if constexpr (std::is_same_v<Char, wchar_t>) {
        constexpr wchar_t t[5] = {static_cast<wchar_t>(-1), WCHAR_MIN, WCHAR_MAX, static_cast<wchar_t>(0x100), static_cast<wchar_t>(0xFF)};
        return t[i % 5];
    } else if constexpr (std::is_same_v<Char, char16_t>) {
        constexpr char16_t t[5] = {0xD800, 0xDFFF, 0xFFFF, 0x00FF, 0x0100};
        return t[i % 5];
    } else if constexpr (std::is_same_v<Char, char32_t>) {
        constexpr char32_t t[5] = {0x10FFFF, 0x80000000U, 0xFFFFFFFFU, 0x0100, 0xFF};
        return t[i % 5];
    } else {
        constexpr unsigned char t[5] = {0xFF, 0x7F, 0x01, 0xC3, 0x81};
        return static_cast<Char>(t[i % 5]);
    }
}
template <typename Char>
constexpr auto alpha(std::uint32_t v) -> Char
{
    switch (v % 16) {
    case 0: return static_cast<Char>('a');
    case 1: return static_cast<Char>('b');
    case 2: return hi_unit<Char>();
    case 3: return static_cast<Char>(0);
    case 4: return static_cast<Char>('a');
    case 5: return static_cast<Char>('b');
    case 6: return static_cast<Char>('c');
    case 7: return static_cast<Char>(0x80);
    case 8: return extreme_unit<Char>(0);
    case 9: return extreme_unit<Char>(1);
    case 10: return extreme_unit<Char>(2);
    case 11: return extreme_unit<Char>(3);
    case 12: return extreme_unit<Char>(4);
    case 13: return static_cast<Char>('a');
    case 14: return static_cast<Char>(0);
    default: return hi_unit<Char>();
    }
}
template <typename Char>
constexpr auto is_extreme(Char c) -> bool
{
    for (std::uint32_t i = 0; i < 5; ++i) {
        if (c == extreme_unit<Char>(i)) { return true; }
    }
    return false;
}

inline auto num(std::size_t v) -> std::string { return v == knpos ? std::string("npos") : std::to_string(v); }

template <typename Char, typename Tr>
auto show(std::basic_string<Char, Tr> const& s) -> std::string
{
    std::string o = "\"";
    for (auto c : s) {
        auto u = static_cast<std::uint32_t>(static_cast<std::make_unsigned_t<Char>>(c));
        if (u >= 0x20 && u < 0x7f && u != '"' && u != '\\') {
            o += static_cast<char>(u);
        } else {
            char b[16];
            std::snprintf(b, sizeof b, "\\x{%x}", static_cast<unsigned>(u));
            o += b;
        }
    }
    return o + "\"";
}
template <typename Char>
auto show_ch(Char c) -> std::string
{
    return show(std::basic_string<Char>(1, c));
}

// ------------------------------------------------------------------ argument buffers: exact-size heap blocks, so a read
// one past the argument hits an ASan redzone (never a std::string's spare capacity or a neighbouring stack object)
template <typename Char>
struct Buf {
    std::unique_ptr<Char[]> p;
    std::size_t n{0}; // number of characters (without the terminator of a C string)
    [[nodiscard]] auto get() const -> Char const* { return p.get(); }
    [[nodiscard]] auto end() const -> Char const* { return p.get() + n; }
};
template <typename Char, typename Tr>
auto pbuf(std::basic_string<Char, Tr> const& s) -> Buf<Char> // pointer + count argument: exactly s.size() characters
{
    Buf<Char> b;
    b.n = s.size();
    b.p.reset(new Char[s.size()]);
    for (std::size_t i = 0; i < s.size(); ++i) { b.p[i] = s[i]; }
    return b;
}
template <typename Char, typename Tr>
auto cbuf(std::basic_string<Char, Tr> const& s) -> Buf<Char> // C string argument: s (no embedded NUL) + terminator
{
    Buf<Char> b;
    b.n = s.size();
    b.p.reset(new Char[s.size() + 1]);
    for (std::size_t i = 0; i < s.size(); ++i) { b.p[i] = s[i]; }
    b.p[s.size()] = Char(0);
    return b;
}
template <typename Char, typename Tr>
auto no_nul(std::basic_string<Char, Tr> s) -> std::basic_string<Char, Tr> // C-string arguments cannot carry embedded NULs
{
    for (auto& c : s) {
        if (c == Char(0)) { c = static_cast<Char>('c'); }
    }
    return s;
}
// alphabet of the case-insensitive-traits configuration: the extreme code units are replaced by upper-case letters, so
// strings that are equal under the traits but not code unit for code unit are common
template <typename Char, bool CI>
constexpr auto alpha_cfg(std::uint32_t v) -> Char
{
    if constexpr (CI) {
        switch (v % 16) {
        case 8: return static_cast<Char>('A');
        case 9: return static_cast<Char>('B');
        case 10: return static_cast<Char>('C');
        case 11: return static_cast<Char>('A');
        case 12: return static_cast<Char>('B');
        case 15: return static_cast<Char>('Z');
        default: break;
        }
    }
    return alpha<Char>(v);
}
template <typename M, bool CI>
auto gen_str(std::uint32_t seed, std::size_t len) -> M
{
    M s;
    std::uint32_t z = seed * 2654435761U + 12345U;
    for (std::size_t i = 0; i < len; ++i) {
        z = z * 1664525U + 1013904223U;
        s.push_back(alpha_cfg<typename M::value_type, CI>(z >> 24));
    }
    return s;
}

// ------------------------------------------------------------------ user-supplied character traits: ASCII case-insensitive
// (usable by both std::basic_string and etl::basic_inplace_string; eq/lt/compare/find differ from the built-in operators)
// Deliberately NOT derived from std::char_traits: namespace std must not become an associated namespace of the string (the
// library's free erase()/erase_if() call begin()/end() unqualified).
struct ci_traits {
    using base       = std::char_traits<char>;
    using char_type  = char;
    using int_type   = base::int_type;
    using off_type   = base::off_type;
    using pos_type   = base::pos_type;
    using state_type = base::state_type;
    static constexpr auto assign(char& a, char const& b) noexcept -> void { a = b; }
    static constexpr auto assign(char* s, std::size_t n, char c) -> char* { return base::assign(s, n, c); }
    static constexpr auto length(char const* s) -> std::size_t { return base::length(s); }
    static constexpr auto move(char* d, char const* s, std::size_t n) -> char* { return base::move(d, s, n); }
    static constexpr auto copy(char* d, char const* s, std::size_t n) -> char* { return base::copy(d, s, n); }
    static constexpr auto to_char_type(int_type c) noexcept -> char { return base::to_char_type(c); }
    static constexpr auto to_int_type(char c) noexcept -> int_type { return base::to_int_type(c); }
    static constexpr auto eq_int_type(int_type a, int_type b) noexcept -> bool { return base::eq_int_type(a, b); }
    static constexpr auto eof() noexcept -> int_type { return base::eof(); }
    static constexpr auto not_eof(int_type c) noexcept -> int_type { return base::not_eof(c); }
    static constexpr auto fold(char c) noexcept -> unsigned char { return static_cast<unsigned char>((c >= 'A' && c <= 'Z') ? c - 'A' + 'a' : c); }
    static constexpr auto eq(char a, char b) noexcept -> bool { return fold(a) == fold(b); }
    static constexpr auto lt(char a, char b) noexcept -> bool { return fold(a) < fold(b); }
    static constexpr auto compare(char const* a, char const* b, std::size_t n) -> int
    {
        for (std::size_t i = 0; i < n; ++i) {
            if (lt(a[i], b[i])) { return -1; }
            if (lt(b[i], a[i])) { return 1; }
        }
        return 0;
    }
    static constexpr auto find(char const* s, std::size_t n, char const& c) -> char const*
    {
        for (std::size_t i = 0; i < n; ++i) {
            if (eq(s[i], c)) { return s + i; }
        }
        return nullptr;
    }
};

// ------------------------------------------------------------------ a genuine single-pass input iterator (like
// std::istream_iterator): all copies share one FIFO, ++ consumes the front element, * returns the element cached when the
// iterator reached it.  An implementation that walks the range twice (distance() first) sees a drained source.
template <typename Char>
struct Fifo {
    Char const* p{nullptr};
    Char const* e{nullptr};
    std::size_t pops{0};
};
template <typename Char>
struct FifoIt {
    using iterator_category = vf::it::input_tag; // derives from etl::input_iterator_tag and std::input_iterator_tag only
    using value_type        = Char;
    using difference_type   = std::ptrdiff_t;
    using pointer           = Char const*;
    using reference         = Char const&;
    Fifo<Char>* src{nullptr}; // nullptr: the end iterator
    Char cur{};
    FifoIt() = default;
    explicit FifoIt(Fifo<Char>* f) : src{(f != nullptr && f->p != f->e) ? f : nullptr}, cur{src != nullptr ? *f->p : Char()} { }
    auto operator*() const -> reference { return cur; }
    auto operator->() const -> pointer { return &cur; }
    auto operator++() -> FifoIt&
    {
        if (src != nullptr) {
            if (src->p != src->e) {
                ++src->p;
                ++src->pops;
            }
            if (src->p == src->e) {
                src = nullptr;
            } else {
                cur = *src->p;
            }
        }
        return *this;
    }
    auto operator++(int) -> FifoIt
    {
        auto t = *this;
        ++*this;
        return t;
    }
    friend auto operator==(FifoIt const& a, FifoIt const& b) -> bool { return a.src == b.src; }
    friend auto operator!=(FifoIt const& a, FifoIt const& b) -> bool { return a.src != b.src; }
};

// ------------------------------------------------------------------ raw argument -> boundary-biased value
// (raw arguments are mostly tiny numbers: the "random" branches spread them over the whole range by hashing)
inline auto spread(std::uint32_t raw) -> std::size_t { return static_cast<std::size_t>((raw * 0x9E3779B1U) >> 8); }
// position that must be valid for std (pos <= size)
inline auto vpos(std::uint32_t raw, std::size_t size) -> std::size_t
{
    switch (raw % 8) {
    case 0: return 0;
    case 1: return size >= 1 ? 1 : 0;
    case 2: return size >= 1 ? size - 1 : 0;
    case 3: return size;
    default: return spread(raw) % (size + 1);
    }
}
// search position: any value is meaningful for std (0, 1, size-1, size, size+1, npos, random)
inline auto qpos(std::uint32_t raw, std::size_t size) -> std::size_t
{
    switch (raw % 10) {
    case 0: return 0;
    case 1: return 1;
    case 2: return size >= 1 ? size - 1 : 0;
    case 3: return size;
    case 4: return size + 1;
    case 5: return knpos;
    default: return spread(raw) % (size + 2);
    }
}
// count argument relative to what is available behind pos: 0, 1, avail-1, avail, avail+1, npos and HUGE counts that are not
// npos (npos-1, npos-2, npos-pos, npos-pos+1 [pos+count wraps to 0], SIZE_MAX/2, SIZE_MAX/2+1): std clamps them all
inline auto qcount(std::uint32_t raw, std::size_t avail, std::size_t pos = 0) -> std::size_t
{
    switch (raw % 16) {
    case 0: return 0;
    case 1: return 1;
    case 2: return avail >= 1 ? avail - 1 : 0;
    case 3: return avail;
    case 4: return avail + 1;
    case 5: return knpos;
    case 6: return knpos - 1;
    case 7: return knpos - pos;
    case 8: return pos >= 1 ? knpos - pos + 1 : knpos - 2;
    case 9: return knpos / 2;
    case 10: return knpos / 2 + 1;
    case 11: return knpos - 2;
    default: return spread(raw) % (avail + 2);
    }
}
inline auto is_huge(std::size_t cnt) -> bool { return cnt != knpos && cnt >= knpos / 2; }
// length that fits into `room` (0, 1, room-1, room, random)
inline auto fitlen(std::uint32_t raw, std::size_t room) -> std::size_t
{
    switch (raw % 8) {
    case 0: return 0;
    case 1: return room >= 1 ? 1 : 0;
    case 2: return room;
    case 3: return room >= 1 ? room - 1 : 0;
    default: return spread(raw) % (room + 1);
    }
}
// length for the clamping operations: mostly fits, sometimes room+1 / room+k (a clamp event)
inline auto ovlen(std::uint32_t raw, std::size_t room) -> std::size_t
{
    switch (raw % 16) {
    case 13: return room + 1;
    case 14: return room + 2 + (raw / 16) % 5;
    case 15: return room + 1 + (raw / 16) % 300;
    default: return fitlen(raw, room);
    }
}
inline auto sgn(int v) -> int { return v < 0 ? -1 : (v > 0 ? 1 : 0); }

// ------------------------------------------------------------------ op codes
#define C04_CODES(X)                                                                                                                                                                                   \
    X(CTOR_DEFAULT, "string()") X(CTOR_PTR_N, "string(p,n)") X(CTOR_CSTR, "string(cstr)") X(CTOR_N_CH, "string(n,ch)") X(CTOR_RANGE, "string(first,last)") X(CTOR_STR_POS_N, "string(str,pos,n)")        \
    X(CTOR_STR_POS, "string(str,pos)") X(CTOR_VIEW, "string(view)") X(CTOR_VIEW_POS_N, "string(view,pos,n)") X(COPY_CTOR_MUTATE, "copy-ctor+mutate copy") X(MOVE_CTOR, "move-ctor")                    \
    X(COPY_ASSIGN, "operator=(str)") X(MOVE_ASSIGN, "operator=(str&&)") X(SELF_ASSIGN, "self operator=") X(OPEQ_CSTR, "operator=(cstr)") X(OPEQ_CH, "operator=(ch)") X(OPEQ_VIEW, "operator=(view)")   \
    X(ASSIGN_N_CH, "assign(n,ch)") X(ASSIGN_STR, "assign(str)") X(ASSIGN_STR_POS_N, "assign(str,pos,n)") X(ASSIGN_STR_POS, "assign(str,pos)") X(ASSIGN_PTR_N, "assign(p,n)")                           \
    X(ASSIGN_CSTR, "assign(cstr)") X(ASSIGN_RANGE, "assign(first,last)") X(ASSIGN_VIEW, "assign(view)") X(ASSIGN_VIEW_POS_N, "assign(view,pos,n)") X(ASSIGN_VIEW_POS, "assign(view,pos)")               \
    X(WRITE_INDEX, "s[i]=ch") X(WRITE_FRONT_BACK, "front()/back()=ch") X(WRITE_ITER, "*(begin()+i)=ch") X(PUSH_BACK, "push_back") X(POP_BACK, "pop_back") X(CLEAR, "clear")                            \
    X(ERASE_IDX_N, "erase(idx,n)") X(ERASE_IDX, "erase(idx)") X(ERASE_ALL, "erase()") X(ERASE_IT, "erase(it)") X(ERASE_IT_IT, "erase(first,last)")                                                      \
    X(APPEND_N_CH, "append(n,ch)") X(APPEND_CSTR, "append(cstr)") X(APPEND_PTR_N, "append(p,n)") X(APPEND_RANGE, "append(first,last)") X(APPEND_STR, "append(str)")                                     \
    X(APPEND_STR_POS_N, "append(str,pos,n)") X(APPEND_STR_POS, "append(str,pos)") X(APPEND_VIEW, "append(view)") X(APPEND_VIEW_POS_N, "append(view,pos,n)") X(APPEND_VIEW_POS, "append(view,pos)")       \
    X(PLUSEQ_STR, "operator+=(str)") X(PLUSEQ_CH, "operator+=(ch)") X(PLUSEQ_CSTR, "operator+=(cstr)") X(PLUSEQ_VIEW, "operator+=(view)")                                                              \
    X(INSERT_N_CH, "insert(idx,n,ch)") X(INSERT_CSTR, "insert(idx,cstr)") X(INSERT_PTR_N, "insert(idx,p,n)") X(INSERT_STR, "insert(idx,str)") X(INSERT_STR_POS_N, "insert(idx,str,pos,n)")              \
    X(INSERT_STR_POS, "insert(idx,str,pos)") X(INSERT_VIEW, "insert(idx,view)") X(INSERT_VIEW_POS_N, "insert(idx,view,pos,n)") X(INSERT_VIEW_POS, "insert(idx,view,pos)")                               \
    X(REPLACE_POS_N_STR, "replace(pos,n,str)") X(REPLACE_IT_STR, "replace(first,last,str)") X(REPLACE_POS_N_STR_POS_N, "replace(pos,n,str,pos2,n2)") X(REPLACE_POS_N_STR_POS, "replace(pos,n,str,pos2)") \
    X(REPLACE_POS_N_PTR_N, "replace(pos,n,p,n2)") X(REPLACE_IT_PTR_N, "replace(first,last,p,n2)") X(REPLACE_POS_N_CSTR, "replace(pos,n,cstr)") X(REPLACE_IT_CSTR, "replace(first,last,cstr)")           \
    X(REPLACE_IT_N_CH, "replace(first,last,n2,ch)") X(RESIZE, "resize(n)") X(RESIZE_CH, "resize(n,ch)") X(SWAP_MEMBER, "swap(member)") X(SWAP_FREE, "swap(free)") X(SUBSTR, "substr(pos,n)")            \
    X(SUBSTR_DEFAULTS, "substr()/substr(pos)") X(COPY_OUT, "copy(dest,n,pos)") X(COPY_OUT_DEFAULT, "copy(dest,n)") X(PLUS_STR_STR, "str+str(other capacity)") X(PLUS_STR_CSTR, "str+cstr")             \
    X(PLUS_STR_CH, "str+ch") X(PLUS_CSTR_STR, "cstr+str") X(PLUS_CH_STR, "ch+str") X(FREE_ERASE, "erase(str,ch)") X(FREE_ERASE_IF, "erase_if(str,pred)")                                                \
    X(FIND_STR, "find(str,pos)") X(FIND_PTR_N, "find(p,pos,n)") X(FIND_CSTR, "find(cstr,pos)") X(FIND_CH, "find(ch,pos)") X(RFIND_STR, "rfind(str,pos)") X(RFIND_CSTR, "rfind(cstr,pos)")               \
    X(RFIND_CH, "rfind(ch,pos)") X(FFO_STR, "find_first_of(str,pos)") X(FFO_PTR_N, "find_first_of(p,pos,n)") X(FFO_CSTR, "find_first_of(cstr,pos)") X(FFO_CH, "find_first_of(ch,pos)")                 \
    X(FFO_VIEW, "find_first_of(view,pos)") X(FFNO_STR, "find_first_not_of(str,pos)") X(FFNO_CH, "find_first_not_of(ch,pos)") X(FFNO_CSTR, "find_first_not_of(cstr,pos)")                               \
    X(FFNO_PTR_N, "find_first_not_of(p,pos,n)") X(FLO_STR, "find_last_of(str,pos)") X(FLO_CH, "find_last_of(ch,pos)") X(FLO_PTR_N, "find_last_of(p,pos,n)") X(FLO_CSTR, "find_last_of(cstr,pos)")      \
    X(FLNO_STR, "find_last_not_of(str,pos)") X(FLNO_CH, "find_last_not_of(ch,pos)") X(FLNO_PTR_N, "find_last_not_of(p,pos,n)") X(FLNO_CSTR, "find_last_not_of(cstr,pos)")                              \
    X(DEFAULT_POS_FWD, "forward search, default pos") X(DEFAULT_POS_REV, "backward search, default pos") X(COMPARE_STR, "compare(str)") X(COMPARE_OTHERCAP, "compare(str of other capacity)")          \
    X(COMPARE_POS_N_STR, "compare(pos,n,str)") X(COMPARE_POS_N_STR_POS_N, "compare(pos,n,str,pos2,n2)") X(COMPARE_POS_N_STR_POS, "compare(pos,n,str,pos2)") X(COMPARE_CSTR, "compare(cstr)")           \
    X(COMPARE_POS_N_CSTR, "compare(pos,n,cstr)") X(COMPARE_POS_N_PTR_N, "compare(pos,n,p,n2)") X(COMPARE_VIEW, "compare(view)") X(COMPARE_POS_N_VIEW, "compare(pos,n,view)")                           \
    X(COMPARE_POS_N_VIEW_POS_N, "compare(pos,n,view,pos2,n2)") X(COMPARE_POS_N_VIEW_POS, "compare(pos,n,view,pos2)") X(PREFIX_SUFFIX, "starts_with/ends_with/contains")                                \
    X(RELOPS_STR, "relational operators str x str(other capacity)") X(RELOPS_CSTR, "relational operators str x cstr, cstr x str")                                                                 \
    /* added later (codes are only ever appended: stored cases keep their meaning) */                                                                                                                 \
    X(ALIAS_ASSIGN_PTR_N, "s.assign(s.data()+k,n)") X(ALIAS_ASSIGN_CSTR, "s.assign(s.c_str()+k)") X(ALIAS_OPEQ_CSTR, "s = s.c_str()+k") X(ALIAS_ASSIGN_MISC, "assign/operator= from a range or view of s itself") \
    X(ALIAS_APPEND, "append/+=/push_back with an argument inside s itself") X(ALIAS_INSERT, "insert with an argument inside s itself") X(ALIAS_REPLACE, "replace with an argument inside s itself")        \
    X(ALIAS_QUERY, "find*/compare/starts_with... with an argument inside s itself") X(OTHERCAP, "operations with a string of another capacity") X(FREE_ERASE_TYPED, "erase/erase_if(str, value of another type)") \
    X(APPEND_INPUT_IT, "append(first,last) with single-pass input iterators") X(FREE_ERASE_IF_STATEFUL, "erase_if(str, stateful predicate)")

enum Code : std::uint32_t {
#define X(id, name) id,
    C04_CODES(X)
#undef X
        NCODES
};
inline char const* const code_names[] = {
#define X(id, name) name,
    C04_CODES(X)
#undef X
};

// exclusion tags of the two behaviours the unedited unit tests pin (known-finding protocol, HARNESS_GUIDE)
constexpr char const* tag_replace = "string.replace.length_changing";
constexpr char const* tag_rfind   = "string.rfind.default_pos";
// replace(..) copies the replacement forward in place: wrong when the replacement lies inside the string itself and starts
// before the replaced range (only needed until the repair design/patches/C04-42 is committed)
constexpr char const* tag_replace_overlap = "string.replace.self_overlap";
// find / find_first_of / find_last_of / find_last_not_of / contains compare characters with the built-in == instead of
// Traits::eq: only visible with user-supplied traits (needed until design/patches/C04-43 is committed)
constexpr char const* tag_search_traits = "string.search.traits_eq";

} // namespace c04
