// C10 (parsing half) — text -> integer: etl::from_chars, etl::strings::to_integer (all option combinations),
// etl::strtol/strtoll/strtoul/strtoull, etl::atoi/atol/atoll, etl::stoi/stol/stoll/stoul/stoull.
// Engine E2 (all strings up to length 4 over a 12-character alphabet; every integer in a window around the limits of
// every type, rendered in every base) + grammar-generated strings from a seeded vf::Rng.
// Oracles: std::from_chars, glibc strto*, std::sto*.
//
// What is compared (only what each etl function returns / what the std counterpart specifies):
//   * from_chars<T>: error class (ok / invalid_argument / result_out_of_range); ok: value and ptr; invalid: ptr == first;
//     both error classes: value unmodified; out of range: ptr (past the digits) — masked while the known finding
//     "from_chars.overflow_ptr" is excluded.
//   * strings::to_integer<T,{skip_whitespace,check_overflow}>: model = (skip " \t\n\v\f\r" if asked) + std::from_chars.
//     error class; ok: value and end; invalid_input: end == begin (the "nothing consumed" answer strtol forwards);
//     overflow: `end` is undocumented (the unit tests pin end == begin) and not compared.  With check_overflow == false
//     only inputs whose value is representable are run (anything else is signed overflow, i.e. outside the contract).
//   * strto*: value and consumed count (*last - str) against glibc, for base 0 and 2..36.  No errno exists in tetl, so the
//     out-of-range class is observable only through the saturated value and the end pointer, which is what is compared.
//   * ato*: value against glibc for inputs whose value is representable (C leaves the rest undefined).
//   * sto*: value and *pos when std::sto* returns; *pos == 0 when std throws invalid_argument; nothing when std throws
//     out_of_range (tetl has no channel for it).
// Input bytes live in an exact-size heap block (no terminator for the string_view / pointer-pair functions), so ASan
// reports any read outside the input.
#include <etl/charconv.hpp>
#include <etl/cstdlib.hpp>
#include <etl/string.hpp>
#include <etl/string_view.hpp>
#include <etl/strings.hpp>

#include <cerrno>
#include <cstdarg>
#include <charconv>
#include <climits>
#include <limits>
#include <stdexcept>
#include <string>
#include <type_traits>

#include "verif.hpp"

// libubsan has its own copy of the sanitizer runtime: a fatal UBSan report does not run the death callback the engine
// registers with ASan.  This weak hook is called by libubsan before it prints a report (all reports are fatal here:
// -fno-sanitize-recover), so the in-flight case still reaches the fragment.
#if !defined(VF_HAS_UBSAN_HOOK)
extern "C" void __ubsan_on_report(void) { vf::on_death(); }
#endif

namespace {

using i128 = __int128;
using u128 = unsigned __int128;

#define C10_TYPES(X)                                                                                                   \
    X(char, "char")                                                                                                    \
    X(signed char, "i8")                                                                                               \
    X(unsigned char, "u8")                                                                                             \
    X(short, "i16")                                                                                                    \
    X(unsigned short, "u16")                                                                                           \
    X(int, "i32")                                                                                                      \
    X(unsigned, "u32")                                                                                                 \
    X(long, "l")                                                                                                       \
    X(unsigned long, "ul")                                                                                             \
    X(long long, "ll")                                                                                                 \
    X(unsigned long long, "ull")

template <typename T>
constexpr auto tname() -> char const*;
#define X(T, N)                                                                                                        \
    template <>                                                                                                        \
    constexpr auto tname<T>() -> char const*                                                                           \
    {                                                                                                                  \
        return N;                                                                                                      \
    }
C10_TYPES(X)
#undef X

struct TypeInfo {
    char const* name;
    i128 mn;
    i128 mx;
};
template <typename T>
constexpr auto tinfo() -> TypeInfo
{
    return TypeInfo{tname<T>(), static_cast<i128>(std::numeric_limits<T>::min()), static_cast<i128>(std::numeric_limits<T>::max())};
}
#define X(T, N) tinfo<T>(),
TypeInfo const g_types[] = {C10_TYPES(X)};
#undef X
constexpr int kNumTypes = 11;
auto type_by_name(std::string const& n) -> TypeInfo const*
{
    for (auto const& t : g_types) {
        if (n == t.name) { return &t; }
    }
    return nullptr;
}

// ---------------------------------------------------------------------------------------------- cases
struct Case {
    std::string fn; // from_chars | to_integer_ws{0,1}_ov{0,1} | strtol strtoll strtoul strtoull | atoi atol atoll | stoi stol stoll stoul stoull
    std::string ty; // type tag for from_chars / to_integer, "-" otherwise
    int base{10};
    std::string s; // raw bytes
    int shape{0}; // set by run_case from the suffix of fn: 0 = every argument explicit; 1 = ".d" from_chars(first,last,value) / to_integer<T>(str) /
                  // ".p" sto*(str, &pos): base (and options) defaulted; 2 = ".s" sto*(str): pos and base defaulted
    bool null{false}; // the input is the valid empty range [nullptr, nullptr) (only for the pointer-pair / string_view functions; s is empty)
};
auto pct(std::string const& s) -> std::string
{
    std::string o;
    for (unsigned char c : s) {
        if (c > 0x20 && c < 0x7f && c != '%') {
            o += static_cast<char>(c);
        } else {
            char b[8];
            std::snprintf(b, sizeof b, "%%%02X", c);
            o += b;
        }
    }
    return o;
}
auto unpct(std::string const& s) -> std::string
{
    std::string o;
    for (std::size_t i = 0; i < s.size(); ++i) {
        if (s[i] == '%' && i + 2 < s.size()) {
            o += static_cast<char>(std::strtol(s.substr(i + 1, 2).c_str(), nullptr, 16));
            i += 2;
        } else {
            o += s[i];
        }
    }
    return o;
}
auto show_case(Case const& k) -> std::string { return k.fn + " " + k.ty + " " + std::to_string(k.base) + (k.null ? std::string(" null") : " s=" + pct(k.s)); }

auto vis(std::string const& full) -> std::string
{
    // long inputs are abbreviated (deterministically) so that a detail string stays readable
    std::string s = full;
    if (s.size() > 100) { s = full.substr(0, 30) + "...(" + std::to_string(full.size()) + " bytes in total)..." + full.substr(full.size() - 44); }
    std::string o = "\"";
    for (unsigned char c : s) {
        if (c >= 0x20 && c < 0x7f && c != '"' && c != '\\') {
            o += static_cast<char>(c);
        } else {
            char b[8];
            std::snprintf(b, sizeof b, "\\x%02x", c);
            o += b;
        }
    }
    return o + "\"";
}
template <typename T>
auto vstr(T v) -> std::string
{
    if constexpr (std::is_signed_v<T>) {
        return std::to_string(static_cast<long long>(v));
    } else {
        return std::to_string(static_cast<unsigned long long>(v));
    }
}

// exact-size heap copy of the input (ASan red zone directly behind the last byte); with terminator for the C functions
struct Block {
    char* raw{nullptr};
    char* p{nullptr};
    std::size_t n{0};
    Block(std::string const& s, bool terminate, bool nullRange = false)
    {
        if (nullRange) { return; } // p == nullptr, n == 0
        n             = s.size();
        auto const sz = n + (terminate ? 1 : 0);
        if (sz == 0) {
            raw = static_cast<char*>(std::malloc(16)); // malloc(0) is a 1-byte block under ASan: use an end position instead
            p   = raw + 16;
        } else {
            raw = static_cast<char*>(std::malloc(sz));
            p   = raw;
            std::memcpy(p, s.data(), n);
            if (terminate) { p[n] = '\0'; }
        }
    }
    ~Block() { std::free(raw); }
    Block(Block const&)                    = delete;
    auto operator=(Block const&) -> Block& = delete;
};

auto c_isspace(char c) -> bool { return c == ' ' || c == '\t' || c == '\n' || c == '\v' || c == '\f' || c == '\r'; }

enum Cls { Ok, Invalid, Range };
char const* const cls_names[] = {"ok", "invalid", "out-of-range"};
auto cls_of(std::errc e) -> Cls { return e == std::errc{} ? Ok : (e == std::errc::invalid_argument ? Invalid : Range); }
auto cls_of(etl::errc e) -> int
{
    if (e == etl::errc{}) { return Ok; }
    if (e == etl::errc::invalid_argument) { return Invalid; }
    if (e == etl::errc::result_out_of_range) { return Range; }
    return 3;
}

// ---------------------------------------------------------------------------------------------- statistics
struct Local {
    std::uint64_t total{0}, okc{0}, inv{0}, rng{0}, sign{0}, plus{0}, ws{0}, tail{0}, limit{0}, highByte{0}, leadZero{0}, empty{0}, upper{0}, nonDec{0}, ntEnum{0};
};
Local g_loc;
struct Meta { // what the generator knows about a string (labels + non-trivial rule)
    bool validDigit{false}, sign{false}, plus{false}, ws{false}, tail{false}, limit{false}, highByte{false}, leadZero{false}, upper{false};
    bool countNt{true}; // false: non-trivial by the rule, but possibly produced by another enumeration as well (not counted twice)
};
void flush_stats(char const* src)
{
    // one histogram per case source (short = all short strings, window = integers around the limits, grammar = random
    // strings): generator health is read from the grammar rows
    auto put = [src](char const* n, std::uint64_t hit, std::uint64_t of) {
        if (of == 0) { return; }
        auto& c = vf::stats().classes[std::string("parse.") + src + "." + n];
        c.first += hit;
        c.second += of;
    };
    put("oracle_ok", g_loc.okc, g_loc.total);
    put("oracle_invalid", g_loc.inv, g_loc.total);
    put("oracle_out_of_range", g_loc.rng, g_loc.total);
    put("minus_sign", g_loc.sign, g_loc.total);
    put("plus_sign", g_loc.plus, g_loc.total);
    put("leading_whitespace", g_loc.ws, g_loc.total);
    put("garbage_tail", g_loc.tail, g_loc.total);
    put("at_limit_pm_one_unit_or_digit", g_loc.limit, g_loc.total);
    put("byte_ge_0x80", g_loc.highByte, g_loc.total);
    put("leading_zeros", g_loc.leadZero, g_loc.total);
    put("empty_or_no_digits", g_loc.empty, g_loc.total);
    put("upper_case_digits", g_loc.upper, g_loc.total);
    put("base_not_10", g_loc.nonDec, g_loc.total);
    vf::nontrivial_count(g_loc.ntEnum);
    g_loc = Local{};
}
int g_lastCls = Ok; // oracle class of the case just executed (for the statistics)

auto fmt(char const* f, ...) -> std::string __attribute__((format(printf, 1, 2)));
auto fmt(char const* f, ...) -> std::string
{
    char b[768];
    va_list ap;
    va_start(ap, f);
    std::vsnprintf(b, sizeof b, f, ap);
    va_end(ap);
    return b;
}

// ---------------------------------------------------------------------------------------------- from_chars
template <typename T>
auto chk_from_chars(Case const& k) -> std::string
{
    Block b(k.s, false, k.null);
    T const sentinel = static_cast<T>(0x5A5A5A5A5A5A5A5AULL);
    T ev             = sentinel;
    T sv             = sentinel;
    auto const* const f = static_cast<char const*>(b.p);
    auto const* const l = static_cast<char const*>(b.p + b.n);
    auto const sr       = k.shape == 0 ? std::from_chars(f, l, sv, k.base) : std::from_chars(f, l, sv);
    auto const er       = k.shape == 0 ? etl::from_chars(f, l, ev, k.base) : etl::from_chars(f, l, ev);
    int const sc     = cls_of(sr.ec);
    int const ec     = cls_of(er.ec);
    g_lastCls        = sc;
    auto const so    = static_cast<long>(sr.ptr - b.p);
    auto const eo    = static_cast<long>(er.ptr - b.p);
    if (sc != ec) {
        return fmt("from_chars<%s>(%s, base %d): std %s (value %s, consumed %ld), etl %s (ec=%d, value %s, consumed %ld)", tname<T>(), vis(k.s).c_str(), k.base, cls_names[sc], sc == Ok ? vstr(sv).c_str() : "-", so,
            ec < 3 ? cls_names[ec] : "other", static_cast<int>(er.ec), ec == Ok ? vstr(ev).c_str() : "-", eo);
    }
    if (sc == Ok) {
        if (ev != sv || eo != so) { return fmt("from_chars<%s>(%s, base %d): std value %s consumed %ld, etl value %s consumed %ld", tname<T>(), vis(k.s).c_str(), k.base, vstr(sv).c_str(), so, vstr(ev).c_str(), eo); }
        return "";
    }
    if (ev != sentinel) { return fmt("from_chars<%s>(%s, base %d): %s, but etl modified the value (now %s)", tname<T>(), vis(k.s).c_str(), k.base, cls_names[sc], vstr(ev).c_str()); }
    if (sc == Invalid) {
        if (eo != 0) { return fmt("from_chars<%s>(%s, base %d): invalid_argument but etl ptr != first (offset %ld)", tname<T>(), vis(k.s).c_str(), k.base, eo); }
        return "";
    }
    // out of range: [charconv.from.chars]/1: ptr points past the characters matching the pattern
    if (vf::ctx().excluded("from_chars.overflow_ptr")) {
        vf::excluded_known("from_chars.overflow_ptr");
        return "";
    }
    if (eo != so) { return fmt("from_chars<%s>(%s, base %d): result_out_of_range: std ptr is first+%ld (past the digits), etl ptr is first+%ld", tname<T>(), vis(k.s).c_str(), k.base, so, eo); }
    return "";
}

// ---------------------------------------------------------------------------------------------- to_integer
template <typename T, bool WS, bool OV>
auto chk_to_integer(Case const& k) -> std::string
{
    Block b(k.s, false, k.null);
    char const* q = b.p;
    if (WS) {
        while (q != b.p + b.n && c_isspace(*q)) { ++q; }
    }
    T sv          = T{};
    auto const sr = std::from_chars(q, static_cast<char const*>(b.p + b.n), sv, k.base);
    int const sc  = cls_of(sr.ec);
    g_lastCls     = sc;
    if (!OV && sc == Range) { return ""; } // outside the contract of check_overflow = false
    constexpr auto opts = etl::strings::to_integer_options{.skip_whitespace = WS, .check_overflow = OV};
    auto const r        = (k.shape != 0 && WS && OV) ? etl::strings::to_integer<T>(etl::string_view{b.p, b.n}) : etl::strings::to_integer<T, opts>(etl::string_view{b.p, b.n}, static_cast<T>(k.base));
    int const ec        = r.error == etl::strings::to_integer_error::none ? Ok : (r.error == etl::strings::to_integer_error::invalid_input ? Invalid : (r.error == etl::strings::to_integer_error::overflow ? Range : 3));
    auto const so       = static_cast<long>(sr.ptr - b.p);
    char const* name    = k.fn.c_str();
    if (sc != ec) {
        return fmt("%s<%s>(%s, base %d): model (std::from_chars%s) %s (value %s, end %ld), etl %s (value %s)", name, tname<T>(), vis(k.s).c_str(), k.base, WS ? " after whitespace" : "", cls_names[sc], sc == Ok ? vstr(sv).c_str() : "-", so,
            ec < 3 ? cls_names[ec] : "other", ec == Ok ? vstr(r.value).c_str() : "-");
    }
    if (sc == Ok) {
        auto const eo = static_cast<long>(r.end - b.p);
        if (r.value != sv || eo != so) { return fmt("%s<%s>(%s, base %d): model value %s end %ld, etl value %s end %ld", name, tname<T>(), vis(k.s).c_str(), k.base, vstr(sv).c_str(), so, vstr(r.value).c_str(), eo); }
        return "";
    }
    if (sc == Invalid && r.end != b.p) { return fmt("%s<%s>(%s, base %d): invalid_input but end != begin", name, tname<T>(), vis(k.s).c_str(), k.base); }
    return "";
}

// ---------------------------------------------------------------------------------------------- C family: input classes of the known findings
struct CClass {
    bool plus{false};      // '+' sign in front of at least one digit
    bool minus{false};     // '-' sign in front of at least one digit
    bool hexPrefix{false}; // 0x / 0X consumed as a prefix (base 16 or base 0)
};
auto classify(std::string const& s, int base, std::size_t consumed) -> CClass
{
    CClass c;
    std::size_t i = 0;
    while (i < s.size() && c_isspace(s[i])) { ++i; }
    if (consumed == 0 || i >= s.size()) { return c; }
    if (s[i] == '+') {
        c.plus = true;
        ++i;
    } else if (s[i] == '-') {
        c.minus = true;
        ++i;
    }
    if ((base == 16 || base == 0) && i + 1 < s.size() && s[i] == '0' && (s[i + 1] == 'x' || s[i + 1] == 'X') && consumed > i + 2) { c.hexPrefix = true; }
    return c;
}
// returns the tag of an excluded known-finding class this case belongs to (nullptr: none)
auto excluded_class(CClass const& c, bool isUnsigned, bool range, bool checksRange) -> char const*
{
    auto& x = vf::ctx();
    if (c.plus && x.excluded("strtol.plus_sign")) { return "strtol.plus_sign"; }
    if (c.hexPrefix && x.excluded("strtol.hex_prefix")) { return "strtol.hex_prefix"; }
    if (isUnsigned && c.minus && x.excluded("strtoul.minus_sign")) { return "strtoul.minus_sign"; }
    if (checksRange && range && x.excluded("strtol.overflow_saturation")) { return "strtol.overflow_saturation"; }
    return nullptr;
}

template <typename R, typename EtlF, typename StdF>
auto chk_strto(Case const& k, EtlF etlf, StdF stdf) -> std::string
{
    if (k.base == 0 && vf::ctx().excluded("strtol.base0")) { // etl divides by zero for base 0: never executed while the finding is open
        vf::excluded_known("strtol.base0");
        return "";
    }
    Block b(k.s, true);
    char* send = nullptr;
    errno      = 0;
    R const sv = stdf(b.p, &send, k.base);
    bool range = errno == ERANGE;
    auto so    = static_cast<long>(send - b.p);
    g_lastCls  = range ? Range : (so == 0 ? Invalid : Ok);
    auto cc    = classify(k.s, k.base, static_cast<std::size_t>(so));
    if (auto const* tag = excluded_class(cc, std::is_unsigned_v<R>, range, true)) {
        vf::excluded_known(tag);
        return "";
    }
    char const* elast = nullptr;
    R const ev        = etlf(static_cast<char const*>(b.p), &elast, k.base);
    auto eo           = static_cast<long>(elast - b.p);
    if (ev != sv || eo != so) {
        return fmt("%s(%s, base %d): glibc returns %s, consumed %ld%s; etl returns %s, consumed %ld", k.fn.c_str(), vis(k.s).c_str(), k.base, vstr(sv).c_str(), so, range ? " (ERANGE)" : "", vstr(ev).c_str(), eo);
    }
    // a null `last` must be accepted as well
    R const ev2 = etlf(static_cast<char const*>(b.p), nullptr, k.base);
    if (ev2 != sv) { return fmt("%s(%s, nullptr, base %d): glibc returns %s, etl returns %s", k.fn.c_str(), vis(k.s).c_str(), k.base, vstr(sv).c_str(), vstr(ev2).c_str()); }
    return "";
}

template <typename R, typename EtlF>
auto chk_ato(Case const& k, EtlF etlf) -> std::string
{
    Block b(k.s, true);
    char* send         = nullptr;
    errno              = 0;
    long long const sv = ::strtoll(b.p, &send, 10);
    bool range         = errno == ERANGE || sv < static_cast<long long>(std::numeric_limits<R>::min()) || sv > static_cast<long long>(std::numeric_limits<R>::max());
    auto so            = static_cast<long>(send - b.p);
    g_lastCls          = range ? Range : (so == 0 ? Invalid : Ok);
    if (range) { return ""; } // undefined in C
    auto cc = classify(k.s, 10, static_cast<std::size_t>(so));
    if (auto const* tag = excluded_class(cc, false, false, false)) {
        vf::excluded_known(tag);
        return "";
    }
    R const ev = etlf(static_cast<char const*>(b.p));
    if (ev != static_cast<R>(sv)) { return fmt("%s(%s): glibc returns %s, etl returns %s", k.fn.c_str(), vis(k.s).c_str(), vstr(static_cast<R>(sv)).c_str(), vstr(ev).c_str()); }
    return "";
}

template <typename R, typename EtlF, typename StdF>
auto chk_sto(Case const& k, EtlF etlf, StdF stdf) -> std::string
{
    if (k.base == 0 && vf::ctx().excluded("strtol.base0")) {
        vf::excluded_known("strtol.base0");
        return "";
    }
    std::string const str = k.s.substr(0, k.s.find('\0')); // std::sto* works on c_str()
    Block b(str, false, k.null);
    std::size_t spos = 0;
    R sv             = R{};
    int sc           = Ok;
    try {
        sv = stdf(str, &spos, k.base, 0); // value, position and error class of the fully spelled call (std defines the defaults as base 10, pos nullptr)
        if (k.shape != 0) { sv = stdf(str, &spos, k.base, k.shape); } // the std call of the same shape (spos is left alone by shape 2)
    } catch (std::invalid_argument const&) {
        sc = Invalid;
    } catch (std::out_of_range const&) {
        sc = Range;
    }
    g_lastCls = sc;
    if (sc == Range) { return ""; } // etl::sto* has no way to report it
    auto cc = classify(str, k.base, spos);
    if (auto const* tag = excluded_class(cc, std::is_unsigned_v<R>, false, false)) {
        vf::excluded_known(tag);
        return "";
    }
    etl::size_t epos = 12345;
    R const ev       = etlf(etl::string_view{b.p, b.n}, &epos, k.base, k.shape);
    if (k.shape == 2) { epos = sc == Invalid ? 0 : spos; } // no position is reported by this shape
    if (sc == Invalid) {
        if (epos != 0) { return fmt("%s(%s, base %d): std throws invalid_argument (nothing to convert), etl reports %zu characters processed", k.fn.c_str(), vis(str).c_str(), k.base, static_cast<std::size_t>(epos)); }
        return "";
    }
    if (ev != sv || epos != spos) { return fmt("%s(%s, base %d): std returns %s, pos %zu; etl returns %s, pos %zu", k.fn.c_str(), vis(str).c_str(), k.base, vstr(sv).c_str(), spos, vstr(ev).c_str(), static_cast<std::size_t>(epos)); }
    if (k.shape == 2) { return ""; }
    R const ev2 = etlf(etl::string_view{b.p, b.n}, nullptr, k.base, k.shape);
    if (ev2 != sv) { return fmt("%s(%s, nullptr, base %d): std returns %s, etl returns %s", k.fn.c_str(), vis(str).c_str(), k.base, vstr(sv).c_str(), vstr(ev2).c_str()); }
    return "";
}

// ---------------------------------------------------------------------------------------------- dispatch
auto strip_shape(std::string const& fn) -> std::string { return fn.substr(0, fn.find('.')); }
auto sub_of(std::string const& fnWithShape) -> char const*
{
    auto const fn = strip_shape(fnWithShape);
    if (fn == "from_chars") { return "from_chars"; }
    if (fn.rfind("to_integer", 0) == 0) { return "to_integer"; }
    if (fn.rfind("strto", 0) == 0) { return "strto"; }
    if (fn.rfind("ato", 0) == 0) { return "ato"; }
    return "sto";
}

template <typename T>
auto run_typed(Case const& k) -> std::string
{
    if (k.fn == "from_chars") { return chk_from_chars<T>(k); }
    if (k.fn == "to_integer_ws1_ov1") { return chk_to_integer<T, true, true>(k); }
    if (k.fn == "to_integer_ws0_ov1") { return chk_to_integer<T, false, true>(k); }
    if (k.fn == "to_integer_ws1_ov0") { return chk_to_integer<T, true, false>(k); }
    if (k.fn == "to_integer_ws0_ov0") { return chk_to_integer<T, false, false>(k); }
    return "unknown function in case: " + k.fn;
}

auto run_case_explicit(Case const& k) -> std::string;
// fn may carry a call-shape suffix (".d", ".p", ".s": arguments left to their defaults, only generated with base 10)
auto run_case(Case const& given) -> std::string
{
    auto const dot = given.fn.find('.');
    if (dot == std::string::npos) { return run_case_explicit(given); }
    Case k         = given;
    auto const sfx = given.fn.substr(dot);
    k.fn           = given.fn.substr(0, dot);
    bool const sto = k.fn.rfind("sto", 0) == 0;
    if (sfx == ".d" && (k.fn == "from_chars" || k.fn == "to_integer_ws1_ov1")) {
        k.shape = 1;
    } else if (sfx == ".p" && sto) {
        k.shape = 1;
    } else if (sfx == ".s" && sto) {
        k.shape = 2;
    } else {
        return "unknown call shape in case: " + given.fn;
    }
    if (k.base != 10) { return "a defaulted base means base 10: " + given.fn; }
    auto d = run_case_explicit(k);
    if (!d.empty()) { d += std::string(" [call shape ") + given.fn + ": " + (sfx == ".s" ? "pos and base" : (sfx == ".p" ? "base" : (k.fn == "from_chars" ? "base" : "base and options"))) + " left to the default]"; }
    return d;
}
auto run_case_explicit(Case const& k) -> std::string
{
    if (k.ty != "-") {
        if (k.base < 2 || k.base > 36) { return "base outside 2..36 in a from_chars/to_integer case"; }
#define X(T, N)                                                                                                        \
    if (k.ty == (N)) { return run_typed<T>(k); }
        C10_TYPES(X)
#undef X
        return "unknown type in case: " + k.ty;
    }
    if (!(k.base == 0 || (k.base >= 2 && k.base <= 36))) { return "invalid base in case"; }
    if (k.fn == "strtol") { return chk_strto<long>(k, [](char const* s, char const** e, int b) { return etl::strtol(s, e, b); }, [](char const* s, char** e, int b) { return ::strtol(s, e, b); }); }
    if (k.fn == "strtoll") { return chk_strto<long long>(k, [](char const* s, char const** e, int b) { return etl::strtoll(s, e, b); }, [](char const* s, char** e, int b) { return ::strtoll(s, e, b); }); }
    if (k.fn == "strtoul") { return chk_strto<unsigned long>(k, [](char const* s, char const** e, int b) { return etl::strtoul(s, e, b); }, [](char const* s, char** e, int b) { return ::strtoul(s, e, b); }); }
    if (k.fn == "strtoull") { return chk_strto<unsigned long long>(k, [](char const* s, char const** e, int b) { return etl::strtoull(s, e, b); }, [](char const* s, char** e, int b) { return ::strtoull(s, e, b); }); }
    if (k.fn == "atoi") { return chk_ato<int>(k, [](char const* s) { return etl::atoi(s); }); }
    if (k.fn == "atol") { return chk_ato<long>(k, [](char const* s) { return etl::atol(s); }); }
    if (k.fn == "atoll") { return chk_ato<long long>(k, [](char const* s) { return etl::atoll(s); }); }
    if (k.fn == "stoi") {
        return chk_sto<int>(
            k, [](etl::string_view s, etl::size_t* p, int b, int shape) { return shape == 2 ? etl::stoi(s) : (shape == 1 ? etl::stoi(s, p) : etl::stoi(s, p, b)); },
            [](std::string const& s, std::size_t* p, int b, int shape) { return shape == 2 ? std::stoi(s) : (shape == 1 ? std::stoi(s, p) : std::stoi(s, p, b)); });
    }
    if (k.fn == "stol") {
        return chk_sto<long>(
            k, [](etl::string_view s, etl::size_t* p, int b, int shape) { return shape == 2 ? etl::stol(s) : (shape == 1 ? etl::stol(s, p) : etl::stol(s, p, b)); },
            [](std::string const& s, std::size_t* p, int b, int shape) { return shape == 2 ? std::stol(s) : (shape == 1 ? std::stol(s, p) : std::stol(s, p, b)); });
    }
    if (k.fn == "stoll") {
        return chk_sto<long long>(
            k, [](etl::string_view s, etl::size_t* p, int b, int shape) { return shape == 2 ? etl::stoll(s) : (shape == 1 ? etl::stoll(s, p) : etl::stoll(s, p, b)); },
            [](std::string const& s, std::size_t* p, int b, int shape) { return shape == 2 ? std::stoll(s) : (shape == 1 ? std::stoll(s, p) : std::stoll(s, p, b)); });
    }
    if (k.fn == "stoul") {
        return chk_sto<unsigned long>(
            k, [](etl::string_view s, etl::size_t* p, int b, int shape) { return shape == 2 ? etl::stoul(s) : (shape == 1 ? etl::stoul(s, p) : etl::stoul(s, p, b)); },
            [](std::string const& s, std::size_t* p, int b, int shape) { return shape == 2 ? std::stoul(s) : (shape == 1 ? std::stoul(s, p) : std::stoul(s, p, b)); });
    }
    if (k.fn == "stoull") {
        return chk_sto<unsigned long long>(
            k, [](etl::string_view s, etl::size_t* p, int b, int shape) { return shape == 2 ? etl::stoull(s) : (shape == 1 ? etl::stoull(s, p) : etl::stoull(s, p, b)); },
            [](std::string const& s, std::size_t* p, int b, int shape) { return shape == 2 ? std::stoull(s) : (shape == 1 ? std::stoull(s, p) : std::stoull(s, p, b)); });
    }
    return "unknown function in case: " + k.fn;
}

// executes one case inside the run; returns false after a mismatch (memory-only mode keeps going)
void exec1(Case const& k, Meta const& m, bool enumerated);
// every base-10 case is also run through the call shapes that leave base / pos / options to their defaults
void exec(Case const& k, Meta const& m, bool enumerated)
{
    exec1(k, m, enumerated);
    if (k.base != 10) { return; }
    Case d = k;
    if (k.fn == "from_chars" || k.fn == "to_integer_ws1_ov1") {
        d.fn = k.fn + ".d";
        exec1(d, m, enumerated);
    } else if (k.fn.rfind("sto", 0) == 0) {
        d.fn = k.fn + ".p";
        exec1(d, m, enumerated);
        d.fn = k.fn + ".s";
        exec1(d, m, enumerated);
    }
}
void exec1(Case const& k, Meta const& m, bool enumerated)
{
    char const* sub = sub_of(k.fn);
    vf::Flight<Case> fl(sub, k);
    g_lastCls  = Ok;
    auto const d = run_case(k);
    vf::eval(sub);
    ++g_loc.total;
    g_loc.okc += g_lastCls == Ok;
    g_loc.inv += g_lastCls == Invalid;
    g_loc.rng += g_lastCls == Range;
    g_loc.sign += m.sign;
    g_loc.plus += m.plus;
    g_loc.ws += m.ws;
    g_loc.tail += m.tail;
    g_loc.limit += m.limit;
    g_loc.highByte += m.highByte;
    g_loc.leadZero += m.leadZero;
    g_loc.empty += !m.validDigit;
    g_loc.upper += m.upper;
    g_loc.nonDec += k.base != 10;
    if (m.countNt && m.validDigit && (m.sign || m.plus || m.ws || m.limit || m.tail)) {
        if (enumerated) {
            ++g_loc.ntEnum; // enumerations never repeat a case: counted, not hashed
        } else {
            auto h = vf::fnv(k.fn);
            h      = vf::fnv(k.ty, h);
            h      = vf::mix(h, k.base);
            h      = vf::fnv(k.s, h);
            // thorough tier: keep one digest in four (the distinct count becomes a lower bound; keeps the fragments small)
            if (!vf::ctx().thorough() || (h & 3U) == 0) { vf::nontrivial(h); }
        }
        if (m.limit && (m.tail || m.ws)) {
            vf::sample(sub, [&] { return k.fn + (k.ty == "-" ? "" : "<" + k.ty + ">") + "(" + vis(k.s) + ", base " + std::to_string(k.base) + ") oracle class: " + cls_names[g_lastCls]; });
        }
    }
    if (!d.empty()) { vf::mismatch(sub, k, d); }
}

// ---------------------------------------------------------------------------------------------- rendering
auto digit_char(int d, bool upper) -> char { return static_cast<char>(d < 10 ? '0' + d : (upper ? 'A' : 'a') + (d - 10)); }
// casing: 0 lower, 1 upper, 2 mixed
auto render(u128 m, int base, int casing, vf::Rng* rng) -> std::string
{
    std::string o;
    do {
        int d      = static_cast<int>(m % static_cast<unsigned>(base));
        bool upper = casing == 1 || (casing == 2 && rng != nullptr && rng->below(2) == 0);
        o += digit_char(d, upper);
        m /= static_cast<unsigned>(base);
    } while (m != 0);
    std::reverse(o.begin(), o.end());
    return o;
}
auto render_signed(i128 v, int base, int casing) -> std::string
{
    if (v < 0) { return "-" + render(static_cast<u128>(-(v + 1)) + 1, base, casing, nullptr); }
    return render(static_cast<u128>(v), base, casing, nullptr);
}

// ---------------------------------------------------------------------------------------------- grammar
char const* const kFamilies[] = {"from_chars", "to_integer_ws1_ov1", "to_integer_ws0_ov1", "to_integer_ws1_ov0", "to_integer_ws0_ov0", "strtol", "strtoll", "strtoul", "strtoull", "atoi", "atol", "atoll", "stoi", "stol", "stoll", "stoul",
    "stoull"};
auto target_of(std::string const& fnWithShape) -> char const*
{
    auto const fn = fnWithShape.substr(0, fnWithShape.find('.'));
    if (fn == "strtol" || fn == "atol" || fn == "stol") { return "l"; }
    if (fn == "strtoll" || fn == "atoll" || fn == "stoll") { return "ll"; }
    if (fn == "strtoul" || fn == "stoul") { return "ul"; }
    if (fn == "strtoull" || fn == "stoull") { return "ull"; }
    if (fn == "atoi" || fn == "stoi") { return "i32"; }
    return nullptr;
}

auto gen_case(vf::Rng& rng, Meta& m) -> Case
{
    Case k;
    // family: from_chars 30 %, to_integer 25 %, strto 20 %, ato 8 %, sto 17 %
    auto const f = rng.below(100);
    if (f < 30) {
        k.fn = "from_chars";
    } else if (f < 55) {
        k.fn = kFamilies[1 + rng.below(4)];
    } else if (f < 75) {
        k.fn = kFamilies[5 + rng.below(4)];
    } else if (f < 83) {
        k.fn = kFamilies[9 + rng.below(3)];
    } else {
        k.fn = kFamilies[12 + rng.below(5)];
    }
    bool const cfamily = target_of(k.fn) != nullptr;
    bool const isAto   = k.fn.rfind("ato", 0) == 0;
    TypeInfo const* t  = cfamily ? type_by_name(target_of(k.fn)) : &g_types[rng.below(kNumTypes)];
    k.ty               = cfamily ? "-" : t->name;
    // base
    static int const common[] = {2, 8, 10, 16, 36};
    auto const bsel           = rng.below(100);
    if (isAto) {
        k.base = 10;
    } else if (bsel < 55) {
        k.base = common[rng.below(5)];
    } else if (bsel < 93 || !cfamily) {
        k.base = 2 + static_cast<int>(rng.below(35));
    } else {
        k.base = 0;
    }
    int rbase = k.base; // base the digits are rendered in
    std::string prefix;
    if (k.base == 0) {
        auto const p = rng.below(3);
        rbase        = p == 0 ? 10 : (p == 1 ? 8 : 16);
        prefix       = p == 0 ? "" : (p == 1 ? "0" : (rng.below(2) == 0 ? "0x" : "0X"));
    } else if (k.base == 16 ? rng.below(100) < 12 : rng.below(100) < 2) {
        prefix = rng.below(2) == 0 ? "0x" : "0X";
    }
    // body
    bool neg      = false;
    u128 mag      = 0;
    bool haveBody = true;
    std::string body;
    int const casing  = static_cast<int>(rng.below(3));
    u128 const posLim = static_cast<u128>(t->mx);
    u128 const negLim = static_cast<u128>(-(t->mn + 1)) + 1; // |min| (0 for unsigned: then 1 is used below)
    bool const sgn    = t->mn < 0;
    auto const kind   = rng.below(100);
    bool wantNeg      = sgn ? rng.below(2) == 0 : rng.below(100) < 12; // '-' in front of unsigned targets too
    u128 const lim    = (wantNeg && sgn) ? negLim : posLim;
    if (kind < 30) { // random value inside the range
        int const bits = 1 + static_cast<int>(rng.below(64));
        u128 r         = rng.next();
        if (bits < 64) { r &= ((u128(1) << bits) - 1); }
        mag = r % (lim + 1);
    } else if (kind < 38) {
        mag     = lim;
        m.limit = true;
    } else if (kind < 50) {
        mag     = lim + 1; // overflow by one unit
        m.limit = true;
    } else if (kind < 56) {
        mag     = lim - 1;
        m.limit = true;
    } else if (kind < 64) { // overflow by one digit: the limit's digits followed by one more digit
        body    = render(lim, rbase, casing, &rng) + digit_char(static_cast<int>(rng.below(static_cast<std::uint64_t>(rbase))), casing == 1);
        m.limit = true;
    } else if (kind < 68) { // one digit fewer than the limit
        mag     = lim / static_cast<unsigned>(rbase);
        m.limit = true;
    } else if (kind < 76) { // long random digit string (1..70 digits)
        auto const n = 1 + rng.below(70);
        for (std::uint64_t i = 0; i < n; ++i) { body += digit_char(static_cast<int>(rng.below(static_cast<std::uint64_t>(rbase))), casing == 1 || (casing == 2 && rng.below(2) == 0)); }
    } else if (kind < 84) { // no digits at all
        haveBody = false;
    } else if (kind < 90) { // first character is not a digit of this base
        static char const bad[] = {'g', 'z', 'Z', '/', ':', '@', '[', '`', '{', '.', '_', '\x80', '\xff', '9', '8', '2', 'a', 'A'};
        char ch                 = bad[rng.below(sizeof bad)];
        body                    = std::string(1, ch) + render(rng.below(1000), rbase, casing, &rng);
        haveBody                = false; // (may still be a valid digit in a large base: meta is only used for statistics)
        if (static_cast<unsigned char>(ch) >= 0x80) { m.highByte = true; }
    } else { // small values
        mag = rng.below(static_cast<std::uint64_t>(rbase) * static_cast<std::uint64_t>(rbase) + 1);
    }
    if (body.empty() && haveBody) { body = render(mag, rbase, casing, &rng); }
    neg = wantNeg;
    // leading zeros
    std::string zeros;
    auto const z = rng.below(100);
    if (z < 18) {
        zeros = std::string(1 + rng.below(3), '0');
    } else if (z < 22) { // long zero runs: around 64, 128, 256 and 512 digits in total (counter widths)
        static unsigned const lo[] = {60, 120, 245, 500};
        static unsigned const span[] = {20, 16, 80, 30};
        auto const w = rng.below(4);
        zeros        = std::string(lo[w] + rng.below(span[w]), '0');
    }
    // sign slot
    std::string sign;
    auto const sg = rng.below(100);
    if (neg) {
        sign = "-";
        if (sg < 3) { sign = "--"; }
        if (sg >= 3 && sg < 6) { sign = "- "; }
        if (sg >= 6 && sg < 8) { sign = "-+"; }
    } else if (sg < 22) {
        sign = "+";
        if (sg < 2) { sign = "+-"; }
        if (sg >= 2 && sg < 4) { sign = "+ "; }
    }
    // whitespace
    std::string ws;
    auto const w = rng.below(100);
    if (w < 28) {
        static char const sp[] = {' ', '\t', '\n', '\v', '\f', '\r'};
        auto const n           = 1 + rng.below(3);
        for (std::uint64_t i = 0; i < n; ++i) { ws += sp[rng.below(6)]; }
    } else if (w < 32) {
        static char const odd[] = {'\x1c', '\x1f', '\x08', '\xa0', '\x85', '\x7f'};
        ws += odd[rng.below(6)];
    }
    // tail
    std::string tail;
    auto const tl = rng.below(100);
    if (tl < 14) {
        tail = std::string(1, digit_char(rbase < 36 ? rbase : 35, rng.below(2) == 0)); // first digit that is not valid any more (or 'z')
        if (rbase == 36) { tail = "_"; }
    } else if (tl < 22) {
        static char const sp[] = {' ', '\t', '\n'};
        tail                   = std::string(1, sp[rng.below(3)]);
    } else if (tl < 34) {
        static char const pn[] = {'.', ',', '+', '-', '_', 'x', 'X', '/', ':', '@', '[', '`', '{'};
        tail                   = std::string(1, pn[rng.below(sizeof pn)]);
    } else if (tl < 42) {
        static char const hb[] = {'\x80', '\xff', '\xb0', '\xc1', '\xe1'}; // 0xb0 = '0'+0x80, 0xc1 = 'A'+0x80, 0xe1 = 'a'+0x80
        tail                   = std::string(1, hb[rng.below(5)]);
        m.highByte             = true;
    } else if (tl < 46 && !cfamily) {
        tail = std::string(1, '\0');
    }
    if (!tail.empty() && rng.below(2) == 0) { tail += render(rng.below(100), rbase, casing, &rng); }
    k.s = ws + sign + prefix + zeros + body + tail;
    // meta
    m.validDigit = haveBody || !zeros.empty();
    m.sign       = !sign.empty() && sign[0] == '-';
    m.plus       = !sign.empty() && sign[0] == '+';
    m.ws         = !ws.empty();
    m.tail       = !tail.empty();
    m.leadZero   = !zeros.empty();
    m.upper      = casing != 0 && rbase > 10;
    // a bare "-?digits" string (optionally followed by one blank) can also come out of the limit-window enumeration,
    // where it is counted: only decorated strings enter the distinct non-trivial count of the grammar
    m.countNt = !ws.empty() || m.plus || !zeros.empty() || !prefix.empty() || tail.size() > 1 || (tail.size() == 1 && tail[0] != ' ');
    return k;
}

void grammar(vf::Ctx& c)
{
    vf::Rng rng(c.seed);
#if defined(C10_PARSE_UCHAR)
    std::uint64_t const total = c.thorough() ? 4000000ULL : 400000ULL;
#else
    std::uint64_t const total = c.thorough() ? 16000000ULL : 1600000ULL;
#endif
    std::uint64_t const per   = total / static_cast<std::uint64_t>(c.nshards) + 1;
    for (std::uint64_t i = 0; i < per; ++i) {
        Meta m;
        Case k = gen_case(rng, m);
        exec(k, m, false);
    }
    flush_stats("grammar");
}

// ---------------------------------------------------------------------------------------------- exhaustive: short strings
void short_strings(vf::Ctx& c)
{
    static char const alpha[] = {' ', '-', '+', '0', '1', '7', '9', 'a', 'F', 'x', 'z', '\x80'};
    constexpr int A           = sizeof alpha;
    struct Target {
        char const* fn;
        char const* ty;
    };
    static Target const targets[] = {{"from_chars", "i8"}, {"from_chars", "u8"}, {"from_chars", "char"}, {"from_chars", "i32"}, {"from_chars", "ull"}, {"to_integer_ws1_ov1", "i8"}, {"to_integer_ws0_ov1", "u16"}, {"to_integer_ws1_ov0", "i32"},
        {"to_integer_ws0_ov0", "ul"}, {"strtol", "-"}, {"strtoll", "-"}, {"strtoul", "-"}, {"strtoull", "-"}, {"atoi", "-"}, {"atol", "-"}, {"atoll", "-"}, {"stoi", "-"}, {"stol", "-"}, {"stoll", "-"}, {"stoul", "-"}, {"stoull", "-"}};
    std::uint64_t idx = 0;
    int const maxLen  = 4;
    for (int len = 0; len <= maxLen; ++len) {
        std::uint64_t count = 1;
        for (int i = 0; i < len; ++i) { count *= A; }
        for (std::uint64_t code = 0; code < count; ++code) {
            if (!c.mine(idx++)) { continue; }
            std::string s;
            auto x = code;
            for (int i = 0; i < len; ++i) {
                s += alpha[x % A];
                x /= A;
            }
            Meta m;
            std::size_t p = 0;
            while (p < s.size() && s[p] == ' ') { ++p; }
            m.ws = p > 0;
            if (p < s.size() && s[p] == '-') {
                m.sign = true;
                ++p;
            } else if (p < s.size() && s[p] == '+') {
                m.plus = true;
                ++p;
            }
            m.validDigit = p < s.size() && (s[p] == '0' || s[p] == '1' || s[p] == '7' || s[p] == '9');
            m.tail       = m.validDigit && (s.back() == 'x' || s.back() == 'z' || s.back() == ' ' || s.back() == '\x80' || s.back() == '-' || s.back() == '+');
            m.highByte   = s.find('\x80') != std::string::npos;
            m.leadZero   = p + 1 < s.size() && s[p] == '0';
            // the limit windows below produce "-?digits" with an optional ' ' or '~' behind: count a short string only if it cannot be one of those
            m.countNt = m.ws || m.plus || (m.tail && s.back() != ' ');
            for (auto const& t : targets) {
                bool const isAto = std::string(t.fn).rfind("ato", 0) == 0;
                bool const cfam  = std::string(t.ty) == "-";
                for (int base : {10, 16, 36, 8, 0}) {
                    if (isAto && base != 10) { continue; }
                    if (base == 0 && !cfam) { continue; }
                    if (base == 8 && !cfam) { continue; }
                    Case k{t.fn, t.ty, base, s};
                    exec(k, m, true);
                    if (len == 0 && (!cfam || std::string(t.fn).rfind("sto", 0) == 0)) { // same call on the null empty range
                        k.null = true;
                        exec(k, m, true);
                    }
                }
            }
        }
    }
    flush_stats("short");
}

// ---------------------------------------------------------------------------------------------- exhaustive: windows around the limits, every base
void limit_windows(vf::Ctx& c)
{
    std::vector<int> allBases, fewBases{2, 8, 10, 16, 36};
    for (int b = 2; b <= 36; ++b) { allBases.push_back(b); }
    std::uint64_t idx = 0;
    auto window       = [&](char const* fn, char const* ty, TypeInfo const& t, int base, i128 lo, i128 hi) {
        if (!c.mine(idx++)) { return; }
        for (i128 v = lo; v <= hi; ++v) {
            Meta m;
            m.validDigit = true;
            m.sign       = v < 0;
            m.limit      = (v >= t.mx - 1 && v <= t.mx + 1) || (v >= t.mn - 1 && v <= t.mn + 1);
            int casing   = static_cast<int>(v & 1);
            m.upper      = casing == 1 && base > 10;
            Case k{fn, ty, base, render_signed(v, base, casing)};
            if ((v & 7) == 3) {
                k.s += (v & 8) ? " " : "~"; // a tail behind the number
                m.tail = true;
            }
            exec(k, m, true);
        }
    };
    // the eleven integer types through from_chars and to_integer
    for (auto const& t : g_types) {
        bool const small  = t.mx <= 255;
        bool const medium = !small && t.mx <= 65535;
        auto const& bases = (small || medium || c.thorough()) ? allBases : fewBases;
        for (int base : bases) {
            for (char const* fn : {"from_chars", "to_integer_ws1_ov1", "to_integer_ws0_ov0"}) {
                if (small) {
                    window(fn, t.name, t, base, -700, 700);
                } else if (medium) {
                    for (i128 lo = -70000; lo < 70000; lo += 10000) { window(fn, t.name, t, base, lo, lo + 9999); }
                } else {
                    i128 const w = 260;
                    window(fn, t.name, t, base, t.mx - w, t.mx + w);
                    window(fn, t.name, t, base, t.mn - w, t.mn + w);
                    if (t.mn < 0) { window(fn, t.name, t, base, -w, w); }
                    window(fn, t.name, t, base, t.mx / base - w, t.mx / base + w);
                }
            }
        }
    }
    // the C / std::string style functions around their own limits
    for (char const* fn : {"strtol", "strtoll", "strtoul", "strtoull", "atoi", "atol", "atoll", "stoi", "stol", "stoll", "stoul", "stoull"}) {
        TypeInfo const& t = *type_by_name(target_of(fn));
        bool const isAto  = std::string(fn).rfind("ato", 0) == 0;
        for (int base : (c.thorough() ? allBases : fewBases)) {
            if (isAto && base != 10) { continue; }
            i128 const w = 130;
            window(fn, "-", t, base, t.mx - w, t.mx + w);
            window(fn, "-", t, base, t.mn - w, t.mn + w);
            if (t.mn < 0) { window(fn, "-", t, base, -w, w); }
        }
    }
    flush_stats("window");
}

// ---------------------------------------------------------------------------------------------- exhaustive: long digit strings
// Leading zeros so that the TOTAL number of digit characters takes every value in windows around 64, 128, 256..330,
// 512 and 1024 (and, for a few targets, 65536): in-range, limit, limit +- 1 and one-digit-too-long bodies for every
// integer type in bases 2, 8, 10, 16, 36.  (A digit counter narrower than size_t wraps exactly there.)
void long_inputs(vf::Ctx& c)
{
    std::vector<int> lens;
    auto span = [&](int lo, int hi) {
        for (int i = lo; i <= hi; ++i) { lens.push_back(i); }
    };
    span(2, 40); // short totals: a few leading zeros in front of every body (up to 25 digits and beyond)
    span(60, 70);
    span(120, 135);
    span(250, 330);
    span(500, 530);
    span(1020, 1030);
    vf::Rng rng(c.seed ^ 0x10e6ULL);
    std::uint64_t idx = 0;
    auto family       = [&](char const* fn, char const* ty, TypeInfo const& t, int base, std::vector<int> const& totals, bool few) {
        u128 const posLim = static_cast<u128>(t.mx);
        u128 const negLim = t.mn < 0 ? static_cast<u128>(-(t.mn + 1)) + 1 : 0;
        struct Body {
            bool neg;
            std::string digits;
            bool limit;
        };
        std::vector<Body> bodies;
        bodies.push_back({false, render(posLim, base, 0, nullptr), true});
        bodies.push_back({false, render(posLim + 1, base, 1, nullptr), true});
        if (!few) {
            bodies.push_back({false, render(posLim - 1, base, 0, nullptr), true});
            bodies.push_back({false, render(posLim, base, 0, nullptr) + "0", true});
            bodies.push_back({false, render(posLim / static_cast<unsigned>(base) + 1, base, 1, nullptr) + digit_char(base - 1, false), true}); // same length as the limit, larger
            bodies.push_back({false, "1", false});
            bodies.push_back({false, render(rng.next() % (posLim + 1), base, 2, &rng), false});
            if (t.mn < 0) {
                bodies.push_back({true, render(negLim, base, 0, nullptr), true});
                bodies.push_back({true, render(negLim + 1, base, 1, nullptr), true});
                bodies.push_back({true, render(negLim, base, 0, nullptr) + "0", true});
                bodies.push_back({true, render(rng.next() % (negLim + 1), base, 2, &rng), false});
            }
        }
        for (int total : totals) {
            if (!c.mine(idx++)) { continue; }
            for (auto const& b : bodies) {
                if (static_cast<int>(b.digits.size()) > total) { continue; }
                Meta m;
                m.validDigit = true;
                m.leadZero   = true;
                m.sign       = b.neg;
                m.limit      = b.limit;
                Case k{fn, ty, base, std::string(b.neg ? "-" : "") + std::string(static_cast<std::size_t>(total) - b.digits.size(), '0') + b.digits};
                if ((total & 3) == 1) {
                    k.s += "g!";
                    m.tail = base <= 16;
                }
                exec(k, m, true);
            }
        }
    };
    for (int base : {2, 3, 7, 8, 10, 16, 36}) {
        for (auto const& t : g_types) {
            for (char const* fn : {"from_chars", "to_integer_ws1_ov1", "to_integer_ws0_ov1"}) { family(fn, t.name, t, base, lens, false); }
        }
        for (char const* fn : {"strtol", "strtoll", "strtoul", "strtoull", "atoi", "atol", "atoll", "stoi", "stol", "stoll", "stoul", "stoull"}) {
            if (std::string(fn).rfind("ato", 0) == 0 && base != 10) { continue; }
            family(fn, "-", *type_by_name(target_of(fn)), base, lens, false);
        }
    }
    // 16-bit counters: totals around 65536 for a few targets
    std::vector<int> big;
    for (int i = 65530; i <= 65605; ++i) { big.push_back(i); }
    for (int base : {2, 10, 16}) {
        for (char const* ty : {"u8", "i32", "u32", "ll", "ull"}) {
            family("from_chars", ty, *type_by_name(ty), base, big, true);
            family("to_integer_ws1_ov1", ty, *type_by_name(ty), base, big, true);
        }
    }
    flush_stats("long");
}

// ---------------------------------------------------------------------------------------------- exhaustive: every byte value
// Strings in which one or two positions range over ALL 256 byte values: every 1- and 2-byte string, every 3-byte
// string with one free byte and two bytes from {' ', '\t', '-', '+', '0', '1', '4', '9', 'a', 'Z'}, [any][any]['7'],
// and 4/5-byte strings with a free byte inside the leading run (" ?42", "? 42", "?-42", " ? -42", "12?3").
// Covers the neighbours of the whitespace set, of the digit/letter ranges and the bytes >= 0x80 in every position.
auto meta_of(std::string const& s) -> Meta
{
    Meta m;
    std::size_t p = 0;
    while (p < s.size() && c_isspace(s[p])) { ++p; }
    m.ws = p > 0;
    if (p < s.size() && s[p] == '-') {
        m.sign = true;
        ++p;
    } else if (p < s.size() && s[p] == '+') {
        m.plus = true;
        ++p;
    }
    m.validDigit = p < s.size() && s[p] >= '0' && s[p] <= '9';
    m.leadZero   = p + 1 < s.size() && s[p] == '0';
    bool odd     = false; // a byte that neither the short-string alphabet nor the limit windows can produce
    for (char ch : s) {
        auto const u = static_cast<unsigned char>(ch);
        if (u >= 0x80) { m.highByte = true; }
        bool const alnum = (u >= '0' && u <= '9') || (u >= 'a' && u <= 'z') || (u >= 'A' && u <= 'Z');
        if (!alnum && u != ' ' && u != '-' && u != '+' && u != '~' && u != 0x80) { odd = true; }
    }
    m.tail    = m.validDigit && !s.empty() && !((s.back() >= '0' && s.back() <= '9'));
    m.countNt = odd;
    return m;
}

void byte_strings(vf::Ctx& c)
{
    struct Target {
        char const* fn;
        char const* ty;
    };
    static Target const targets[] = {{"from_chars", "i8"}, {"from_chars", "char"}, {"from_chars", "u16"}, {"from_chars", "i32"}, {"from_chars", "ull"}, {"to_integer_ws1_ov1", "i32"}, {"to_integer_ws0_ov1", "u8"}, {"to_integer_ws1_ov0", "ll"},
        {"strtol", "-"}, {"strtoul", "-"}, {"strtoll", "-"}, {"strtoull", "-"}, {"atoi", "-"}, {"atol", "-"}, {"atoll", "-"}, {"stoi", "-"}, {"stol", "-"}, {"stoul", "-"}, {"stoull", "-"}};
    static char const S[]         = {' ', '\t', '-', '+', '0', '1', '4', '9', 'a', 'Z'};
    std::uint64_t idx             = 0;
    auto run = [&](std::string const& s, bool allBases) {
        if (!c.mine(idx++)) { return; }
        Meta const m = meta_of(s);
        for (auto const& t : targets) {
            bool const isAto = std::string(t.fn).rfind("ato", 0) == 0;
            for (int base : {10, 36, 16, 2}) {
                if (isAto && base != 10) { continue; }
                if (!allBases && base != 10 && base != 36) { continue; }
                Case k{t.fn, t.ty, base, s};
                exec(k, m, true);
            }
        }
    };
    auto ch = [](int b) { return static_cast<char>(static_cast<unsigned char>(b)); };
    for (int a = 0; a < 256; ++a) { run(std::string{ch(a)}, true); }
    for (int a = 0; a < 256; ++a) {
        for (int b = 0; b < 256; ++b) {
            run(std::string{ch(a), ch(b)}, false);
            run(std::string{ch(a), ch(b), '7'}, false);
        }
    }
    for (int a = 0; a < 256; ++a) {
        for (char x : S) {
            for (char y : S) {
                run(std::string{ch(a), x, y}, false);
                run(std::string{x, ch(a), y}, false);
                run(std::string{x, y, ch(a)}, false);
            }
        }
        for (char const* pat : {" ?42", "? 42", "?-42", "-?42", "?+42", " ? -42", "\t?\n42", "12?3", "1?23", "-12?", "0?10", "??42"}) {
            std::string s = pat;
            for (auto& q : s) {
                if (q == '?') { q = ch(a); }
            }
            run(s, true);
        }
    }
    flush_stats("bytes");
}

auto parse_case(std::string const& cs, Case& k) -> bool
{
    std::istringstream is(cs);
    std::string enc;
    if (!(is >> k.fn >> k.ty >> k.base >> enc)) { return false; }
    if (enc == "null") {
        k.null = true;
        return target_of(k.fn) == nullptr || k.fn.rfind("sto", 0) == 0; // a null char const* is not a valid argument of strto*/ato*
    }
    if (enc.rfind("s=", 0) != 0) { return false; }
    k.s = unpct(enc.substr(2));
    return true;
}

} // namespace

void vf_run(vf::Ctx& c)
{
#if defined(C10_PARSE_UCHAR)
    // second build configuration of this file (registry flags: -funsigned-char -DC10_PARSE_UCHAR=1): plain char is
    // unsigned, as on the ARM ABIs the library targets; library and oracles are compiled with the same flag.
    static_assert(std::is_unsigned_v<char>, "C10_PARSE_UCHAR must be built with -funsigned-char");
    byte_strings(c);
    short_strings(c);
    grammar(c);
#else
    static_assert(std::is_signed_v<char>, "the default configuration expects a signed plain char");
    byte_strings(c);
    short_strings(c);
    limit_windows(c);
    long_inputs(c);
    grammar(c);
#endif
}

std::string vf_replay(std::string const& sub, std::string const& cs)
{
    (void)sub;
    Case k;
    if (!parse_case(cs, k)) { return "unparsable case string: " + cs; }
    vf::Flight<Case> fl(sub_of(k.fn), k);
    return run_case(k);
}
