// C19 (mdspan part) — extents / layout_left / layout_right / layout_stride / layout_transpose mappings, mdspan and mdarray
// element access.  Engines E4 (generated table of extents<I, E...> instantiations, gen/C19_gen.py) + E2 (complete
// enumeration of every run-time shape of every instantiated type and of every multi-index of every shape).
//
// Case = (extents type, run-time shape, sub-check, stride variant); case string "<type> e=<e0,e1,..|-> v=<variant>",
// e.g. "i8[2,d,3] e=2,4,3 v=7" (type names: index type, then static extents or d).
//   quick: every dynamic extent takes every value 0..4, thorough 0..5 (shapes whose index space is not representable in
//   the index type are skipped - library precondition).
//
// Oracles (written independently of the library, in `long long` arithmetic):
//   row-major    offset = ((i0*e1 + i1)*e2 + i2)*e3 + i3            stride(r) = prod_{k>r} e_k
//   column-major offset = i0 + e0*(i1 + e1*(i2 + e2*i3))            stride(r) = prod_{k<r} e_k
//   strided      offset = sum_k i_k*s_k      required_span_size = any e_k==0 ? 0 : 1 + sum_k (e_k-1)*s_k
//   transposed   layout_transpose<L>::mapping<extents<e0,e1>>(i,j) = L::mapping<extents<e1,e0>>(j,i)
//   every offset < required_span_size, offsets pairwise distinct, &m(i...) == data + offset (and the value stored there
//   is read back); every view is backed by a heap block of exactly required_span_size elements (ASan red zones).
//
// Besides the small-scope enumeration, two value-range checks that touch no memory (generated C19_WIDE / C19_EQ entries):
//   "wide"     layout_left/right/stride required_span_size, stride(r) and sampled offsets for LARGE dynamic extents (up to
//              the limit of the index type, at most 2^62) against the closed forms in unsigned __int128;
//   "equality" operator== / != between extents and between layout_left/right mappings of different index types,
//              static/dynamic patterns and ranks with extent values around 2^7, 2^8, 2^15, 2^16, 2^31, 2^32 (equal iff same
//              rank and extents equal as integers, both operand orders).
//
// Also: "submdspan_extents" (every full_extent / index slice combination against [mdspan.sub.extents]) and, inside
// mdarray_left, swap / copy- / move-assignment / move-construction between two mdarrays of different run-time shape.
//
// Not part of the check on this tree (declared but never defined, or ill-formed when instantiated; the first two are
// probed at compile time, so they join the check as soon as they become defined):
//   layout_stride::mapping::required_span_size(), ::is_exhaustive(); its converting constructor and operator==;
//   layout_left/right::mapping(layout_stride::mapping const&); layout_stride::mapping<extents<I>>(ext, strides) for rank 0
//   (class template argument deduction of `array{}` fails); layout_transpose::mapping::is_(always_)contiguous();
//   mdspan copy assignment (implicitly deleted: the class declares a move constructor); mdspan::operator[](i, j, ...)
//   (needs C++23 multidimensional subscript); mdarray over layout_stride by size (needs required_span_size());
//   submdspan (commented out in the library); submdspan_extents with strided_slice (static_assert) or pair-like slices
//   (only integral-constant pairs over static extents are reachable, helper functions incomplete); mdspan swap /
//   assignment (no operator=, so etl::swap does not compile); accessor_conjugate (linalg accessor, outside the property).
//
// The same source is compiled once per part with -DC19_TABLE="C19_types_<part>.inc": each TU instantiates a slice of the
// type table (part 0 also checks the deduction guides, -DC19_CTAD).
#include <etl/linalg.hpp>
#include <etl/mdarray.hpp>
#include <etl/mdspan.hpp>
#include <etl/span.hpp>

#include <array>
#include <cstdarg>
#include <limits>
#include <memory>
#include <type_traits>
#include <utility>

#include "verif.hpp"

#ifndef C19_TABLE
    #error "compile with -DC19_TABLE=\"C19_types_<part>.inc\" (written by gen/C19_gen.py)"
#endif

namespace {

constexpr std::size_t D = etl::dynamic_extent;
using ll                = long long;

// ------------------------------------------------------------------------------------------------ case
struct Case {
    char const* type;
    int rank;
    ll e[4];
    int var;
};
auto show_case(Case const& k) -> std::string
{
    std::string s = k.type;
    s += " e=";
    if (k.rank == 0) { s += "-"; }
    for (int i = 0; i < k.rank; ++i) {
        if (i != 0) { s += ","; }
        s += std::to_string(k.e[i]);
    }
    s += " v=" + std::to_string(k.var);
    return s;
}

struct RunCtl {
    int maxext{3};
    bool filter{false};
    std::string fsub;
    int frank{0};
    ll fe[4]{0, 0, 0, 0};
    int fvar{0};
    bool matched{false};
};
RunCtl g_ctl;

// does the run want this (sub, shape, var)?  In run mode everything; in replay mode exactly one case.
auto want(char const* sub, Case const& k) -> bool
{
    if (!g_ctl.filter) { return true; }
    if (g_ctl.fsub != sub || g_ctl.frank != k.rank || g_ctl.fvar != k.var) { return false; }
    for (int i = 0; i < k.rank; ++i) {
        if (g_ctl.fe[i] != k.e[i]) { return false; }
    }
    g_ctl.matched = true;
    return true;
}

// ------------------------------------------------------------------------------------------------ oracle (no templates)
struct Shape {
    int rank;
    ll e[4];
};
auto prod(Shape const& s) -> ll
{
    ll p = 1;
    for (int i = 0; i < s.rank; ++i) { p *= s.e[i]; }
    return p;
}
auto has_zero(Shape const& s) -> bool
{
    for (int i = 0; i < s.rank; ++i) {
        if (s.e[i] == 0) { return true; }
    }
    return false;
}
void right_strides(Shape const& s, ll* st)
{
    for (int r = 0; r < s.rank; ++r) {
        ll p = 1;
        for (int k = r + 1; k < s.rank; ++k) { p *= s.e[k]; }
        st[r] = p;
    }
}
void left_strides(Shape const& s, ll* st)
{
    for (int r = 0; r < s.rank; ++r) {
        ll p = 1;
        for (int k = 0; k < r; ++k) { p *= s.e[k]; }
        st[r] = p;
    }
}
auto off_right(Shape const& s, int const* ix) -> ll // Horner, row-major
{
    ll o = 0;
    for (int k = 0; k < s.rank; ++k) { o = o * s.e[k] + ix[k]; }
    return o;
}
auto off_left(Shape const& s, int const* ix) -> ll // Horner, column-major
{
    ll o = 0;
    for (int k = s.rank - 1; k >= 0; --k) { o = o * s.e[k] + ix[k]; }
    return o;
}
auto off_strided(Shape const& s, ll const* st, int const* ix) -> ll
{
    ll o = 0;
    for (int k = 0; k < s.rank; ++k) { o += ix[k] * st[k]; }
    return o;
}
auto rss_strided(Shape const& s, ll const* st) -> ll
{
    if (has_zero(s)) { return 0; }
    ll o = 1;
    for (int k = 0; k < s.rank; ++k) { o += (s.e[k] - 1) * st[k]; }
    return o;
}
// odometer over all multi-indices of the shape (last index fastest).  Usage: int ix[4]={0}; if (prod>0) do {...} while (next_index(s, ix));
auto next_index(Shape const& s, int* ix) -> bool
{
    for (int k = s.rank - 1; k >= 0; --k) {
        if (++ix[k] < s.e[k]) { return true; }
        ix[k] = 0;
    }
    return false;
}
auto ix_str(int rank, int const* ix) -> std::string
{
    std::string s = "(";
    for (int i = 0; i < rank; ++i) {
        if (i != 0) { s += ","; }
        s += std::to_string(ix[i]);
    }
    return s + ")";
}
auto arr_str(int rank, ll const* a) -> std::string
{
    std::string s = "[";
    for (int i = 0; i < rank; ++i) {
        if (i != 0) { s += ","; }
        s += std::to_string(a[i]);
    }
    return s + "]";
}

// stride variants: var = perm_index*3 + padmode.  perm[0] is the fastest-varying dimension.
//   padmode 0: s[P0]=1, s[Pi]=s[Pi-1]*max(e[Pi-1],1)                 (exact packing in that dimension order)
//   padmode 1: s[P0]=1, s[Pi]=s[Pi-1]*max(e[Pi-1],1)+i               (irregular padding)
//   padmode 2: s[P0]=2, s[Pi]=s[Pi-1]*(max(e[Pi-1],1)+1)             (element stride 2, one padding slot per row)
// All strides are > 0 and s[Pi] >= s[Pi-1]*e[Pi-1] (the preconditions of layout_stride::mapping(ext, strides)).
auto nperms(int rank) -> int
{
    int f = 1;
    for (int i = 2; i <= rank; ++i) { f *= i; }
    return f;
}
void unrank_perm(int rank, int idx, int* perm)
{
    int pool[4] = {0, 1, 2, 3};
    int n       = rank;
    for (int i = 0; i < rank; ++i) {
        int f = nperms(n - 1);
        int q = idx / f;
        idx %= f;
        perm[i] = pool[q];
        for (int j = q; j + 1 < n; ++j) { pool[j] = pool[j + 1]; }
        --n;
    }
}
struct StrideInfo {
    ll s[4];
    bool canonical; // equal to the layout_left or the layout_right strides of the shape
    bool permuted;  // dimension order is neither left nor right
    bool padded;
};
auto make_strides(Shape const& sh, int var) -> StrideInfo
{
    StrideInfo si{};
    int perm[4]   = {0, 1, 2, 3};
    int const pm  = var % 3;
    int const pix = var / 3;
    unrank_perm(sh.rank, pix, perm);
    for (int i = 0; i < sh.rank; ++i) {
        if (i == 0) {
            si.s[perm[0]] = pm == 2 ? 2 : 1;
        } else {
            ll const below = si.s[perm[i - 1]];
            ll const eprev = sh.e[perm[i - 1]] < 1 ? 1 : sh.e[perm[i - 1]];
            si.s[perm[i]]  = pm == 0 ? below * eprev : pm == 1 ? below * eprev + i : below * (eprev + 1);
        }
    }
    ll ls[4], rs[4];
    left_strides(sh, ls);
    right_strides(sh, rs);
    bool eql = true, eqr = true, ordl = true, ordr = true;
    for (int i = 0; i < sh.rank; ++i) {
        eql  = eql && ls[i] == si.s[i];
        eqr  = eqr && rs[i] == si.s[i];
        ordl = ordl && perm[i] == i;
        ordr = ordr && perm[i] == sh.rank - 1 - i;
    }
    si.canonical = eql || eqr;
    si.permuted  = !(ordl || ordr);
    si.padded    = pm != 0;
    return si;
}

// ------------------------------------------------------------------------------------------------ exact-size heap container
// Container for mdarray: a heap block of exactly n elements (operator[] unchecked: ASan is the bounds checker).
template <typename T>
struct HeapBox {
    using value_type      = T;
    using size_type       = std::size_t;
    using reference       = T&;
    using const_reference = T const&;
    using pointer         = T*;
    using const_pointer   = T const*;
    using iterator        = T*;
    using const_iterator  = T const*;
    // (noinline: one copy of each member per translation unit instead of one per mdarray instantiation)
    [[gnu::noinline]] HeapBox() : _p{new T[0]}, _n{0} { }
    [[gnu::noinline]] explicit HeapBox(std::size_t n) : _p{new T[n]{}}, _n{n} { }
    [[gnu::noinline]] HeapBox(std::size_t n, T const& v) : _p{new T[n]}, _n{n}
    {
        for (std::size_t i = 0; i < n; ++i) { _p[i] = v; }
    }
    [[gnu::noinline]] HeapBox(HeapBox const& o) : _p{new T[o._n]}, _n{o._n}
    {
        for (std::size_t i = 0; i < _n; ++i) { _p[i] = o._p[i]; }
    }
    [[gnu::noinline]] HeapBox(HeapBox&& o) noexcept : _p{o._p}, _n{o._n}
    {
        o._p = nullptr;
        o._n = 0;
    }
    [[gnu::noinline]] auto operator=(HeapBox o) noexcept -> HeapBox&
    {
        std::swap(_p, o._p);
        std::swap(_n, o._n);
        return *this;
    }
    [[gnu::noinline]] ~HeapBox() { delete[] _p; }
    auto begin() -> T* { return _p; }
    auto end() -> T* { return _p + _n; }
    auto begin() const -> T const* { return _p; }
    auto end() const -> T const* { return _p + _n; }
    auto cbegin() const -> T const* { return _p; }
    auto cend() const -> T const* { return _p + _n; }
    auto data() -> T* { return _p; }
    auto data() const -> T const* { return _p; }
    [[nodiscard]] auto size() const -> std::size_t { return _n; }
    auto operator[](std::size_t i) -> T& { return _p[i]; }
    auto operator[](std::size_t i) const -> T const& { return _p[i]; }

private:
    T* _p;
    std::size_t _n;
};

// ------------------------------------------------------------------------------------------------ failure reporting
// Everything that formats text or compares against the oracle lives in ordinary (non-template) functions: the templates
// below only call the library and copy plain numbers out of it.  (Instantiation + sanitizer instrumentation of the
// per-type code is what the compile time of this harness is made of.)
[[gnu::noinline, gnu::cold, gnu::format(printf, 3, 4)]] void fail(char const* sub, Case const& k, char const* fmt, ...)
{
    char buf[768];
    va_list ap;
    va_start(ap, fmt);
    std::vsnprintf(buf, sizeof buf, fmt, ap);
    va_end(ap);
    vf::mismatch(sub, k, std::string(buf));
}
#define CHECK(sub, kase, cond, ...)                                                                                    \
    do {                                                                                                               \
        if (!(cond)) {                                                                                                 \
            fail(sub, kase, __VA_ARGS__);                                                                              \
            return;                                                                                                    \
        }                                                                                                              \
    } while (0)
#define REQUIRE_OK(expr)                                                                                               \
    do {                                                                                                               \
        if (!(expr)) { return; }                                                                                       \
    } while (0)

// extents copied out of the library vs. the shape
[[gnu::noinline]] auto ext_ok(char const* sub, Case const& k, Shape const& sh, ll const* got, char const* how) -> bool
{
    for (int r = 0; r < sh.rank; ++r) {
        if (got[r] != sh.e[r]) {
            fail(sub, k, "%s has extents %s, expected %s", how, arr_str(sh.rank, got).c_str(), arr_str(sh.rank, sh.e).c_str());
            return false;
        }
    }
    return true;
}

enum class Formula { right, left, strided };
constexpr int max_points = 1300; // 6^4 multi-indices at most
ll g_offs[3][max_points];
int g_vals[max_points];

// offsets produced by the library for every multi-index (odometer order) vs. the closed form; range; uniqueness
[[gnu::noinline]] auto offsets_ok(char const* sub, Case const& k, Shape const& sh, ll const* offs, ll rss, Formula f, ll const* st, char const* what) -> bool
{
    ll const P = prod(sh);
    if (P == 0) { return true; }
    std::vector<char> seen(static_cast<std::size_t>(rss > 0 ? rss : 0), 0);
    int ix[4] = {0, 0, 0, 0};
    int n     = 0;
    do {
        ll const got = offs[n++];
        ll const exp = f == Formula::right ? off_right(sh, ix) : f == Formula::left ? off_left(sh, ix) : off_strided(sh, st, ix);
        if (got != exp) {
            fail(sub, k, "%s%s = %lld, closed form gives %lld%s%s", what, ix_str(sh.rank, ix).c_str(), got, exp, f == Formula::strided ? " with strides " : "", f == Formula::strided ? arr_str(sh.rank, st).c_str() : "");
            return false;
        }
        if (got < 0 || got >= rss) {
            fail(sub, k, "%s%s = %lld is outside [0, required_span_size = %lld)", what, ix_str(sh.rank, ix).c_str(), got, rss);
            return false;
        }
        if (seen[static_cast<std::size_t>(got)] != 0) {
            fail(sub, k, "%s%s = %lld was already produced by another multi-index (mapping not unique)", what, ix_str(sh.rank, ix).c_str(), got);
            return false;
        }
        seen[static_cast<std::size_t>(got)] = 1;
    } while (next_index(sh, ix));
    return true;
}

// element addresses (as offsets from the data handle) and the values read through the view
int g_vbase = 1000; // the block under inspection holds g_vbase + i at element i
[[gnu::noinline]] auto view_ok(char const* sub, Case const& k, Shape const& sh, ll const* st, int nacc, char const* what) -> bool
{
    ll const P = prod(sh);
    if (P == 0) { return true; }
    static char const* const acc[3] = {"(i...)", "[array]", "[span]"};
    int ix[4] = {0, 0, 0, 0};
    int n     = 0;
    do {
        ll const exp = off_strided(sh, st, ix);
        for (int a = 0; a < nacc; ++a) {
            if (g_offs[a][n] != exp) {
                fail(sub, k, "%s: &m%s at %s is data+%lld, expected data+%lld", what, acc[a], ix_str(sh.rank, ix).c_str(), g_offs[a][n], exp);
                return false;
            }
        }
        if (g_vals[n] != g_vbase + static_cast<int>(exp)) {
            fail(sub, k, "%s: m%s reads %d, the element at data+%lld holds %d", what, ix_str(sh.rank, ix).c_str(), g_vals[n], exp, g_vbase + static_cast<int>(exp));
            return false;
        }
        ++n;
    } while (next_index(sh, ix));
    return true;
}

struct Facts {
    ll size;
    bool empty;
    std::size_t rank;
    ll ext[4];
    ll ext2[4];
    std::size_t sext[4];
    std::size_t sext2[4];
    ll stride[4];
    bool handle_ok;
};
[[gnu::noinline]] auto facts_ok(char const* sub, Case const& k, Shape const& sh, ll const* st, bool with_strides, Facts const& f, char const* what) -> bool
{
    ll const P = prod(sh);
    if (f.size != P) {
        fail(sub, k, "%s: size() = %lld, expected %lld", what, f.size, P);
        return false;
    }
    if (f.empty != (P == 0)) {
        fail(sub, k, "%s: empty() = %d for size %lld", what, static_cast<int>(f.empty), P);
        return false;
    }
    if (f.rank != static_cast<std::size_t>(sh.rank)) {
        fail(sub, k, "%s: rank() = %zu, expected %d", what, f.rank, sh.rank);
        return false;
    }
    if (!f.handle_ok) {
        fail(sub, k, "%s: data handle is not the pointer the view was constructed from", what);
        return false;
    }
    for (int r = 0; r < sh.rank; ++r) {
        if (f.ext[r] != sh.e[r] || f.ext2[r] != sh.e[r]) {
            fail(sub, k, "%s: extent(%d) = %lld, extents().extent(%d) = %lld, expected %lld", what, r, f.ext[r], r, f.ext2[r], sh.e[r]);
            return false;
        }
        if (f.sext[r] != f.sext2[r]) {
            fail(sub, k, "%s: static_extent(%d) = %zu differs from the extents type (%zu)", what, r, f.sext[r], f.sext2[r]);
            return false;
        }
        if (with_strides && f.stride[r] != st[r]) {
            fail(sub, k, "%s: stride(%d) = %lld, expected %lld", what, r, f.stride[r], st[r]);
            return false;
        }
    }
    return true;
}

auto make_block(ll n) -> std::unique_ptr<int[]>
{
    auto p = std::unique_ptr<int[]>(new int[static_cast<std::size_t>(n)]);
    for (ll i = 0; i < n; ++i) { p[static_cast<std::size_t>(i)] = 1000 + static_cast<int>(i); }
    return p;
}
void last_index(Shape const& sh, int* ix)
{
    for (int r = 0; r < sh.rank; ++r) { ix[r] = static_cast<int>(sh.e[r]) - 1; }
}

// a second run-time shape for the same extents type: every dynamic extent changed (index space still representable)
auto other_shape(Shape const& sh, std::size_t const* st, unsigned long long imaxv) -> Shape
{
    for (int attempt = 0; attempt < 3; ++attempt) {
        Shape o = sh;
        int j   = 0;
        for (int r = 0; r < sh.rank; ++r) {
            if (st[r] != D) { continue; }
            o.e[r] = attempt == 0 ? (sh.e[r] + 1 + j) % 4 : attempt == 1 ? (sh.e[r] == 1 ? 2 : 1) : (sh.e[r] == 0 ? 1 : 0);
            ++j;
        }
        if (static_cast<unsigned long long>(prod(o)) <= imaxv) { return o; }
    }
    return sh;
}
auto same_shape(Shape const& a, Shape const& b) -> bool
{
    for (int r = 0; r < a.rank; ++r) {
        if (a.e[r] != b.e[r]) { return false; }
    }
    return true;
}
// what submdspan_extents returned, copied out of the library
struct SubExt {
    int rank;
    std::size_t st[4];
    ll e[4];
    bool same_index_type;
};
// [mdspan.sub.extents] for full_extent / index slices: the kept dimensions (mask bit r = dimension r is kept) in order,
// each with the static extent and the run-time extent of the source dimension
[[gnu::noinline]] auto subext_ok(Case const& k, Shape const& sh, std::size_t const* st, unsigned mask, SubExt const& got) -> bool
{
    int kept[4] = {0, 0, 0, 0};
    int n       = 0;
    for (int r = 0; r < sh.rank; ++r) {
        if (((mask >> r) & 1U) != 0) { kept[n++] = r; }
    }
    std::string slices;
    for (int r = 0; r < sh.rank; ++r) { slices += std::string(r != 0 ? "," : "") + (((mask >> r) & 1U) != 0 ? ":" : "i"); }
    if (got.rank != n || !got.same_index_type) {
        fail("submdspan_extents", k, "submdspan_extents(%s): result has rank %d (index_type kept: %d), expected rank %d", slices.c_str(), got.rank, static_cast<int>(got.same_index_type), n);
        return false;
    }
    for (int i = 0; i < n; ++i) {
        if (got.e[i] != sh.e[kept[i]] || got.st[i] != st[kept[i]]) {
            ll ee[4] = {0, 0, 0, 0};
            std::string es, gs;
            for (int q = 0; q < n; ++q) {
                ee[q] = sh.e[kept[q]];
                es += std::string(q != 0 ? "," : "") + (st[kept[q]] == D ? "d" : std::to_string(st[kept[q]]));
                gs += std::string(q != 0 ? "," : "") + (got.st[q] == D ? "d" : std::to_string(got.st[q]));
            }
            fail("submdspan_extents", k, "submdspan_extents(%s): result extents %s with static extents [%s], expected %s with static extents [%s]", slices.c_str(), arr_str(n, got.e).c_str(), gs.c_str(), arr_str(n, ee).c_str(), es.c_str());
            return false;
        }
    }
    return true;
}

// ------------------------------------------------------------------------------------------------ type helpers
template <typename I>
constexpr auto imax() -> unsigned long long
{
    return static_cast<unsigned long long>(std::numeric_limits<I>::max());
}

template <typename E>
constexpr auto dyn_positions()
{
    std::array<int, E::rank_dynamic() + 1> p{}; // +1: never a zero-size std::array
    int n = 0;
    for (std::size_t i = 0; i < E::rank(); ++i) {
        if (E::static_extent(i) == D) { p[static_cast<std::size_t>(n++)] = static_cast<int>(i); }
    }
    return p;
}

// partner index type used for converting constructors (a different width and signedness)
template <typename I> struct partner;
template <> struct partner<std::int8_t> { using type = std::uint64_t; };
template <> struct partner<std::uint8_t> { using type = std::int16_t; };
template <> struct partner<std::int16_t> { using type = std::uint8_t; };
template <> struct partner<std::uint16_t> { using type = std::int32_t; };
template <> struct partner<std::int32_t> { using type = std::uint16_t; };
template <> struct partner<std::uint32_t> { using type = std::int64_t; };
template <> struct partner<std::int64_t> { using type = std::uint32_t; };
template <> struct partner<std::uint64_t> { using type = std::int8_t; };

// flipped pattern: static -> dynamic, dynamic -> static 2 (mixed -> mixed conversions in both directions)
template <typename J, typename E> struct flipped;
template <typename J, typename I, std::size_t... S>
struct flipped<J, etl::extents<I, S...>> {
    using type = etl::extents<J, (S == D ? std::size_t{2} : D)...>;
};
template <typename E> struct transposed2;
template <typename I, std::size_t S0, std::size_t S1>
struct transposed2<etl::extents<I, S0, S1>> {
    using type = etl::extents<I, S1, S0>;
};

// build an object X from a run-time shape: X(pre..., rank-many values) / X(pre..., dynamic-only values)
template <typename X, typename A, std::size_t... Is, typename... Pre>
auto make_all_impl(Shape const& sh, std::index_sequence<Is...> /*unused*/, Pre... pre) -> X
{
    return X(pre..., static_cast<A>(sh.e[Is])...);
}
template <typename X, typename E, typename A, std::size_t... Js, typename... Pre>
auto make_dyn_impl(Shape const& sh, std::index_sequence<Js...> /*unused*/, Pre... pre) -> X
{
    [[maybe_unused]] constexpr auto dp = dyn_positions<E>();
    return X(pre..., static_cast<A>(sh.e[dp[Js]])...);
}
template <typename E, typename A>
[[gnu::noinline]] auto make_all(Shape const& sh) -> E
{
    return make_all_impl<E, A>(sh, std::make_index_sequence<E::rank()>{});
}
template <typename E, typename A>
auto make_dyn(Shape const& sh) -> E
{
    return make_dyn_impl<E, E, A>(sh, std::make_index_sequence<E::rank_dynamic()>{});
}
// is the run-time shape admissible for extents type E2 (static extents match, index space representable)?
template <typename E2>
auto shape_fits(Shape const& sh) -> bool
{
    for (std::size_t i = 0; i < E2::rank(); ++i) {
        if (E2::static_extent(i) != D && static_cast<ll>(E2::static_extent(i)) != sh.e[i]) { return false; }
    }
    return static_cast<unsigned long long>(prod(sh)) <= imax<typename E2::index_type>();
}
template <typename E>
[[gnu::noinline]] void get_ext(E const& e, ll* out)
{
    for (std::size_t r = 0; r < E::rank(); ++r) { out[r] = static_cast<ll>(e.extent(r)); }
}
template <typename I, typename F, std::size_t... Is>
decltype(auto) call_ix_impl(F& f, int const* ix, std::index_sequence<Is...> /*unused*/)
{
    return f(static_cast<I>(ix[Is])...);
}
template <typename I, std::size_t R, typename F>
decltype(auto) call_ix(F& f, int const* ix)
{
    return call_ix_impl<I>(f, ix, std::make_index_sequence<R>{});
}
// all offsets of a mapping, in odometer order
template <typename I, std::size_t R, typename M>
[[gnu::noinline]] void collect_offsets(M const& m, Shape const& sh, ll* out)
{
    if (prod(sh) == 0) { return; }
    int ix[4] = {0, 0, 0, 0};
    int n     = 0;
    do {
        out[n++] = static_cast<ll>(call_ix<I, R>(m, ix));
    } while (next_index(sh, ix));
}
// all element addresses of a view (as offsets from base) through (i...), [array], [span]; values read through (i...)
// only when the address is inside the block [base, base+rss) (otherwise the mismatch is reported by view_ok, not by ASan)
template <typename I, std::size_t R, bool AllForms = false, typename V>
[[gnu::noinline]] auto collect_view(V& m, int const* base, Shape const& sh, ll rss) -> int
{
    constexpr int forms = (R > 0 && AllForms) ? 3 : 1;
    if (prod(sh) == 0) { return forms; }
    int ix[4] = {0, 0, 0, 0};
    int n     = 0;
    do {
        auto& ref    = call_ix<I, R>(m, ix);
        ll const o   = static_cast<ll>(&ref - base);
        g_offs[0][n] = o;
        g_vals[n]    = o >= 0 && o < rss ? ref : -1;
        if constexpr (forms == 3) {
            etl::array<I, R> ai{};
            for (std::size_t r = 0; r < R; ++r) { ai[r] = static_cast<I>(ix[r]); }
            etl::span<I const, R> const si(ai);
            g_offs[1][n] = static_cast<ll>(&m[ai] - base);
            g_offs[2][n] = static_cast<ll>(&m[si] - base);
        }
        ++n;
    } while (next_index(sh, ix));
    return forms;
}
template <typename V>
[[gnu::noinline]] auto collect_facts(V const& m, void const* handle, void const* expected_handle, bool with_strides) -> Facts
{
    Facts f{};
    f.size      = static_cast<ll>(m.size());
    f.empty     = m.empty();
    f.rank      = V::rank();
    f.handle_ok = handle == expected_handle;
    for (std::size_t r = 0; r < V::rank(); ++r) {
        f.ext[r]   = static_cast<ll>(m.extent(r));
        f.ext2[r]  = static_cast<ll>(m.extents().extent(r));
        f.sext[r]  = V::static_extent(r);
        f.sext2[r] = V::extents_type::static_extent(r);
        if constexpr (V::rank() > 0) { // (mapping::stride requires rank > 0)
            if (with_strides) { f.stride[r] = static_cast<ll>(m.stride(r)); }
        }
    }
    return f;
}

// compile-time probes: "is this member defined (usable in a constant expression)?"  false for declared-only functions
template <typename M>
constexpr bool has_defined_rss = requires { typename std::integral_constant<int, (M{}.required_span_size(), 0)>; };
template <typename M>
constexpr bool has_defined_is_exhaustive = requires { typename std::integral_constant<int, (M{}.is_exhaustive(), 0)>; };

// ------------------------------------------------------------------------------------------------ 1. extents
template <typename E>
void check_extents(Case const& k, Shape const& sh)
{
    using I               = typename E::index_type;
    constexpr auto R      = E::rank();
    constexpr auto RD     = E::rank_dynamic();
    char const* const sub = "extents";
    vf::Flight<Case> fl(sub, k);
    ll g[4] = {0, 0, 0, 0};
#define EXT_IS_SHAPE(shape, how, obj)                                                                                  \
    do {                                                                                                               \
        get_ext(obj, g);                                                                                               \
        REQUIRE_OK(ext_ok(sub, k, shape, g, how));                                                                     \
    } while (0)
#define EXT_IS(how, obj) EXT_IS_SHAPE(sh, how, obj)

    {
        std::size_t nd = 0;
        for (std::size_t r = 0; r < R; ++r) {
            nd += E::static_extent(r) == D ? 1U : 0U;
            CHECK(sub, k, E::static_extent(r) == D || static_cast<ll>(E::static_extent(r)) == sh.e[r], "static_extent(%zu) = %zu", r, E::static_extent(r));
        }
        CHECK(sub, k, nd == RD && R == static_cast<std::size_t>(sh.rank), "rank()/rank_dynamic() = %zu/%zu, pattern has %d/%zu", R, RD, sh.rank, nd);
    }
    {
        // default construction: static extents as declared, dynamic extents 0
        E const z{};
        Shape zs = sh;
        for (std::size_t r = 0; r < R; ++r) { zs.e[r] = E::static_extent(r) == D ? 0 : sh.e[r]; }
        get_ext(z, g);
        REQUIRE_OK(ext_ok(sub, k, zs, g, "extents()"));
    }
    // (a) dynamic-only arguments, (b) rank-many arguments: variadic (int and IndexType), etl::array, etl::span
    E const a1 = make_dyn<E, int>(sh);
    EXT_IS("extents(dynamic-only ints)", a1);
    E const a2 = make_all<E, int>(sh);
    EXT_IS("extents(rank-many ints)", a2);
    E const a3 = make_all<E, I>(sh);
    EXT_IS("extents(rank-many IndexType values)", a3);
    {
        constexpr auto dp = dyn_positions<E>();
        etl::array<I, RD> ad{};
        etl::array<std::size_t, R> aa{};
        for (std::size_t j = 0; j < RD; ++j) { ad[j] = static_cast<I>(sh.e[dp[j]]); }
        for (std::size_t r = 0; r < R; ++r) { aa[r] = static_cast<std::size_t>(sh.e[r]); }
        etl::span<I const, RD> const sd(ad);
        etl::span<std::size_t const, R> const sa(aa);
        E const b1(ad);
        EXT_IS("extents(array<IndexType, rank_dynamic>)", b1);
        E const b2(aa);
        EXT_IS("extents(array<size_t, rank>)", b2);
        E const b3(sd);
        EXT_IS("extents(span<IndexType const, rank_dynamic>)", b3);
        E const b4(sa);
        EXT_IS("extents(span<size_t const, rank>)", b4);
        bool const eq = a1 == a2 && a2 == b1 && b3 == b4 && !(a1 != b4);
        CHECK(sub, k, eq, "operator== between equal extents objects is false");
    }
    // products (public in tetl; [mdspan.extents.expo] fwd-prod-of-extents / rev-prod-of-extents) - checked while accessible
    if constexpr (requires { a2.fwd_prod_of_extents(std::size_t{0}); a2.rev_prod_of_extents(std::size_t{0}); }) {
        ll f[5] = {0, 0, 0, 0, 0};
        ll b[4] = {0, 0, 0, 0};
        for (std::size_t r = 0; r <= R; ++r) { f[r] = static_cast<ll>(a2.fwd_prod_of_extents(r)); }
        for (std::size_t r = 0; r < R; ++r) { b[r] = static_cast<ll>(a2.rev_prod_of_extents(r)); }
        for (std::size_t r = 0; r <= R; ++r) {
            ll ef = 1;
            ll eb = 1;
            for (std::size_t q = 0; q < r; ++q) { ef *= sh.e[q]; }
            for (std::size_t q = r + 1; q < R; ++q) { eb *= sh.e[q]; }
            CHECK(sub, k, f[r] == ef, "fwd_prod_of_extents(%zu) = %lld, expected %lld", r, f[r], ef);
            CHECK(sub, k, r == R || b[r] == eb, "rev_prod_of_extents(%zu) = %lld, expected %lld", r, b[r], eb);
        }
    }
    // converting constructors: E -> dextents<J>, dextents<J> -> E, E <-> flipped pattern (when the shape fits)
    using J  = typename partner<I>::type;
    using DJ = etl::dextents<J, R>;
    using FJ = typename flipped<J, E>::type;
    {
        DJ const d(a2);
        EXT_IS("dextents<J>(extents)", d);
        bool const eq = d == a2 && a2 == d;
        CHECK(sub, k, eq, "operator== between extents and its dextents<J> conversion is false");
        E const back(d);
        EXT_IS("extents(dextents<J>)", back);
        for (std::size_t r = 0; r < R; ++r) { // a neighbouring shape must compare unequal
            Shape other = sh;
            other.e[r]  = sh.e[r] == 1 ? 2 : 1;
            DJ const o  = make_all<DJ, int>(other);
            bool const ne = !(o == a2) && a2 != o;
            CHECK(sub, k, ne, "operator== is true for extents that differ in dimension %zu", r);
        }
    }
    if constexpr (R > 0) {
        if (shape_fits<FJ>(sh)) {
            FJ const f(a2);
            EXT_IS("flipped-pattern extents (static<->dynamic swapped) constructed from extents", f);
            E const back(f);
            EXT_IS("extents constructed from flipped-pattern extents (static<->dynamic swapped)", back);
            vf::count("convert.flipped_pattern");
        }
    }
    vf::eval(sub);
}

// ------------------------------------------------------------------------------------------------ 2. layout_left / layout_right
template <typename E, typename L>
void check_lr(Case const& k, Shape const& sh)
{
    using I               = typename E::index_type;
    using M               = typename L::template mapping<E>;
    constexpr auto R      = E::rank();
    constexpr bool left   = std::is_same_v<L, etl::layout_left>;
    char const* const sub = left ? "layout_left" : "layout_right";
    vf::Flight<Case> fl(sub, k);
    ll g[4] = {0, 0, 0, 0};

    E const e = make_all<E, int>(sh);
    M const m(e);
    ll const P = prod(sh);
    ll st[4]   = {0, 0, 0, 0};
    left ? left_strides(sh, st) : right_strides(sh, st);
    EXT_IS("mapping.extents()", m.extents());
    CHECK(sub, k, static_cast<ll>(m.required_span_size()) == P, "required_span_size() = %lld, expected %lld", static_cast<ll>(m.required_span_size()), P);
    if constexpr (R > 0) {
        for (std::size_t r = 0; r < R; ++r) { CHECK(sub, k, static_cast<ll>(m.stride(r)) == st[r], "stride(%zu) = %lld, expected %lld", r, static_cast<ll>(m.stride(r)), st[r]); }
    }
    bool const flags = M::is_always_unique() && M::is_always_exhaustive() && M::is_always_strided() && m.is_unique() && m.is_exhaustive() && m.is_strided();
    CHECK(sub, k, flags, "is_(always_)unique/exhaustive/strided not all true");
    collect_offsets<I, R>(m, sh, g_offs[0]);
    REQUIRE_OK(offsets_ok(sub, k, sh, g_offs[0], P, left ? Formula::left : Formula::right, nullptr, "mapping"));
    {
        M m2(m);
        M m3;
        m3 = m;
        EXT_IS("copy of a mapping", m2.extents());
        EXT_IS("assigned mapping", m3.extents());
        bool const eq = m2 == m && m3 == m;
        CHECK(sub, k, eq, "operator== of a mapping and its copy is false");
        if constexpr (E::rank_dynamic() == 0) {
            M const m0;
            EXT_IS("default-constructed mapping of all-static extents", m0.extents());
            CHECK(sub, k, static_cast<ll>(m0.required_span_size()) == P, "default-constructed mapping: required_span_size() = %lld, expected %lld", static_cast<ll>(m0.required_span_size()), P);
        }
    }
    // converting constructors that are defined: same layout from other extents; left <-> right for rank <= 1
    // (precondition of the converting constructors: other.required_span_size() is representable in the new index type)
    using J  = typename partner<I>::type;
    using DJ = etl::dextents<J, R>;
    bool const fitsJ = static_cast<unsigned long long>(P) <= imax<J>();
    vf::label("convert.mapping_to_partner_index_type", fitsJ);
    if (fitsJ) {
        typename L::template mapping<DJ> const c(m);
        EXT_IS("mapping<dextents<J>>(mapping<E>)", c.extents());
        bool const eq = c == m;
        CHECK(sub, k, eq && static_cast<ll>(c.required_span_size()) == P, "mapping<dextents<J>>(mapping<E>): operator== %d, required_span_size() = %lld, expected %lld", static_cast<int>(eq), static_cast<ll>(c.required_span_size()), P);
        M const back(c);
        EXT_IS("mapping<E>(mapping<dextents<J>>)", back.extents());
        if (P > 0) {
            int ix[4] = {0, 0, 0, 0};
            last_index(sh, ix);
            ll const o1 = static_cast<ll>(call_ix<J, R>(c, ix));
            ll const o2 = static_cast<ll>(call_ix<I, R>(back, ix));
            CHECK(sub, k, o1 == P - 1 && o2 == P - 1, "converted mappings send the last multi-index to %lld / %lld, expected %lld", o1, o2, P - 1);
        }
    }
    if constexpr (R <= 1) {
        if (!fitsJ) {
            vf::eval(sub);
            return;
        }
        using O = std::conditional_t<left, etl::layout_right, etl::layout_left>;
        typename O::template mapping<DJ> const o(m);
        EXT_IS("rank<=1 conversion to the other layout", o.extents());
        if constexpr (R == 1) {
            if (P > 0) {
                ll const last = static_cast<ll>(o(static_cast<J>(P - 1)));
                CHECK(sub, k, last == P - 1 && static_cast<ll>(o.stride(0)) == 1, "rank-1 conversion to the other layout maps %lld to %lld", P - 1, last);
            }
        }
    }
    vf::eval(sub);
}

// ------------------------------------------------------------------------------------------------ 3. layout_stride
template <typename E>
void check_stride(Case const& k, Shape const& sh, StrideInfo const& si)
{
    using I               = typename E::index_type;
    using M               = etl::layout_stride::mapping<E>;
    constexpr auto R      = E::rank();
    char const* const sub = "layout_stride";
    vf::Flight<Case> fl(sub, k);
    ll g[4]      = {0, 0, 0, 0};
    E const e    = make_all<E, int>(sh);
    ll const rss = rss_strided(sh, si.s);
    {
        // default construction [mdspan.layout.stride.cons]: extents_type() and the strides of layout_right::mapping<extents_type>()
        M const dm;
        Shape zs = sh;
        for (std::size_t r = 0; r < R; ++r) { zs.e[r] = E::static_extent(r) == D ? 0 : sh.e[r]; }
        ll zst[4] = {0, 0, 0, 0};
        right_strides(zs, zst);
        EXT_IS_SHAPE(zs, "default-constructed layout_stride mapping.extents()", dm.extents());
        if constexpr (R > 0) {
            for (std::size_t r = 0; r < R; ++r) { CHECK(sub, k, static_cast<ll>(dm.stride(r)) == zst[r], "default-constructed layout_stride mapping: stride(%zu) = %lld, expected the layout_right stride %lld", r, static_cast<ll>(dm.stride(r)), zst[r]); }
            if (k.var == 0) {
                collect_offsets<I, R>(dm, zs, g_offs[0]);
                REQUIRE_OK(offsets_ok(sub, k, zs, g_offs[0], prod(zs), Formula::right, nullptr, "default-constructed layout_stride mapping"));
            }
        }
    }
    if constexpr (R == 0) {
        // only the default constructor is usable for rank 0 on this tree
        M const m;
        CHECK(sub, k, static_cast<ll>(m()) == 0, "rank-0 layout_stride mapping() = %lld", static_cast<ll>(m()));
        if constexpr (has_defined_rss<M>) { CHECK(sub, k, static_cast<ll>(m.required_span_size()) == 1, "rank-0 required_span_size() = %lld", static_cast<ll>(m.required_span_size())); }
    } else {
        etl::array<I, R> sa{};
        etl::array<std::size_t, R> sz{};
        for (std::size_t r = 0; r < R; ++r) {
            sa[r] = static_cast<I>(si.s[r]);
            sz[r] = static_cast<std::size_t>(si.s[r]);
        }
        etl::span<std::size_t const, R> const szs(sz);
        M const m(e, sa);
        M const ms(e, szs);
        EXT_IS("layout_stride mapping(extents, array).extents()", m.extents());
        EXT_IS("layout_stride mapping(extents, span).extents()", ms.extents());
        auto const got = m.strides();
        for (std::size_t r = 0; r < R; ++r) {
            ll const s1 = static_cast<ll>(m.stride(r));
            ll const s2 = static_cast<ll>(got[r]);
            ll const s3 = static_cast<ll>(ms.stride(r));
            CHECK(sub, k, s1 == si.s[r] && s2 == si.s[r] && s3 == si.s[r], "stride(%zu) = %lld / strides()[%zu] = %lld / built from a span: %lld; constructed with %lld", r, s1, r, s2, s3, si.s[r]);
        }
        bool const flags = M::is_always_unique() && M::is_always_strided() && !M::is_always_exhaustive() && m.is_unique() && m.is_strided();
        CHECK(sub, k, flags, "is_(always_)unique/strided/exhaustive constants wrong");
        if constexpr (has_defined_rss<M>) { CHECK(sub, k, static_cast<ll>(m.required_span_size()) == rss, "required_span_size() = %lld, expected %lld", static_cast<ll>(m.required_span_size()), rss); }
        if constexpr (has_defined_is_exhaustive<M>) { CHECK(sub, k, m.is_exhaustive() == (rss == prod(sh)), "is_exhaustive() = %d, span %lld size %lld", static_cast<int>(m.is_exhaustive()), rss, prod(sh)); }
        collect_offsets<I, R>(m, sh, g_offs[0]);
        REQUIRE_OK(offsets_ok(sub, k, sh, g_offs[0], rss, Formula::strided, si.s, "mapping"));
        M m2(ms);
        M m3;
        m3 = m;
        for (std::size_t r = 0; r < R; ++r) { CHECK(sub, k, static_cast<ll>(m2.stride(r)) == si.s[r] && static_cast<ll>(m3.stride(r)) == si.s[r], "copy / assignment changes stride(%zu)", r); }
    }
    vf::eval(sub);
}

// ------------------------------------------------------------------------------------------------ 4. mdspan
template <typename E, typename L>
void check_mdspan_lr(Case const& k, Shape const& sh)
{
    using I               = typename E::index_type;
    using M               = typename L::template mapping<E>;
    using MD              = etl::mdspan<int, E, L>;
    constexpr auto R      = E::rank();
    constexpr bool left   = std::is_same_v<L, etl::layout_left>;
    char const* const sub = left ? "mdspan_left" : "mdspan_right";
    vf::Flight<Case> fl(sub, k);
    ll const P = prod(sh);
    ll st[4]   = {0, 0, 0, 0};
    left ? left_strides(sh, st) : right_strides(sh, st);
    auto blk  = make_block(P);
    int* base = blk.get();
    E const e = make_all<E, int>(sh);
    int lastix[4] = {0, 0, 0, 0};
    last_index(sh, lastix);
#define VIEW_FACTS(what, v)                                                                                            \
    do {                                                                                                               \
        REQUIRE_OK(facts_ok(sub, k, sh, st, R > 0, collect_facts(v, v.data_handle(), base, R > 0), what));              \
        if (P > 0) {                                                                                                   \
            ll const lo = static_cast<ll>(&call_ix<I, R>(v, lastix) - base);                                            \
            CHECK(sub, k, lo == P - 1, "%s sends the last multi-index to data+%lld, expected data+%lld", what, lo, P - 1); \
        }                                                                                                              \
    } while (0)

    MD const m(base, M(e));
    VIEW_FACTS("mdspan(ptr, mapping)", m);
    bool const flags = m.is_unique() && m.is_exhaustive() && m.is_strided() && MD::is_always_unique() && MD::is_always_exhaustive() && MD::is_always_strided();
    CHECK(sub, k, flags, "mdspan is_(always_)unique/exhaustive/strided not all true");
    int const nacc = collect_view<I, R, true>(m, base, sh, P);
    REQUIRE_OK(view_ok(sub, k, sh, st, nacc, "mdspan(ptr, mapping)"));
    // the other constructors describe the same view
    {
        MD const c1(base, e);
        VIEW_FACTS("mdspan(ptr, extents)", c1);
        MD const c2 = make_all_impl<MD, int>(sh, std::make_index_sequence<R>{}, base);
        VIEW_FACTS("mdspan(ptr, rank-many ints)", c2);
        MD const c3 = make_dyn_impl<MD, E, I>(sh, std::make_index_sequence<E::rank_dynamic()>{}, base);
        VIEW_FACTS("mdspan(ptr, dynamic-only IndexType values)", c3);
        etl::array<I, R> aa{};
        for (std::size_t r = 0; r < R; ++r) { aa[r] = static_cast<I>(sh.e[r]); }
        etl::span<I const, R> const sp(aa);
        MD const c4(base, aa);
        VIEW_FACTS("mdspan(ptr, array<IndexType, rank>)", c4);
        MD const c5(base, sp);
        VIEW_FACTS("mdspan(ptr, span<IndexType const, rank>)", c5);
        MD const c6(base, M(e), etl::default_accessor<int>{});
        VIEW_FACTS("mdspan(ptr, mapping, accessor)", c6);
        MD c7(c6);
        VIEW_FACTS("copy of an mdspan", c7);
        MD const c8(std::move(c7));
        VIEW_FACTS("move-constructed mdspan", c8);
    }
    if constexpr (E::rank_dynamic() > 0) {
        MD const dm;
        bool const ok = dm.data_handle() == nullptr && dm.size() == 0 && dm.empty();
        CHECK(sub, k, ok, "default-constructed mdspan: size() = %lld", static_cast<ll>(dm.size()));
    }
    // converting constructor: element const, dextents<J> (precondition: the span size is representable in J)
    using J = typename partner<I>::type;
    if (static_cast<unsigned long long>(P) <= imax<J>()) {
        using MC = etl::mdspan<int const, etl::dextents<J, R>, L>;
        MC const c(m);
        REQUIRE_OK(facts_ok(sub, k, sh, st, R > 0, collect_facts(c, c.data_handle(), base, R > 0), "mdspan<T const, dextents<J>>(mdspan)"));
        int const na = collect_view<J, R>(c, base, sh, P);
        REQUIRE_OK(view_ok(sub, k, sh, st, na, "mdspan<T const, dextents<J>>(mdspan)"));
    }
#undef VIEW_FACTS
    vf::eval(sub);
}

template <typename E>
void check_mdspan_stride(Case const& k, Shape const& sh, StrideInfo const& si)
{
    using I               = typename E::index_type;
    using M               = etl::layout_stride::mapping<E>;
    using MD              = etl::mdspan<int, E, etl::layout_stride>;
    constexpr auto R      = E::rank();
    char const* const sub = "mdspan_stride";
    vf::Flight<Case> fl(sub, k);
    if constexpr (R > 0) {
        ll const rss = rss_strided(sh, si.s);
        auto blk     = make_block(rss);
        int* base    = blk.get();
        E const e    = make_all<E, int>(sh);
        etl::array<I, R> sa{};
        for (std::size_t r = 0; r < R; ++r) { sa[r] = static_cast<I>(si.s[r]); }
        MD const m(base, M(e, sa));
        REQUIRE_OK(facts_ok(sub, k, sh, si.s, true, collect_facts(m, m.data_handle(), base, true), "mdspan over layout_stride"));
        bool const flags = m.is_unique() && m.is_strided() && MD::is_always_unique() && MD::is_always_strided() && !MD::is_always_exhaustive();
        CHECK(sub, k, flags, "mdspan over layout_stride: is_(always_)unique/strided/exhaustive wrong");
        int const nacc = collect_view<I, R, true>(m, base, sh, rss);
        REQUIRE_OK(view_ok(sub, k, sh, si.s, nacc, "mdspan over layout_stride"));
        // (mdspan copy assignment is implicitly deleted on this tree: not callable, not part of the check)
        MD const c(m);
        MD const c2(base, M(e, sa), etl::default_accessor<int>{});
        REQUIRE_OK(facts_ok(sub, k, sh, si.s, true, collect_facts(c, c.data_handle(), base, true), "copy of an mdspan over layout_stride"));
        int const na = collect_view<I, R>(c2, base, sh, rss);
        REQUIRE_OK(view_ok(sub, k, sh, si.s, na, "mdspan(ptr, layout_stride mapping, accessor)"));
    } else {
        auto blk = make_block(1);
        MD const m(blk.get(), M{});
        bool const ok = &m() == blk.get() && m.size() == 1 && !m.empty();
        CHECK(sub, k, ok, "rank-0 mdspan over layout_stride does not refer to element 0");
    }
    vf::eval(sub);
}

// ------------------------------------------------------------------------------------------------ 5. mdarray
// swap / copy assignment / move assignment / move construction between two mdarrays of DIFFERENT run-time shape (all-static
// types: same shape, different contents): afterwards extents, size, strides, required span, container and every element
// address must be those of the source object.
template <typename E, typename L>
[[gnu::noinline]] void check_mdarray_transfer(char const* sub, Case const& k, Shape const& sh)
{
    using I          = typename E::index_type;
    using A          = etl::mdarray<int, E, L, HeapBox<int>>;
    constexpr auto R = E::rank();
    std::size_t statics[4] = {D, D, D, D};
    for (std::size_t r = 0; r < R; ++r) { statics[r] = E::static_extent(r); }
    Shape const sh2 = other_shape(sh, statics, imax<I>());
    vf::label("mdarray.transfer_between_different_shapes", !same_shape(sh, sh2));
    ll const P1 = prod(sh);
    ll const P2 = prod(sh2);
    ll st1[4]   = {0, 0, 0, 0};
    ll st2[4]   = {0, 0, 0, 0};
    constexpr bool left = std::is_same_v<L, etl::layout_left>;
    left ? left_strides(sh, st1) : right_strides(sh, st1);
    left ? left_strides(sh2, st2) : right_strides(sh2, st2);
    A a(make_all<E, int>(sh));
    A b(make_all<E, int>(sh2));
    for (ll i = 0; i < P1; ++i) { a.container_data()[i] = 1000 + static_cast<int>(i); }
    for (ll i = 0; i < P2; ++i) { b.container_data()[i] = 5000 + static_cast<int>(i); }
    int const* const pa = a.container_data();
    int const* const pb = b.container_data();
    // the object `x` must now describe shape `s` over a container of exactly prod(s) elements holding vbase + i
    auto describes = [&](A& x, Shape const& s, ll const* st, int vbase, int const* same_block, char const* what) -> bool {
        ll const P = prod(s);
        if (static_cast<ll>(x.container_size()) != P || static_cast<ll>(x.mapping().required_span_size()) != P) {
            fail(sub, k, "%s: container_size() = %lld, mapping().required_span_size() = %lld, expected %lld for extents %s", what, static_cast<ll>(x.container_size()), static_cast<ll>(x.mapping().required_span_size()), P, arr_str(s.rank, s.e).c_str());
            return false;
        }
        int* const base = x.container_data();
        if (!facts_ok(sub, k, s, st, R > 0, collect_facts(x, same_block != nullptr ? static_cast<void const*>(base) : nullptr, same_block, R > 0), what)) { return false; }
        g_vbase        = vbase;
        int const nacc = collect_view<I, R, true>(x, base, s, P);
        bool const ok  = view_ok(sub, k, s, st, nacc, what);
        g_vbase        = 1000;
        return ok;
    };
    swap(a, b);
    REQUIRE_OK(describes(a, sh2, st2, 5000, pb, "a after swap(a, b) [a: first shape, b: second shape]"));
    REQUIRE_OK(describes(b, sh, st1, 1000, pa, "b after swap(a, b) [a: first shape, b: second shape]"));
    A c(make_all<E, int>(sh)); // shape 1, zeros
    c = a;                     // copy assignment from shape 2
    CHECK(sub, k, c.container_data() != a.container_data() || P2 == 0, "copy-assigned mdarray shares its container with the source");
    REQUIRE_OK(describes(c, sh2, st2, 5000, nullptr, "mdarray copy-assigned from an mdarray of another shape"));
    REQUIRE_OK(describes(a, sh2, st2, 5000, pb, "source of a copy assignment"));
    A d(make_all<E, int>(sh2)); // shape 2, zeros
    d = std::move(b);           // move assignment from shape 1
    REQUIRE_OK(describes(d, sh, st1, 1000, nullptr, "mdarray move-assigned from an mdarray of another shape"));
    A f(std::move(d));
    REQUIRE_OK(describes(f, sh, st1, 1000, nullptr, "move-constructed mdarray"));
}

template <typename E, typename L>
void check_mdarray(Case const& k, Shape const& sh)
{
    using I               = typename E::index_type;
    using M               = typename L::template mapping<E>;
    using A               = etl::mdarray<int, E, L, HeapBox<int>>;
    constexpr auto R      = E::rank();
    constexpr bool left   = std::is_same_v<L, etl::layout_left>;
    char const* const sub = left ? "mdarray_left" : "mdarray_right";
    vf::Flight<Case> fl(sub, k);
    ll g[4]    = {0, 0, 0, 0};
    ll const P = prod(sh);
    ll st[4]   = {0, 0, 0, 0};
    left ? left_strides(sh, st) : right_strides(sh, st);
    E const e = make_all<E, int>(sh);
    M const me(e);
    A a(e);
    CHECK(sub, k, static_cast<ll>(a.container_size()) == P, "mdarray(extents): container_size() = %lld, expected %lld", static_cast<ll>(a.container_size()), P);
    int* base = a.container_data();
    REQUIRE_OK(facts_ok(sub, k, sh, st, R > 0, collect_facts(a, base, base, R > 0), "mdarray(extents)"));
    for (ll i = 0; i < P; ++i) {
        CHECK(sub, k, base[i] == 0, "mdarray(extents): element %lld is not value-initialised", i);
        base[i] = 1000 + static_cast<int>(i);
    }
    int nacc = collect_view<I, R, true>(a, base, sh, P);
    REQUIRE_OK(view_ok(sub, k, sh, st, nacc, "mdarray"));
    {
        A const& ca = a;
        CHECK(sub, k, ca.container_data() == base, "const container_data() differs from container_data()");
        nacc = collect_view<I, R, true>(ca, base, sh, P);
        REQUIRE_OK(view_ok(sub, k, sh, st, nacc, "const mdarray"));
        auto ms = a.to_mdspan();
        auto cs = ca.to_mdspan();
        REQUIRE_OK(facts_ok(sub, k, sh, st, R > 0, collect_facts(ms, ms.data_handle(), base, R > 0), "mdarray::to_mdspan()"));
        REQUIRE_OK(facts_ok(sub, k, sh, st, R > 0, collect_facts(cs, cs.data_handle(), base, R > 0), "mdarray::to_mdspan() const"));
        nacc = collect_view<I, R>(ms, base, sh, P);
        REQUIRE_OK(view_ok(sub, k, sh, st, nacc, "mdarray::to_mdspan()"));
        etl::mdspan<int, E, L> const conv = a;
        REQUIRE_OK(facts_ok(sub, k, sh, st, R > 0, collect_facts(conv, conv.data_handle(), base, R > 0), "mdarray converted to mdspan"));
    }
    if constexpr (E::rank_dynamic() > 0) {
        A const da;
        CHECK(sub, k, da.size() == 0 && da.empty() && da.container_size() == 0, "default-constructed mdarray: size() = %lld, container_size() = %zu", static_cast<ll>(da.size()), da.container_size());
    }
    // other constructors (mdarray(extents...) delegates to mdarray(mapping...), so the mapping forms are covered too)
    {
        int lastix[4] = {0, 0, 0, 0};
        last_index(sh, lastix);
        A const b1 = make_all_impl<A, int>(sh, std::make_index_sequence<R>{});
        EXT_IS("mdarray(rank-many ints).extents()", b1.extents());
        CHECK(sub, k, static_cast<ll>(b1.container_size()) == P, "mdarray(rank-many ints): container_size() = %lld, expected %lld", static_cast<ll>(b1.container_size()), P);
        if constexpr (E::rank_dynamic() > 0) {
            A const b2 = make_dyn_impl<A, E, I>(sh, std::make_index_sequence<E::rank_dynamic()>{});
            EXT_IS("mdarray(dynamic-only values).extents()", b2.extents());
            CHECK(sub, k, static_cast<ll>(b2.container_size()) == P, "mdarray(dynamic-only values): container_size() = %lld, expected %lld", static_cast<ll>(b2.container_size()), P);
        }
        A const b4(me, 7);
        EXT_IS("mdarray(mapping, value).extents()", b4.extents());
        CHECK(sub, k, static_cast<ll>(b4.container_size()) == P, "mdarray(mapping, value): container_size() = %lld, expected %lld", static_cast<ll>(b4.container_size()), P);
        for (ll i = 0; i < P; ++i) { CHECK(sub, k, b4.container_data()[i] == 7, "mdarray(mapping, value): element %lld is %d", i, b4.container_data()[i]); }
        HeapBox<int> hb(static_cast<std::size_t>(P));
        for (ll i = 0; i < P; ++i) { hb[static_cast<std::size_t>(i)] = 1000 + static_cast<int>(i); }
        A const b6(e, hb);
        CHECK(sub, k, b6.container_data() != hb.data() && static_cast<ll>(b6.container_size()) == P, "mdarray(extents, container const&) does not own a copy of the container");
        A const b7(e, std::move(hb));
        A const b8(b7);
        CHECK(sub, k, b8.container_data() != b7.container_data() && static_cast<ll>(b8.container_size()) == P, "copy of an mdarray shares its container");
        if (P > 0) {
            ll const o6 = static_cast<ll>(&call_ix<I, R>(b6, lastix) - b6.container_data());
            ll const o8 = static_cast<ll>(&call_ix<I, R>(b8, lastix) - b8.container_data());
            int const v8 = call_ix<I, R>(b8, lastix);
            CHECK(sub, k, o6 == P - 1 && o8 == P - 1 && v8 == 1000 + static_cast<int>(P - 1), "mdarray(extents, container) / copy: last multi-index refers to container_data()+%lld / +%lld, expected +%lld", o6, o8, P - 1);
        }
    }
    if constexpr (left) { check_mdarray_transfer<E, L>(sub, k, sh); } // (swap/assignment do not depend on the layout: one layout keeps the compile time down)
    // etl::array as container (all-static extents)
    if constexpr (E::rank_dynamic() == 0) {
        constexpr std::size_t N = static_cast<std::size_t>(M{}.required_span_size());
        if constexpr (N > 0) {
            using AA = etl::mdarray<int, E, L, etl::array<int, N>>;
            auto pa  = std::make_unique<AA>(e, 5);
            CHECK(sub, k, pa->container_size() == N && static_cast<ll>(pa->size()) == P, "mdarray over etl::array: container_size() = %zu, size() = %lld", pa->container_size(), static_cast<ll>(pa->size()));
            for (std::size_t i = 0; i < N; ++i) {
                CHECK(sub, k, pa->container_data()[i] == 5, "mdarray<etl::array>(extents, value): element %zu is %d", i, pa->container_data()[i]);
                pa->container_data()[i] = 1000 + static_cast<int>(i);
            }
            nacc = collect_view<I, R>(*pa, pa->container_data(), sh, P);
            REQUIRE_OK(view_ok(sub, k, sh, st, nacc, "mdarray over etl::array"));
        }
    }
    vf::eval(sub);
}

// ------------------------------------------------------------------------------------------------ 6b. submdspan_extents
// Every combination of full_extent / index slices (var = bit mask of the kept dimensions); index slices are `int` in even
// and `size_t` in odd dimensions and select the last valid index.  Not part of the check: strided_slice (static_assert in
// the library), pair-like slices (only usable for integral-constant pairs over static extents; helpers incomplete).
template <unsigned Mask, std::size_t Dim>
auto sub_slice(int const* idx)
{
    if constexpr (((Mask >> Dim) & 1U) != 0) {
        return etl::full_extent;
    } else if constexpr (Dim % 2 == 0) {
        return idx[Dim];
    } else {
        return static_cast<std::size_t>(idx[Dim]);
    }
}
template <typename E, unsigned Mask, std::size_t... Ds>
auto collect_subext_impl(E const& e, int const* idx, std::index_sequence<Ds...> /*unused*/) -> SubExt
{
    auto const r = etl::submdspan_extents(e, sub_slice<Mask, Ds>(idx)...);
    using SE     = std::remove_cv_t<decltype(r)>;
    SubExt out{};
    out.rank            = static_cast<int>(SE::rank());
    out.same_index_type = std::is_same_v<typename SE::index_type, typename E::index_type>;
    for (std::size_t i = 0; i < SE::rank(); ++i) {
        out.st[i] = SE::static_extent(i);
        out.e[i]  = static_cast<ll>(r.extent(i));
    }
    return out;
}
template <typename E, unsigned Mask>
auto collect_subext(void const* e, int const* idx) -> SubExt
{
    return collect_subext_impl<E, Mask>(*static_cast<E const*>(e), idx, std::make_index_sequence<E::rank()>{});
}
using SubExtFn = SubExt (*)(void const*, int const*);
// everything that does not depend on the extents type: which masks are admissible, the model, the bookkeeping
void run_subext(Case const& k0, Shape const& sh, std::size_t const* statics, void const* e, SubExtFn const* fns)
{
    int idx[4] = {0, 0, 0, 0};
    for (int r = 0; r < sh.rank; ++r) { idx[r] = sh.e[r] > 0 ? static_cast<int>(sh.e[r]) - 1 : 0; }
    for (unsigned mask = 0; mask < (1U << sh.rank); ++mask) {
        Case k = k0;
        k.var  = static_cast<int>(mask);
        if (!want("submdspan_extents", k)) { continue; }
        int nkept       = 0;
        int kept[4]     = {0, 0, 0, 0};
        bool admissible = true;
        for (int r = 0; r < sh.rank; ++r) {
            if (((mask >> r) & 1U) != 0) {
                kept[nkept++] = r;
            } else if (sh.e[r] == 0) {
                admissible = false; // precondition: an index slice must be < extent
            }
        }
        if (!admissible) {
            vf::count("submdspan_extents.skipped_index_into_empty_dimension");
            continue;
        }
        bool palindrome = true;
        bool square     = true;
        for (int i = 0; i < nkept; ++i) {
            palindrome = palindrome && statics[kept[i]] == statics[kept[nkept - 1 - i]];
            square     = square && sh.e[kept[i]] == sh.e[kept[0]];
        }
        if (!palindrome && vf::ctx().excluded("submdspan_extents.static_order")) {
            vf::excluded_known("submdspan_extents.static_order");
            continue;
        }
        vf::Flight<Case> fl("submdspan_extents", k);
        SubExt const got = fns[mask](e, idx);
        if (!subext_ok(k, sh, statics, mask, got)) { return; }
        vf::eval("submdspan_extents");
        if (nkept >= 2 && (!square || !palindrome)) { vf::nontrivial_count(); }
        vf::label("submdspan_extents.two_or_more_kept_non_square", nkept >= 2 && !square);
        vf::label("submdspan_extents.kept_static_pattern_not_palindromic", !palindrome);
    }
}
template <typename E>
void check_submdspan_extents(Case const& k0, Shape const& sh)
{
    constexpr auto R = E::rank();
    std::size_t statics[4] = {D, D, D, D};
    for (std::size_t r = 0; r < R; ++r) { statics[r] = E::static_extent(r); }
    E const e = make_all<E, int>(sh);
    static constexpr auto fns = []<unsigned... Ms>(std::integer_sequence<unsigned, Ms...>) { return std::array<SubExtFn, sizeof...(Ms)>{&collect_subext<E, Ms>...}; }(std::make_integer_sequence<unsigned, (1U << R)>{});
    run_subext(k0, sh, statics, &e, fns.data());
}

// ------------------------------------------------------------------------------------------------ 6. layout_transpose (rank 2)
template <typename E, typename L>
void check_transpose(Case const& k, Shape const& sh)
{
    using I               = typename E::index_type;
    using ET              = typename transposed2<E>::type;
    using NM              = typename L::template mapping<ET>;
    using LT              = etl::linalg::layout_transpose<L>;
    using TM              = typename LT::template mapping<E>;
    constexpr bool left   = std::is_same_v<L, etl::layout_left>;
    char const* const sub = left ? "transpose_left" : "transpose_right";
    vf::Flight<Case> fl(sub, k);
    ll g[4] = {0, 0, 0, 0};
    Shape const tsh{2, {sh.e[1], sh.e[0], 0, 0}};
    ll const P  = prod(sh);
    ET const et = make_all<ET, int>(tsh);
    NM const nested(et);
    TM const tm(nested);
    auto const te = tm.extents();
    EXT_IS("layout_transpose mapping.extents()", te);
    CHECK(sub, k, static_cast<ll>(tm.required_span_size()) == P, "required_span_size() = %lld, expected %lld", static_cast<ll>(tm.required_span_size()), P);
    bool const flags = TM::is_always_unique() && TM::is_always_strided() && tm.is_unique() && tm.is_strided();
    CHECK(sub, k, flags, "is_(always_)unique/strided not true");
    // the transpose of row-major over (e1,e0) is column-major over (e0,e1), and vice versa
    ll st[4] = {0, 0, 0, 0};
    left ? right_strides(sh, st) : left_strides(sh, st);
    ll const s0 = static_cast<ll>(tm.stride(0));
    ll const s1 = static_cast<ll>(tm.stride(1));
    CHECK(sub, k, s0 == st[0] && s1 == st[1], "stride(0),stride(1) = %lld,%lld expected %lld,%lld", s0, s1, st[0], st[1]);
    collect_offsets<I, 2>(tm, sh, g_offs[0]);
    REQUIRE_OK(offsets_ok(sub, k, sh, g_offs[0], P, left ? Formula::right : Formula::left, nullptr, "mapping"));
    {
        Shape const& shape_of_nested = tsh;
        ll gn[4]                     = {0, 0, 0, 0};
        get_ext(tm.nested_mapping().extents(), gn);
        REQUIRE_OK(ext_ok(sub, k, shape_of_nested, gn, "nested_mapping().extents()"));
    }
    // mdspan over the transposed layout
    using MD  = etl::mdspan<int, E, LT>;
    auto blk  = make_block(P);
    int* base = blk.get();
    MD const m(base, tm);
    REQUIRE_OK(facts_ok(sub, k, sh, st, true, collect_facts(m, m.data_handle(), base, true), "mdspan over layout_transpose"));
    int const nacc = collect_view<I, 2, true>(m, base, sh, P);
    REQUIRE_OK(view_ok(sub, k, sh, st, nacc, "mdspan over layout_transpose"));
    vf::eval(sub);
}
#undef EXT_IS
#undef EXT_IS_SHAPE

// ------------------------------------------------------------------------------------------------ deduction guides
#if defined(C19_CTAD)
template <std::size_t R>
void check_ctad_rank()
{
    char const* const sub = "ctad";
    static char const* const names[5] = {"ctad0", "ctad1", "ctad2", "ctad3", "ctad4"};
    Shape sh{static_cast<int>(R), {3, 2, 4, 1}};
    Case const k{names[R], static_cast<int>(R), {3, 2, 4, 1}, 0};
    if (!want(sub, k)) { return; }
    vf::Flight<Case> fl(sub, k);
    ll g[4]    = {0, 0, 0, 0};
    ll const P = prod(sh);
    ll st[4]   = {0, 0, 0, 0};
    right_strides(sh, st);
    auto blk  = make_block(P);
    int* base = blk.get();
    auto const e = make_all_impl<etl::dextents<std::size_t, R>, int>(sh, std::make_index_sequence<R>{});
    if constexpr (R > 0) {
        // extents(ints...) -> extents<size_t, dynamic...>;  mdspan(ptr, ints...) -> mdspan<T, dextents<size_t, R>>
        auto const de = [&]<std::size_t... Is>(std::index_sequence<Is...>) { return etl::extents(static_cast<int>(sh.e[Is])...); }(std::make_index_sequence<R>{});
        static_assert(std::is_same_v<std::remove_cv_t<decltype(de)>, etl::dextents<std::size_t, R>>);
        get_ext(de, g);
        REQUIRE_OK(ext_ok(sub, k, sh, g, "extents(ints...) [deduced]"));
        auto const m1 = [&]<std::size_t... Is>(std::index_sequence<Is...>) { return etl::mdspan(base, static_cast<int>(sh.e[Is])...); }(std::make_index_sequence<R>{});
        static_assert(std::is_same_v<std::remove_cv_t<decltype(m1)>, etl::mdspan<int, etl::dextents<std::size_t, R>>>);
        REQUIRE_OK(facts_ok(sub, k, sh, st, true, collect_facts(m1, m1.data_handle(), base, true), "mdspan(ptr, ints...) [deduced]"));
        int const n1 = collect_view<std::size_t, R>(m1, base, sh, P);
        REQUIRE_OK(view_ok(sub, k, sh, st, n1, "mdspan(ptr, ints...) [deduced]"));
    }
    auto const m2 = etl::mdspan(base, e);
    static_assert(std::is_same_v<std::remove_cv_t<decltype(m2)>, etl::mdspan<int, etl::dextents<std::size_t, R>>>);
    REQUIRE_OK(facts_ok(sub, k, sh, st, R > 0, collect_facts(m2, m2.data_handle(), base, R > 0), "mdspan(ptr, extents) [deduced]"));
    auto const m3 = etl::mdspan(base, etl::layout_left::mapping<etl::dextents<std::size_t, R>>(e));
    static_assert(std::is_same_v<std::remove_cv_t<decltype(m3)>, etl::mdspan<int, etl::dextents<std::size_t, R>, etl::layout_left>>);
    ll lst[4] = {0, 0, 0, 0};
    left_strides(sh, lst);
    REQUIRE_OK(facts_ok(sub, k, sh, lst, R > 0, collect_facts(m3, m3.data_handle(), base, R > 0), "mdspan(ptr, layout_left mapping) [deduced]"));
    int const n3 = collect_view<std::size_t, R>(m3, base, sh, P);
    REQUIRE_OK(view_ok(sub, k, sh, lst, n3, "mdspan(ptr, layout_left mapping) [deduced]"));
    if constexpr (R == 1) {
        auto hold = std::make_unique<std::array<int[3], 1>>();
        for (int i = 0; i < 3; ++i) { (*hold)[0][i] = 1000 + i; }
        auto const m4 = etl::mdspan((*hold)[0]); // C array -> extents<size_t, 3>
        static_assert(std::is_same_v<std::remove_cv_t<decltype(m4)>, etl::mdspan<int, etl::extents<std::size_t, 3>>>);
        bool const ok = m4.size() == 3 && &m4(2) == &(*hold)[0][2] && m4.extent(0) == 3;
        CHECK(sub, k, ok, "mdspan(int(&)[3]) [deduced]: size() = %zu", static_cast<std::size_t>(m4.size()));
    }
    vf::eval(sub);
    vf::nontrivial_count();
}
void check_ctad()
{
    check_ctad_rank<0>();
    check_ctad_rank<1>();
    check_ctad_rank<2>();
    check_ctad_rank<3>();
    check_ctad_rank<4>();
}
#endif

// ================================================================================================ wide values (no memory touched)
// 7. operator== / operator!= between extents (and layout_left/right mappings) of DIFFERENT index types, static/dynamic
//    patterns and ranks, with extent values around the limits of the narrower index type.  Definition: equal iff the
//    ranks agree and extent(i) are equal as mathematical integers (std: cmp_equal); a rank mismatch is false.
//    (Mappings of different rank are not compared: std constrains that operator== away.)
// 8. layout_left / layout_right / layout_stride arithmetic with LARGE dynamic extents: required_span_size, stride(r) and
//    the offsets of a sample of multi-indices (origin, last, axis ends, random) against the closed forms evaluated in
//    unsigned __int128.  Pure arithmetic: no view is dereferenced.
using u128 = unsigned __int128;
using ull  = unsigned long long;

auto u128_str(u128 v) -> std::string
{
    if (v == 0) { return "0"; }
    std::string s;
    while (v != 0) {
        s.insert(s.begin(), static_cast<char>('0' + static_cast<int>(v % 10)));
        v /= 10;
    }
    return s;
}
auto prod128(Shape const& s) -> u128
{
    u128 p = 1;
    for (int i = 0; i < s.rank; ++i) { p *= static_cast<u128>(static_cast<ull>(s.e[i])); }
    return p;
}

// ---------------------------------------------------------------- 7. equality
constexpr ll eq_values_full[]  = {0, 1, 2, 3, 44, 127, 128, 255, 256, 300, 32767, 32768, 65535, 65536, 65580, 2147483647LL, 2147483648LL, 4294967295LL, 4294967296LL, 4294967340LL, 1LL << 62};
constexpr ll eq_values_small[] = {0, 3, 44, 128, 300, 65580, 4294967340LL};
// candidate values of one dimension: its static extent, or every listed value representable in the index type
auto eq_candidates(std::size_t st, ull imaxv, bool full, ll* out) -> int
{
    if (st != D) {
        out[0] = static_cast<ll>(st);
        return 1;
    }
    int n = 0;
    if (full) {
        for (ll v : eq_values_full) {
            if (static_cast<ull>(v) <= imaxv) { out[n++] = v; }
        }
    } else {
        for (ll v : eq_values_small) {
            if (static_cast<ull>(v) <= imaxv) { out[n++] = v; }
        }
    }
    return n;
}
[[gnu::noinline]] auto eq_report(Case const& k, char const* what, bool exp, bool ab, bool ba, bool nab, bool nba) -> bool
{
    if (ab == exp && ba == exp && nab == !exp && nba == !exp) { return true; }
    fail("equality", k, "%s: a == b is %d, b == a is %d, a != b is %d, b != a is %d; by definition (same rank and every extent equal as integers) equality is %d", what, static_cast<int>(ab), static_cast<int>(ba), static_cast<int>(nab), static_cast<int>(nba),
        static_cast<int>(exp));
    return false;
}
template <typename E1, typename E2>
void check_eq(char const* name)
{
    using I1               = typename E1::index_type;
    using I2               = typename E2::index_type;
    constexpr std::size_t R1 = E1::rank();
    constexpr std::size_t R2 = E2::rank();
    static_assert(R1 + R2 <= 4);
    constexpr int N = static_cast<int>(R1 + R2);
    ll cand[4][24];
    int cnt[4]      = {1, 1, 1, 1};
    bool const full = R1 <= 1 && R2 <= 1;
    for (std::size_t d = 0; d < R1; ++d) { cnt[d] = eq_candidates(E1::static_extent(d), imax<I1>(), full, cand[d]); }
    for (std::size_t d = 0; d < R2; ++d) { cnt[R1 + d] = eq_candidates(E2::static_extent(d), imax<I2>(), full, cand[R1 + d]); }
    int idx[4] = {0, 0, 0, 0};
    for (;;) {
        Shape s1{static_cast<int>(R1), {0, 0, 0, 0}};
        Shape s2{static_cast<int>(R2), {0, 0, 0, 0}};
        Case k{name, N, {0, 0, 0, 0}, 0};
        for (std::size_t d = 0; d < R1; ++d) { k.e[d] = s1.e[d] = cand[d][idx[d]]; }
        for (std::size_t d = 0; d < R2; ++d) { k.e[R1 + d] = s2.e[d] = cand[R1 + d][idx[R1 + d]]; }
        if (want("equality", k)) {
            vf::Flight<Case> fl("equality", k);
            bool exp       = R1 == R2;
            bool congruent = R1 == R2;
            if constexpr (R1 == R2) {
                for (std::size_t d = 0; d < R1; ++d) {
                    exp       = exp && s1.e[d] == s2.e[d];
                    congruent = congruent && ((s1.e[d] ^ s2.e[d]) & 0xFF) == 0;
                }
            }
            E1 const e1 = make_all<E1, ll>(s1);
            E2 const e2 = make_all<E2, ll>(s2);
            if (!eq_report(k, "extents", exp, e1 == e2, e2 == e1, e1 != e2, e2 != e1)) { return; }
            if constexpr (R1 == R2) {
                // mappings: precondition required_span_size representable in the respective index type
                if (prod128(s1) <= imax<I1>() && prod128(s2) <= imax<I2>()) {
                    etl::layout_left::mapping<E1> const l1(e1);
                    etl::layout_left::mapping<E2> const l2(e2);
                    if (!eq_report(k, "layout_left mappings", exp, l1 == l2, l2 == l1, l1 != l2, l2 != l1)) { return; }
                    etl::layout_right::mapping<E1> const r1(e1);
                    etl::layout_right::mapping<E2> const r2(e2);
                    if (!eq_report(k, "layout_right mappings", exp, r1 == r2, r2 == r1, r1 != r2, r2 != r1)) { return; }
                    vf::count("equality.mappings_compared");
                }
            }
            vf::eval("equality");
            bool const nt = R1 != R2 || (congruent && !exp) || (exp && !std::is_same_v<I1, I2>);
            if (nt) { vf::nontrivial_count(); }
            vf::label("equality.different_but_congruent_mod_256", congruent && !exp);
            vf::label("equality.rank_mismatch", R1 != R2);
            vf::label("equality.equal", exp);
            if (congruent && !exp && idx[0] % 5 == 2) { vf::sample("equality", [&] { return show_case(k) + " (extents differ but agree modulo 256: must compare unequal in both operand orders)"; }); }
        }
        int d = N - 1;
        for (; d >= 0; --d) {
            if (++idx[d] < cnt[d]) { break; }
            idx[d] = 0;
        }
        if (d < 0) { break; }
    }
}

// ---------------------------------------------------------------- 8. large extents
template <typename I, typename F, std::size_t... Is>
decltype(auto) call_ixll_impl(F& f, ll const* ix, std::index_sequence<Is...> /*unused*/)
{
    return f(static_cast<I>(ix[Is])...);
}
constexpr int wide_samples = 12;
// sample multi-indices of a shape (no zero extent): origin, last, the end of each axis, random ones (seeded by the shape)
auto wide_indices(Shape const& sh, ll (*ix)[4]) -> int
{
    int n = 0;
    auto add = [&](auto f) {
        for (int r = 0; r < 4; ++r) { ix[n][r] = r < sh.rank ? f(r) : 0; }
        ++n;
    };
    add([&](int) { return ll{0}; });
    add([&](int r) { return sh.e[r] - 1; });
    for (int a = 0; a < sh.rank; ++a) {
        add([&](int r) { return r == a ? sh.e[r] - 1 : ll{0}; });
    }
    std::uint64_t h = 0xC19;
    for (int r = 0; r < sh.rank; ++r) { h = vf::mix(h, sh.e[r]); }
    vf::Rng rng(h);
    while (n < wide_samples) {
        add([&](int r) { return static_cast<ll>(rng.below(static_cast<std::uint64_t>(sh.e[r]))); });
    }
    return n;
}
[[gnu::noinline]] auto wide_ok(Case const& k, Shape const& sh, char const* what, u128 got_rss, bool has_rss, ll const* got_st, bool has_st, ll const* got_off, int noff, ll const (*ix)[4], Formula f, ll const* st, u128 exp_rss) -> bool
{
    if (has_rss && got_rss != exp_rss) {
        fail("wide", k, "%s: required_span_size() = %s, expected %s", what, u128_str(got_rss).c_str(), u128_str(exp_rss).c_str());
        return false;
    }
    for (int r = 0; has_st && r < sh.rank; ++r) {
        if (got_st[r] != st[r]) {
            fail("wide", k, "%s: stride(%d) = %lld, expected %lld", what, r, got_st[r], st[r]);
            return false;
        }
    }
    for (int i = 0; i < noff; ++i) {
        u128 exp = 0;
        if (f == Formula::right) {
            for (int r = 0; r < sh.rank; ++r) { exp = exp * static_cast<ull>(sh.e[r]) + static_cast<ull>(ix[i][r]); }
        } else if (f == Formula::left) {
            for (int r = sh.rank - 1; r >= 0; --r) { exp = exp * static_cast<ull>(sh.e[r]) + static_cast<ull>(ix[i][r]); }
        } else {
            for (int r = 0; r < sh.rank; ++r) { exp += static_cast<u128>(static_cast<ull>(ix[i][r])) * static_cast<ull>(st[r]); }
        }
        if (static_cast<u128>(static_cast<ull>(got_off[i])) != exp || exp >= exp_rss) {
            fail("wide", k, "%s: mapping(%lld,%lld,%lld,%lld)[rank %d] = %lld, closed form (128-bit) gives %s, required_span_size %s", what, ix[i][0], ix[i][1], ix[i][2], ix[i][3], sh.rank, got_off[i], u128_str(exp).c_str(), u128_str(exp_rss).c_str());
            return false;
        }
    }
    return true;
}
// strides of variant `var` (same scheme as make_strides) in 128-bit arithmetic; false if anything exceeds `limit`
auto wide_strides(Shape const& sh, int var, ull limit, ll* s, u128& rss) -> bool
{
    int perm[4]  = {0, 1, 2, 3};
    int const pm = var % 3;
    unrank_perm(sh.rank, var / 3, perm);
    u128 w[4] = {0, 0, 0, 0};
    for (int i = 0; i < sh.rank; ++i) {
        if (i == 0) {
            w[perm[0]] = pm == 2 ? 2 : 1;
        } else {
            u128 const below = w[perm[i - 1]];
            u128 const eprev = sh.e[perm[i - 1]] < 1 ? 1 : static_cast<ull>(sh.e[perm[i - 1]]);
            w[perm[i]]       = pm == 0 ? below * eprev : pm == 1 ? below * eprev + static_cast<unsigned>(i) : below * (eprev + 1);
        }
        if (w[perm[i]] > limit) { return false; }
    }
    bool zero = false;
    rss       = 1;
    for (int r = 0; r < sh.rank; ++r) {
        zero = zero || sh.e[r] == 0;
        if (sh.e[r] > 0) { rss += static_cast<u128>(static_cast<ull>(sh.e[r] - 1)) * w[r]; }
        s[r] = static_cast<ll>(w[r]);
    }
    if (zero) { rss = 0; }
    return rss <= limit;
}
template <typename E>
void check_wide(Case const& k, Shape const& sh)
{
    using I          = typename E::index_type;
    constexpr auto R = E::rank();
    vf::Flight<Case> fl("wide", k);
    constexpr ull limit = imax<I>() < (1ULL << 62) ? imax<I>() : (1ULL << 62);
    E const e           = make_all<E, ll>(sh);
    {
        ll g[4] = {0, 0, 0, 0};
        get_ext(e, g);
        if (!ext_ok("wide", k, sh, g, "extents(rank-many values)")) { return; }
    }
    u128 const P = prod128(sh);
    ll ix[wide_samples][4];
    int const nix = P == 0 ? 0 : wide_indices(sh, ix);
    ll off[wide_samples];
    ll st[4]  = {0, 0, 0, 0};
    ll got[4] = {0, 0, 0, 0};
    auto run = [&]<typename M>(M const& m, char const* what, Formula f, u128 rss, bool has_rss) -> bool {
        if constexpr (R > 0) {
            for (std::size_t r = 0; r < R; ++r) { got[r] = static_cast<ll>(m.stride(r)); }
        }
        for (int i = 0; i < nix; ++i) { off[i] = static_cast<ll>(call_ixll_impl<I>(m, ix[i], std::make_index_sequence<R>{})); }
        u128 grss = 0;
        if constexpr (requires { m.required_span_size(); } && (!std::is_same_v<typename M::layout_type, etl::layout_stride> || has_defined_rss<M>)) { grss = static_cast<u128>(static_cast<ull>(m.required_span_size())); }
        return wide_ok(k, sh, what, grss, has_rss, got, R > 0, off, nix, ix, f, st, rss);
    };
    // partial products are representable whenever the shape generator produced the shape (it bounds the product of the
    // non-zero extents), so stride(r) is well defined also for shapes with a zero extent
    left_strides(sh, st);
    if (!run(etl::layout_left::mapping<E>(e), "layout_left", Formula::left, P, true)) { return; }
    right_strides(sh, st);
    if (!run(etl::layout_right::mapping<E>(e), "layout_right", Formula::right, P, true)) { return; }
    {
        // mdspan facts over a null handle (nothing is dereferenced)
        etl::mdspan<int, E> const m(nullptr, e);
        bool const ok = static_cast<u128>(static_cast<ull>(m.size())) == P && m.empty() == (P == 0);
        CHECK("wide", k, ok, "mdspan::size() = %llu, expected %s", static_cast<ull>(m.size()), u128_str(P).c_str());
    }
    if constexpr (R > 0) {
        int const nvar = nperms(static_cast<int>(R)) * 3;
        for (int v = 0; v < nvar; ++v) {
            u128 rss = 0;
            if (!wide_strides(sh, v, limit, st, rss)) {
                vf::count("wide.stride_variant_not_representable");
                continue;
            }
            etl::array<I, R> sa{};
            for (std::size_t r = 0; r < R; ++r) { sa[r] = static_cast<I>(st[r]); }
            etl::layout_stride::mapping<E> const m(e, sa);
            char what[48];
            std::snprintf(what, sizeof what, "layout_stride (stride variant %d)", v);
            if (!run(m, what, Formula::strided, rss, has_defined_rss<etl::layout_stride::mapping<E>>)) { return; }
            vf::count("wide.stride_variants_checked");
        }
    }
    vf::eval("wide");
    vf::nontrivial_count();
}
struct WideOps {
    char const* name;
    int rank;
    std::size_t st[4];
    ull imax;
    void (*fn)(Case const&, Shape const&);
};
template <typename E>
auto wide_for(char const* name) -> WideOps
{
    WideOps t{};
    t.name = name;
    t.rank = static_cast<int>(E::rank());
    for (std::size_t r = 0; r < E::rank(); ++r) { t.st[r] = E::static_extent(r); }
    t.imax = imax<typename E::index_type>();
    t.fn   = &check_wide<E>;
    return t;
}
// shapes with large dynamic extents whose index space (and every partial product) is representable
void wide_shapes(WideOps const& t, vf::Rng& rng, int nrandom, std::vector<Shape>& out)
{
    ull const limit = t.imax < (1ULL << 62) ? t.imax : (1ULL << 62);
    int dyn[4]      = {0, 0, 0, 0};
    int nd          = 0;
    ull S           = 1;
    for (int r = 0; r < t.rank; ++r) {
        if (t.st[r] == D) {
            dyn[nd++] = r;
        } else {
            S *= t.st[r];
        }
    }
    if (nd == 0 || S == 0 || S > limit) { return; }
    ull const budget = limit / S;
    auto emit = [&](ull const* v) {
        Shape sh{t.rank, {0, 0, 0, 0}};
        for (int r = 0; r < t.rank; ++r) { sh.e[r] = t.st[r] == D ? 0 : static_cast<ll>(t.st[r]); }
        u128 p = S;
        for (int j = 0; j < nd; ++j) {
            sh.e[dyn[j]] = static_cast<ll>(v[j]);
            if (v[j] != 0) { p *= v[j]; }
        }
        if (p <= limit) { out.push_back(sh); }
    };
    ull v[4];
    auto ones = [&] {
        for (int j = 0; j < 4; ++j) { v[j] = 1; }
    };
    // boundary shapes: the whole budget in one dimension; values around the limits of the narrower index types
    for (int j = 0; j < nd; ++j) {
        ones();
        v[j] = budget;
        emit(v);
        for (ull b : {127ULL, 128ULL, 255ULL, 256ULL, 32767ULL, 32768ULL, 65535ULL, 65536ULL, 2147483647ULL, 2147483648ULL, 4294967295ULL, 4294967296ULL, 4294967340ULL}) {
            if (b > budget) { continue; }
            ones();
            v[j] = b;
            emit(v);
            if (nd > 1) {
                v[(j + 1) % nd] = budget / b < 3 ? budget / b : 3;
                emit(v);
                v[(j + 1) % nd] = budget / b;
                emit(v);
            }
        }
    }
    // balanced: every dynamic extent about budget^(1/nd)
    {
        // largest root with root^nd <= budget (binary search, 128-bit products)
        ull lo = 1;
        ull hi = nd == 1 ? budget : nd == 2 ? (1ULL << 31) : nd == 3 ? (1ULL << 21) : (1ULL << 16); // (limit <= 2^62)
        while (lo < hi) {
            ull const mid = lo + (hi - lo + 1) / 2;
            u128 p        = 1;
            for (int j = 0; j < nd; ++j) { p *= mid; }
            if (p <= budget) {
                lo = mid;
            } else {
                hi = mid - 1;
            }
        }
        ull const root = lo;
        for (int j = 0; j < 4; ++j) { v[j] = root; }
        emit(v);
        v[0] = root > 1 ? root - 1 : 1;
        emit(v);
        v[nd - 1] = 0;
        emit(v);
    }
    // random splits of the budget
    for (int i = 0; i < nrandom; ++i) {
        ull rem = budget;
        int order[4] = {0, 1, 2, 3};
        for (int j = nd - 1; j > 0; --j) { std::swap(order[j], order[rng.below(static_cast<std::uint64_t>(j) + 1)]); }
        for (int q = 0; q < nd; ++q) {
            int const j = order[q];
            ull x;
            if (q == nd - 1 && rng.below(2) == 0) {
                x = rem;
            } else {
                int bits = 0;
                while ((rem >> bits) > 1) { ++bits; }
                int const b = static_cast<int>(rng.below(static_cast<std::uint64_t>(bits) + 1));
                ull const hi = b >= 63 ? rem : std::min<ull>(rem, (2ULL << b) - 1);
                ull const lo = 1ULL << b;
                x            = lo >= hi ? hi : lo + rng.below(hi - lo + 1);
            }
            if (x == 0) { x = 1; }
            v[j] = x;
            rem /= x;
            if (rem == 0) { rem = 1; }
        }
        if (rng.below(12) == 0) { v[rng.below(static_cast<std::uint64_t>(nd))] = 0; }
        emit(v);
    }
}
void run_wide(WideOps const& t, vf::Ctx& c, std::uint64_t salt)
{
    vf::Rng rng(c.seed * 7919 + salt);
    std::vector<Shape> shapes;
    wide_shapes(t, rng, c.thorough() ? 200 : 40, shapes);
    for (auto const& sh : shapes) {
        Case const k{t.name, t.rank, {sh.e[0], sh.e[1], sh.e[2], sh.e[3]}, 0};
        t.fn(k, sh);
        bool big = false;
        for (int r = 0; r < t.rank; ++r) { big = big || sh.e[r] > 65535; }
        vf::label("wide.extent_above_65535", big);
        vf::label("wide.has_zero_extent", has_zero(sh));
        if (big && t.rank >= 3 && (sh.e[0] % 7) == 3) { vf::sample("wide", [&] { return show_case(k) + " (layout_left/right/stride arithmetic against 128-bit closed forms)"; }); }
    }
}
struct EqOps {
    char const* name;
    void (*fn)(char const*);
};
template <typename T> struct arg_type;
template <typename U> struct arg_type<void(U)> { using type = U; };

// ------------------------------------------------------------------------------------------------ per-type table + driver
struct TypeOps {
    char const* name;
    int rank;
    std::size_t st[4];      // static extents (D = dynamic)
    unsigned long long imax; // numeric_limits<index_type>::max()
    void (*extents)(Case const&, Shape const&);
    void (*lr[2])(Case const&, Shape const&);     // layout_left, layout_right
    void (*md[2])(Case const&, Shape const&);     // mdspan over left/right
    void (*arr[2])(Case const&, Shape const&);    // mdarray over left/right
    void (*tr[2])(Case const&, Shape const&);     // layout_transpose<left/right> (rank 2 only, else null)
    void (*stride)(Case const&, Shape const&, StrideInfo const&);
    void (*mdstride)(Case const&, Shape const&, StrideInfo const&);
    void (*subext)(Case const&, Shape const&); // submdspan_extents, all slice masks
};
// Level 2 (C19_TYPE): everything.  Level 1 (C19_TYPE_L, "light"): no mdspan<left/right> and mdarray suites (they are 57 % of
// the compile time of a type).  Level 0 (C19_TYPE_C, "core"): extents + layout_left/right mappings only.  The
// static/dynamic pattern only matters inside etl::extents, which every level exercises completely; see gen/C19_gen.py.
template <typename E, int Level>
auto ops_for(char const* name) -> TypeOps
{
    TypeOps t{};
    t.name = name;
    t.rank = static_cast<int>(E::rank());
    for (std::size_t r = 0; r < E::rank(); ++r) { t.st[r] = E::static_extent(r); }
    t.imax    = imax<typename E::index_type>();
    t.extents = &check_extents<E>;
    t.lr[0]   = &check_lr<E, etl::layout_left>;
    t.lr[1]   = &check_lr<E, etl::layout_right>;
    if constexpr (Level >= 2) {
        t.md[0]  = &check_mdspan_lr<E, etl::layout_left>;
        t.md[1]  = &check_mdspan_lr<E, etl::layout_right>;
        t.arr[0] = &check_mdarray<E, etl::layout_left>;
        t.arr[1] = &check_mdarray<E, etl::layout_right>;
    }
    if constexpr (Level >= 1) {
        t.stride   = &check_stride<E>;
        t.mdstride = &check_mdspan_stride<E>;
        t.subext   = &check_submdspan_extents<E>;
        if constexpr (E::rank() == 2) {
            t.tr[0] = &check_transpose<E, etl::layout_left>;
            t.tr[1] = &check_transpose<E, etl::layout_right>;
        }
    }
    return t;
}

void run_type(TypeOps const& t)
{
    int const R    = t.rank;
    int dp[4]      = {0, 0, 0, 0};
    int RD         = 0;
    for (int r = 0; r < R; ++r) {
        if (t.st[r] == D) { dp[RD++] = r; }
    }
    int const base = g_ctl.maxext + 1;
    ll nshapes     = 1;
    for (int j = 0; j < RD; ++j) { nshapes *= base; }
    bool const mixed = R >= 2 && RD > 0 && RD < R;
    static char const* const sub_lr[2]  = {"layout_left", "layout_right"};
    static char const* const sub_md[2]  = {"mdspan_left", "mdspan_right"};
    static char const* const sub_arr[2] = {"mdarray_left", "mdarray_right"};
    static char const* const sub_tr[2]  = {"transpose_left", "transpose_right"};
    for (ll code = 0; code < nshapes; ++code) {
        Shape sh{R, {0, 0, 0, 0}};
        for (int r = 0; r < R; ++r) { sh.e[r] = t.st[r] == D ? 0 : static_cast<ll>(t.st[r]); }
        ll c = code;
        for (int j = RD - 1; j >= 0; --j) {
            sh.e[dp[j]] = c % base;
            c /= base;
        }
        Case k{t.name, R, {sh.e[0], sh.e[1], sh.e[2], sh.e[3]}, 0};
        if (g_ctl.filter) {
            bool same = true;
            for (int r = 0; r < R; ++r) { same = same && g_ctl.fe[r] == k.e[r]; }
            if (!same) { continue; }
        }
        // precondition of the library (and of std): the size of the index space is representable in index_type
        if (static_cast<unsigned long long>(prod(sh)) > t.imax) {
            vf::count("shape.skipped_not_representable");
            continue;
        }
        bool const zero = has_zero(sh);
        vf::label("shape.has_zero_extent", zero);
        vf::label("shape.mixed_static_dynamic(rank>=2)", mixed);
        if (R == 0) { vf::count("shape.rank0 (one shape per rank-0 type)"); }
        vf::label("type.level_full(mdspan+mdarray)", t.md[0] != nullptr);
        vf::label("type.level_light_or_full(layout_stride)", t.stride != nullptr);
        auto nt = [&](bool extra) {
            if (zero || mixed || extra) { vf::nontrivial_count(); }
        };
        if (want("extents", k)) {
            t.extents(k, sh);
            nt(false);
        }
        for (int l = 0; l < 2; ++l) {
            if (want(sub_lr[l], k)) {
                t.lr[l](k, sh);
                nt(false);
            }
            if (t.md[l] != nullptr && want(sub_md[l], k)) {
                t.md[l](k, sh);
                nt(false);
            }
            if (t.arr[l] != nullptr && want(sub_arr[l], k)) {
                t.arr[l](k, sh);
                nt(false);
            }
            if (t.tr[l] != nullptr && want(sub_tr[l], k)) {
                t.tr[l](k, sh);
                nt(false);
            }
        }
        if (t.subext != nullptr && (!g_ctl.filter || g_ctl.fsub == "submdspan_extents")) { t.subext(k, sh); }
        int const nvar = R == 0 ? 1 : nperms(R) * 3;
        for (int v = 0; v < nvar; ++v) {
            Case kv = k;
            kv.var  = v;
            if (t.stride == nullptr) { break; }
            bool const w1 = want("layout_stride", kv);
            bool const w2 = want("mdspan_stride", kv);
            if (!w1 && !w2) { continue; }
            StrideInfo const si = make_strides(sh, v);
            // preconditions: strides and required span size representable in index_type
            bool rep = static_cast<unsigned long long>(rss_strided(sh, si.s)) <= t.imax;
            for (int r = 0; r < R; ++r) { rep = rep && static_cast<unsigned long long>(si.s[r]) <= t.imax; }
            if (!rep) {
                vf::count("stride.skipped_not_representable");
                continue;
            }
            vf::label("stride.noncanonical", !si.canonical);
            vf::label("stride.permuted", si.permuted);
            vf::label("stride.padded", si.padded);
            if (w1) {
                t.stride(kv, sh, si);
                nt(!si.canonical);
            }
            if (w2) {
                t.mdstride(kv, sh, si);
                nt(!si.canonical);
            }
            if (!si.canonical && R >= 3 && !zero && (code % 37) == 5 && v % 11 == 4) {
                vf::sample("layout_stride", [&] { return show_case(kv) + " strides " + arr_str(R, si.s) + " span " + std::to_string(rss_strided(sh, si.s)); });
            }
        }
        if (mixed && zero && (code % 7) == 3) {
            vf::sample("extents", [&] { return show_case(k) + " (mixed static/dynamic pattern with a zero extent: all constructors, layouts, mdspan, mdarray)"; });
        }
    }
}

#define C19_TYPE(name, I, ...)   ops_for<etl::extents<I __VA_OPT__(, ) __VA_ARGS__>, 2>(name),
#define C19_TYPE_L(name, I, ...) ops_for<etl::extents<I __VA_OPT__(, ) __VA_ARGS__>, 1>(name),
#define C19_TYPE_C(name, I, ...) ops_for<etl::extents<I __VA_OPT__(, ) __VA_ARGS__>, 0>(name),
#define C19_WIDE(name, I, ...)
#define C19_EQ(name, A, B)
TypeOps const g_table[] = {
#include C19_TABLE
};
#undef C19_TYPE
#undef C19_TYPE_L
#undef C19_TYPE_C
#undef C19_WIDE
#undef C19_EQ
#define C19_TYPE(name, I, ...)
#define C19_TYPE_L(name, I, ...)
#define C19_TYPE_C(name, I, ...)
#define C19_EQ(name, A, B)
#define C19_WIDE(name, I, ...) wide_for<etl::extents<I __VA_OPT__(, ) __VA_ARGS__>>(name),
WideOps const g_wide[] = {
#include C19_TABLE
    WideOps{nullptr, 0, {0, 0, 0, 0}, 0, nullptr}, // sentinel
};
#undef C19_WIDE
#undef C19_EQ
#define C19_WIDE(name, I, ...)
#define C19_EQ(name, A, B) EqOps{name, &check_eq<typename arg_type<void A>::type, typename arg_type<void B>::type>},
EqOps const g_eq[] = {
#include C19_TABLE
    EqOps{nullptr, nullptr}, // sentinel
};

} // namespace

void vf_run(vf::Ctx& c)
{
    g_ctl.maxext    = c.thorough() ? 5 : 4; // every dynamic extent takes every value 0..maxext
    std::uint64_t i = 0;
    for (auto const& t : g_table) {
        if (!c.mine(i++)) { continue; }
        run_type(t);
        vf::count("types_instantiated");
    }
#if defined(C19_CTAD)
    if (c.shard == 0) { check_ctad(); }
#endif
    std::uint64_t salt = 0;
    for (auto const& t : g_wide) {
        ++salt;
        if (t.name == nullptr || !c.mine(i++)) { continue; }
        run_wide(t, c, salt);
    }
    for (auto const& t : g_eq) {
        if (t.name == nullptr || !c.mine(i++)) { continue; }
        t.fn(t.name);
    }
}

std::string vf_replay(std::string const& sub, std::string const& cs)
{
    // case string: "<type> e=<a,b,..|-> v=<var>"
    char type[96] = {0};
    char es[128]  = {0};
    int var       = 0;
    if (std::sscanf(cs.c_str(), "%95s e=%127s v=%d", type, es, &var) != 3) { return "unparsable case string: " + cs; }
    g_ctl.filter = true;
    g_ctl.fsub   = sub;
    g_ctl.fvar   = var;
    g_ctl.frank  = 0;
    if (std::string(es) != "-") {
        std::stringstream ss(es);
        std::string tok;
        while (std::getline(ss, tok, ',') && g_ctl.frank < 4) { g_ctl.fe[g_ctl.frank++] = std::atoll(tok.c_str()); }
    }
    g_ctl.maxext = 5;
    if (sub == "wide") { // the case string holds the complete shape: run it directly
        for (auto const& t : g_wide) {
            if (t.name != nullptr && std::string(t.name) == type && t.rank == g_ctl.frank) {
                Shape sh{t.rank, {g_ctl.fe[0], g_ctl.fe[1], g_ctl.fe[2], g_ctl.fe[3]}};
                for (int r = 0; r < t.rank; ++r) {
                    if (sh.e[r] < 0 || (t.st[r] != D && static_cast<ll>(t.st[r]) != sh.e[r])) { return "shape does not fit type " + std::string(type); }
                }
                Case const k{t.name, t.rank, {sh.e[0], sh.e[1], sh.e[2], sh.e[3]}, 0};
                g_ctl.filter = false;
                t.fn(k, sh);
                return "";
            }
        }
        return "wide type " + std::string(type) + " is not part of this harness";
    }
    if (sub == "equality") {
        for (auto const& t : g_eq) {
            if (t.name != nullptr && std::string(t.name) == type) {
                t.fn(t.name);
                return g_ctl.matched ? "" : "case not reached: " + cs;
            }
        }
        return "equality pair " + std::string(type) + " is not part of this harness";
    }
#if defined(C19_CTAD)
    if (sub == "ctad") {
        check_ctad();
        return g_ctl.matched ? "" : "case not reached: " + cs;
    }
#endif
    for (auto const& t : g_table) {
        if (std::string(t.name) == type) {
            run_type(t);
            if (!g_ctl.matched) { return "case not reached: no such shape / sub-check / variant for type " + std::string(type) + " (" + sub + ": " + cs + ")"; }
            return "";
        }
    }
    return "type " + std::string(type) + " is not instantiated in this build (gen/C19_gen.py adds the types of saved cases)";
}
