// C19 (mdspan part) — extents / layout_left / layout_right / layout_stride / layout_transpose mappings, mdspan and mdarray
// element access.  Engines E4 (generated table of extents<I, E...> instantiations, gen/C19_gen.py) + E2 (complete
// enumeration of every run-time shape of every instantiated type and of every multi-index of every shape).
//
// Oracles (written independently of the library, in `long long` arithmetic):
//   row-major    offset = ((i0*e1 + i1)*e2 + i2)*e3 + i3            stride(r) = prod_{k>r} e_k
//   column-major offset = i0 + e0*(i1 + e1*(i2 + e2*i3))            stride(r) = prod_{k<r} e_k
//   strided      offset = sum_k i_k*s_k      required_span_size = any e_k==0 ? 0 : 1 + sum_k (e_k-1)*s_k
//   transposed   layout_transpose<L>::mapping<extents<e0,e1>>(i,j) = L::mapping<extents<e1,e0>>(j,i)
//   every offset < required_span_size, offsets pairwise distinct, &m(i...) == data + offset (and the value stored there
//   is read back); every view is backed by a heap block of exactly required_span_size elements (ASan red zones).
//
// Not part of the check on this tree (declared but never defined, or ill-formed when instantiated; each is probed at
// compile time where possible so that it joins the check as soon as it becomes defined):
//   layout_stride::mapping::required_span_size(), ::is_exhaustive(), its converting constructor and operator==;
//   layout_left/right::mapping(layout_stride::mapping const&); layout_stride::mapping<extents<I>>(ext, strides) for rank 0
//   (class template argument deduction of `array{}` fails); layout_transpose::mapping::is_(always_)contiguous();
//   mdspan::operator[](i, j, ...) (needs C++23 multidimensional subscript); submdspan (commented out in the library).
//
// The same source is compiled C19_NPARTS times with -DC19_PART=k: each TU instantiates a slice of the type table.
#include <etl/linalg.hpp>
#include <etl/mdarray.hpp>
#include <etl/mdspan.hpp>
#include <etl/span.hpp>

#include <array>
#include <limits>
#include <memory>
#include <type_traits>
#include <utility>

#include "verif.hpp"

#ifndef C19_TABLE
    #error "compile with -DC19_TABLE=\"C19_types_<part>.inc\" (written by gen/C19_gen.py)"
#endif

namespace {

constexpr std::size_t D = etl::dynamic_extent;
using ll                = long long;

// ------------------------------------------------------------------------------------------------ case
struct Case {
    char const* type;
    int rank;
    int e[4];
    int var;
};
auto show_case(Case const& k) -> std::string
{
    std::string s = k.type;
    s += " e=";
    if (k.rank == 0) { s += "-"; }
    for (int i = 0; i < k.rank; ++i) {
        if (i != 0) { s += ","; }
        s += std::to_string(k.e[i]);
    }
    s += " v=" + std::to_string(k.var);
    return s;
}

struct RunCtl {
    int maxext{3};
    bool filter{false};
    std::string fsub;
    int frank{0};
    int fe[4]{0, 0, 0, 0};
    int fvar{0};
    bool matched{false};
};
RunCtl g_ctl;

// does the run want this (sub, shape, var)?  In run mode everything; in replay mode exactly one case.
auto want(char const* sub, Case const& k) -> bool
{
    if (!g_ctl.filter) { return true; }
    if (g_ctl.fsub != sub || g_ctl.frank != k.rank || g_ctl.fvar != k.var) { return false; }
    for (int i = 0; i < k.rank; ++i) {
        if (g_ctl.fe[i] != k.e[i]) { return false; }
    }
    g_ctl.matched = true;
    return true;
}

#define CHECK(sub, kase, cond, ...)                                                                                    \
    do {                                                                                                               \
        if (!(cond)) {                                                                                                 \
            char buf_[640];                                                                                            \
            std::snprintf(buf_, sizeof buf_, __VA_ARGS__);                                                             \
            vf::mismatch(sub, kase, buf_);                                                                             \
            return;                                                                                                    \
        }                                                                                                              \
    } while (0)

// ------------------------------------------------------------------------------------------------ oracle (no templates)
struct Shape {
    int rank;
    ll e[4];
};
auto prod(Shape const& s) -> ll
{
    ll p = 1;
    for (int i = 0; i < s.rank; ++i) { p *= s.e[i]; }
    return p;
}
auto has_zero(Shape const& s) -> bool
{
    for (int i = 0; i < s.rank; ++i) {
        if (s.e[i] == 0) { return true; }
    }
    return false;
}
void right_strides(Shape const& s, ll* st)
{
    for (int r = 0; r < s.rank; ++r) {
        ll p = 1;
        for (int k = r + 1; k < s.rank; ++k) { p *= s.e[k]; }
        st[r] = p;
    }
}
void left_strides(Shape const& s, ll* st)
{
    for (int r = 0; r < s.rank; ++r) {
        ll p = 1;
        for (int k = 0; k < r; ++k) { p *= s.e[k]; }
        st[r] = p;
    }
}
auto off_right(Shape const& s, int const* ix) -> ll // Horner, row-major
{
    ll o = 0;
    for (int k = 0; k < s.rank; ++k) { o = o * s.e[k] + ix[k]; }
    return o;
}
auto off_left(Shape const& s, int const* ix) -> ll // Horner, column-major
{
    ll o = 0;
    for (int k = s.rank - 1; k >= 0; --k) { o = o * s.e[k] + ix[k]; }
    return o;
}
auto off_strided(Shape const& s, ll const* st, int const* ix) -> ll
{
    ll o = 0;
    for (int k = 0; k < s.rank; ++k) { o += ix[k] * st[k]; }
    return o;
}
auto rss_strided(Shape const& s, ll const* st) -> ll
{
    if (has_zero(s)) { return 0; }
    ll o = 1;
    for (int k = 0; k < s.rank; ++k) { o += (s.e[k] - 1) * st[k]; }
    return o;
}
// odometer over all multi-indices of the shape (last index fastest).  Usage: int ix[4]={0}; if (prod>0) do {...} while (next_index(s, ix));
auto next_index(Shape const& s, int* ix) -> bool
{
    for (int k = s.rank - 1; k >= 0; --k) {
        if (++ix[k] < s.e[k]) { return true; }
        ix[k] = 0;
    }
    return false;
}
auto ix_str(int rank, int const* ix) -> std::string
{
    std::string s = "(";
    for (int i = 0; i < rank; ++i) {
        if (i != 0) { s += ","; }
        s += std::to_string(ix[i]);
    }
    return s + ")";
}
auto arr_str(int rank, ll const* a) -> std::string
{
    std::string s = "[";
    for (int i = 0; i < rank; ++i) {
        if (i != 0) { s += ","; }
        s += std::to_string(a[i]);
    }
    return s + "]";
}

// stride variants: var = perm_index*3 + padmode.  perm[0] is the fastest-varying dimension.
//   padmode 0: s[P0]=1, s[Pi]=s[Pi-1]*max(e[Pi-1],1)                 (exact packing in that dimension order)
//   padmode 1: s[P0]=1, s[Pi]=s[Pi-1]*max(e[Pi-1],1)+i               (irregular padding)
//   padmode 2: s[P0]=2, s[Pi]=s[Pi-1]*(max(e[Pi-1],1)+1)             (element stride 2, one padding slot per row)
// All strides are > 0 and s[Pi] >= s[Pi-1]*e[Pi-1] (the preconditions of layout_stride::mapping(ext, strides)).
auto nperms(int rank) -> int
{
    int f = 1;
    for (int i = 2; i <= rank; ++i) { f *= i; }
    return f;
}
void unrank_perm(int rank, int idx, int* perm)
{
    int pool[4] = {0, 1, 2, 3};
    int n       = rank;
    for (int i = 0; i < rank; ++i) {
        int f = nperms(n - 1);
        int q = idx / f;
        idx %= f;
        perm[i] = pool[q];
        for (int j = q; j + 1 < n; ++j) { pool[j] = pool[j + 1]; }
        --n;
    }
}
struct StrideInfo {
    ll s[4];
    bool canonical; // equal to the layout_left or the layout_right strides of the shape
    bool permuted;  // dimension order is neither left nor right
    bool padded;
};
auto make_strides(Shape const& sh, int var) -> StrideInfo
{
    StrideInfo si{};
    int perm[4]   = {0, 1, 2, 3};
    int const pm  = var % 3;
    int const pix = var / 3;
    unrank_perm(sh.rank, pix, perm);
    for (int i = 0; i < sh.rank; ++i) {
        if (i == 0) {
            si.s[perm[0]] = pm == 2 ? 2 : 1;
        } else {
            ll const below = si.s[perm[i - 1]];
            ll const eprev = sh.e[perm[i - 1]] < 1 ? 1 : sh.e[perm[i - 1]];
            si.s[perm[i]]  = pm == 0 ? below * eprev : pm == 1 ? below * eprev + i : below * (eprev + 1);
        }
    }
    ll ls[4], rs[4];
    left_strides(sh, ls);
    right_strides(sh, rs);
    bool eql = true, eqr = true, ordl = true, ordr = true;
    for (int i = 0; i < sh.rank; ++i) {
        eql  = eql && ls[i] == si.s[i];
        eqr  = eqr && rs[i] == si.s[i];
        ordl = ordl && perm[i] == i;
        ordr = ordr && perm[i] == sh.rank - 1 - i;
    }
    si.canonical = eql || eqr;
    si.permuted  = !(ordl || ordr);
    si.padded    = pm != 0;
    return si;
}

// ------------------------------------------------------------------------------------------------ exact-size heap container
// Container for mdarray: a heap block of exactly n elements (operator[] unchecked: ASan is the bounds checker).
template <typename T>
struct HeapBox {
    using value_type      = T;
    using size_type       = std::size_t;
    using reference       = T&;
    using const_reference = T const&;
    using pointer         = T*;
    using const_pointer   = T const*;
    using iterator        = T*;
    using const_iterator  = T const*;
    HeapBox() : _p{new T[0]}, _n{0} { }
    explicit HeapBox(std::size_t n) : _p{new T[n]{}}, _n{n} { }
    HeapBox(std::size_t n, T const& v) : _p{new T[n]}, _n{n}
    {
        for (std::size_t i = 0; i < n; ++i) { _p[i] = v; }
    }
    HeapBox(HeapBox const& o) : _p{new T[o._n]}, _n{o._n}
    {
        for (std::size_t i = 0; i < _n; ++i) { _p[i] = o._p[i]; }
    }
    HeapBox(HeapBox&& o) noexcept : _p{o._p}, _n{o._n}
    {
        o._p = nullptr;
        o._n = 0;
    }
    auto operator=(HeapBox o) noexcept -> HeapBox&
    {
        std::swap(_p, o._p);
        std::swap(_n, o._n);
        return *this;
    }
    ~HeapBox() { delete[] _p; }
    auto begin() -> T* { return _p; }
    auto end() -> T* { return _p + _n; }
    auto begin() const -> T const* { return _p; }
    auto end() const -> T const* { return _p + _n; }
    auto cbegin() const -> T const* { return _p; }
    auto cend() const -> T const* { return _p + _n; }
    auto data() -> T* { return _p; }
    auto data() const -> T const* { return _p; }
    [[nodiscard]] auto size() const -> std::size_t { return _n; }
    auto operator[](std::size_t i) -> T& { return _p[i]; }
    auto operator[](std::size_t i) const -> T const& { return _p[i]; }

private:
    T* _p;
    std::size_t _n;
};

// ------------------------------------------------------------------------------------------------ type helpers
template <typename I>
constexpr auto imax() -> unsigned long long
{
    return static_cast<unsigned long long>(std::numeric_limits<I>::max());
}

template <typename E>
constexpr auto dyn_positions()
{
    std::array<int, E::rank_dynamic() + 1> p{}; // +1: no zero-size std::array indexing headaches
    int n = 0;
    for (std::size_t i = 0; i < E::rank(); ++i) {
        if (E::static_extent(i) == D) { p[static_cast<std::size_t>(n++)] = static_cast<int>(i); }
    }
    return p;
}

// partner index type used for converting constructors (a different width and signedness)
template <typename I> struct partner;
template <> struct partner<std::int8_t> { using type = std::uint64_t; };
template <> struct partner<std::uint8_t> { using type = std::int16_t; };
template <> struct partner<std::int16_t> { using type = std::uint8_t; };
template <> struct partner<std::uint16_t> { using type = std::int32_t; };
template <> struct partner<std::int32_t> { using type = std::uint16_t; };
template <> struct partner<std::uint32_t> { using type = std::int64_t; };
template <> struct partner<std::int64_t> { using type = std::uint32_t; };
template <> struct partner<std::uint64_t> { using type = std::int8_t; };

// flipped pattern: static -> dynamic, dynamic -> static 2 (mixed -> mixed conversions in both directions)
template <typename J, typename E> struct flipped;
template <typename J, typename I, std::size_t... S>
struct flipped<J, etl::extents<I, S...>> {
    using type = etl::extents<J, (S == D ? std::size_t{2} : D)...>;
};
template <typename E> struct transposed2;
template <typename I, std::size_t S0, std::size_t S1>
struct transposed2<etl::extents<I, S0, S1>> {
    using type = etl::extents<I, S1, S0>;
};

// build an extents object from a run-time shape: rank-many arguments / dynamic-only arguments
template <typename E, typename A, std::size_t... Is>
auto make_all(Shape const& sh, std::index_sequence<Is...> /*unused*/) -> E
{
    return E(static_cast<A>(sh.e[Is])...);
}
template <typename E, typename A, std::size_t... Js>
auto make_dyn(Shape const& sh, std::index_sequence<Js...> /*unused*/) -> E
{
    [[maybe_unused]] constexpr auto dp = dyn_positions<E>();
    return E(static_cast<A>(sh.e[dp[Js]])...);
}
template <typename E, typename A>
auto make_all(Shape const& sh) -> E
{
    return make_all<E, A>(sh, std::make_index_sequence<E::rank()>{});
}
template <typename E, typename A>
auto make_dyn(Shape const& sh) -> E
{
    return make_dyn<E, A>(sh, std::make_index_sequence<E::rank_dynamic()>{});
}
// is the run-time shape admissible for extents type E2 (static extents match, everything representable)?
template <typename E2>
auto shape_fits(Shape const& sh) -> bool
{
    for (std::size_t i = 0; i < E2::rank(); ++i) {
        if (E2::static_extent(i) != D && static_cast<ll>(E2::static_extent(i)) != sh.e[i]) { return false; }
    }
    return static_cast<unsigned long long>(prod(sh)) <= imax<typename E2::index_type>();
}
template <typename E>
auto extents_equal(E const& e, Shape const& sh) -> bool
{
    for (std::size_t r = 0; r < E::rank(); ++r) {
        if (static_cast<ll>(e.extent(r)) != sh.e[r]) { return false; }
    }
    return true;
}
template <typename E>
auto extents_str(E const& e) -> std::string
{
    std::string s = "[";
    for (std::size_t r = 0; r < E::rank(); ++r) {
        if (r != 0) { s += ","; }
        s += std::to_string(static_cast<ll>(e.extent(r)));
    }
    return s + "]";
}
template <typename I, typename F, std::size_t... Is>
decltype(auto) call_ix_impl(F& f, int const* ix, std::index_sequence<Is...> /*unused*/)
{
    return f(static_cast<I>(ix[Is])...);
}
template <typename I, std::size_t R, typename F>
decltype(auto) call_ix(F& f, int const* ix)
{
    return call_ix_impl<I>(f, ix, std::make_index_sequence<R>{});
}

// compile-time probes: "is this member defined (usable in a constant expression)?"  false for declared-only functions
template <typename M>
constexpr bool has_defined_rss = requires { typename std::integral_constant<int, (M{}.required_span_size(), 0)>; };
template <typename M>
constexpr bool has_defined_is_exhaustive = requires { typename std::integral_constant<int, (M{}.is_exhaustive(), 0)>; };

// ------------------------------------------------------------------------------------------------ 1. extents
template <typename E>
void check_extents(Case const& k, Shape const& sh)
{
    using I               = typename E::index_type;
    constexpr auto R      = E::rank();
    constexpr auto RD     = E::rank_dynamic();
    char const* const sub = "extents";
    vf::Flight<Case> fl(sub, k);

    // static facts
    {
        std::size_t nd = 0;
        for (std::size_t r = 0; r < R; ++r) { nd += E::static_extent(r) == D ? 1U : 0U; }
        CHECK(sub, k, nd == RD && R == static_cast<std::size_t>(sh.rank), "rank()/rank_dynamic() = %zu/%zu, pattern has %d/%zu", R, RD, sh.rank, nd);
    }
    // (a) dynamic-only arguments, (b) rank-many arguments: variadic (int and IndexType), etl::array, etl::span
    E const a1 = make_dyn<E, int>(sh);
    CHECK(sub, k, extents_equal(a1, sh), "extents(dynamic-only ints) has extents %s, expected %s", extents_str(a1).c_str(), arr_str(sh.rank, sh.e).c_str());
    E const a2 = make_all<E, int>(sh);
    CHECK(sub, k, extents_equal(a2, sh), "extents(rank-many ints) has extents %s, expected %s", extents_str(a2).c_str(), arr_str(sh.rank, sh.e).c_str());
    E const a3 = make_all<E, I>(sh);
    CHECK(sub, k, extents_equal(a3, sh), "extents(rank-many IndexType values) has extents %s, expected %s", extents_str(a3).c_str(), arr_str(sh.rank, sh.e).c_str());
    {
        constexpr auto dp = dyn_positions<E>();
        etl::array<I, RD> ad{};
        etl::array<std::size_t, R> aa{};
        for (std::size_t j = 0; j < RD; ++j) { ad[j] = static_cast<I>(sh.e[dp[j]]); }
        for (std::size_t r = 0; r < R; ++r) { aa[r] = static_cast<std::size_t>(sh.e[r]); }
        E const b1(ad);
        CHECK(sub, k, extents_equal(b1, sh), "extents(array<IndexType, rank_dynamic>) has extents %s, expected %s", extents_str(b1).c_str(), arr_str(sh.rank, sh.e).c_str());
        E const b2(aa);
        CHECK(sub, k, extents_equal(b2, sh), "extents(array<size_t, rank>) has extents %s, expected %s", extents_str(b2).c_str(), arr_str(sh.rank, sh.e).c_str());
        etl::span<I const, RD> const sd(ad);
        etl::span<std::size_t const, R> const sa(aa);
        E const b3(sd);
        CHECK(sub, k, extents_equal(b3, sh), "extents(span<IndexType const, rank_dynamic>) has extents %s, expected %s", extents_str(b3).c_str(), arr_str(sh.rank, sh.e).c_str());
        E const b4(sa);
        CHECK(sub, k, extents_equal(b4, sh), "extents(span<size_t const, rank>) has extents %s, expected %s", extents_str(b4).c_str(), arr_str(sh.rank, sh.e).c_str());
        CHECK(sub, k, a1 == a2 && a2 == b1 && b1 == b2 && b3 == b4 && !(a1 != b4), "operator== between equal extents objects is false");
    }
    // static_extent / extent / products
    for (std::size_t r = 0; r < R; ++r) {
        CHECK(sub, k, E::static_extent(r) == D || static_cast<ll>(E::static_extent(r)) == sh.e[r], "static_extent(%zu) = %zu", r, E::static_extent(r));
    }
    for (std::size_t r = 0; r <= R; ++r) {
        ll f = 1;
        for (std::size_t q = 0; q < r; ++q) { f *= sh.e[q]; }
        CHECK(sub, k, static_cast<ll>(a2.fwd_prod_of_extents(r)) == f, "fwd_prod_of_extents(%zu) = %lld, expected %lld", r, static_cast<ll>(a2.fwd_prod_of_extents(r)), f);
        if (r < R) {
            ll b = 1;
            for (std::size_t q = r + 1; q < R; ++q) { b *= sh.e[q]; }
            CHECK(sub, k, static_cast<ll>(a2.rev_prod_of_extents(r)) == b, "rev_prod_of_extents(%zu) = %lld, expected %lld", r, static_cast<ll>(a2.rev_prod_of_extents(r)), b);
        }
    }
    // converting constructors: E -> dextents<J>, dextents<J> -> E, E <-> flipped pattern (when the shape fits)
    using J  = typename partner<I>::type;
    using DJ = etl::dextents<J, R>;
    using FJ = typename flipped<J, E>::type;
    {
        DJ const d(a2);
        CHECK(sub, k, extents_equal(d, sh), "dextents<J>(extents) has extents %s, expected %s", extents_str(d).c_str(), arr_str(sh.rank, sh.e).c_str());
        CHECK(sub, k, d == a2 && a2 == d, "operator== of converted extents is false");
        E const back(d);
        CHECK(sub, k, extents_equal(back, sh), "extents(dextents<J>) has extents %s, expected %s", extents_str(back).c_str(), arr_str(sh.rank, sh.e).c_str());
        // a neighbouring shape must compare unequal
        for (std::size_t r = 0; r < R; ++r) {
            Shape other = sh;
            other.e[r]  = sh.e[r] == 1 ? 2 : 1;
            DJ const o  = make_all<DJ, int>(other);
            CHECK(sub, k, !(o == a2) && a2 != o, "operator== is true for extents that differ in dimension %zu", r);
        }
    }
    if constexpr (R > 0) {
        if (shape_fits<FJ>(sh)) {
            FJ const f(a2);
            CHECK(sub, k, extents_equal(f, sh), "flipped-pattern extents constructed from extents has %s, expected %s", extents_str(f).c_str(), arr_str(sh.rank, sh.e).c_str());
            E const back(f);
            CHECK(sub, k, extents_equal(back, sh), "extents constructed from flipped-pattern extents has %s, expected %s", extents_str(back).c_str(), arr_str(sh.rank, sh.e).c_str());
            vf::count("convert.flipped_pattern");
        }
    }
    vf::eval(sub);
}

// ------------------------------------------------------------------------------------------------ 2. layout_left / layout_right
// sweep every multi-index: offset == oracle, < rss, pairwise distinct
template <typename I, std::size_t R, typename M, typename Oracle>
auto sweep_mapping(M const& m, Shape const& sh, ll rss, Oracle const& oracle) -> std::string
{
    std::vector<char> seen(static_cast<std::size_t>(rss), 0);
    int ix[4] = {0, 0, 0, 0};
    if (prod(sh) == 0) { return ""; }
    do {
        ll const got = static_cast<ll>(call_ix<I, R>(m, ix));
        ll const exp = oracle(ix);
        if (got != exp) { return "mapping" + ix_str(sh.rank, ix) + " = " + std::to_string(got) + ", closed form gives " + std::to_string(exp); }
        if (got < 0 || got >= rss) { return "mapping" + ix_str(sh.rank, ix) + " = " + std::to_string(got) + " is outside [0, required_span_size=" + std::to_string(rss) + ")"; }
        if (seen[static_cast<std::size_t>(got)] != 0) { return "mapping" + ix_str(sh.rank, ix) + " = " + std::to_string(got) + " was already produced by another multi-index (not unique)"; }
        seen[static_cast<std::size_t>(got)] = 1;
    } while (next_index(sh, ix));
    return "";
}

template <typename E, typename L>
void check_lr(Case const& k, Shape const& sh)
{
    using I               = typename E::index_type;
    using M               = typename L::template mapping<E>;
    constexpr auto R      = E::rank();
    constexpr bool left   = std::is_same_v<L, etl::layout_left>;
    char const* const sub = left ? "layout_left" : "layout_right";
    vf::Flight<Case> fl(sub, k);

    E const e = make_all<E, int>(sh);
    M const m(e);
    ll const P = prod(sh);
    ll st[4]   = {0, 0, 0, 0};
    left ? left_strides(sh, st) : right_strides(sh, st);
    CHECK(sub, k, extents_equal(m.extents(), sh), "mapping.extents() = %s, expected %s", extents_str(m.extents()).c_str(), arr_str(sh.rank, sh.e).c_str());
    CHECK(sub, k, static_cast<ll>(m.required_span_size()) == P, "required_span_size() = %lld, expected %lld", static_cast<ll>(m.required_span_size()), P);
    if constexpr (R > 0) {
        for (std::size_t r = 0; r < R; ++r) { CHECK(sub, k, static_cast<ll>(m.stride(r)) == st[r], "stride(%zu) = %lld, expected %lld", r, static_cast<ll>(m.stride(r)), st[r]); }
    }
    CHECK(sub, k, M::is_always_unique() && M::is_always_exhaustive() && M::is_always_strided() && m.is_unique() && m.is_exhaustive() && m.is_strided(), "is_(always_)unique/exhaustive/strided not all true");
    auto const d = sweep_mapping<I, R>(m, sh, P, [&](int const* ix) { return left ? off_left(sh, ix) : off_right(sh, ix); });
    CHECK(sub, k, d.empty(), "%s", d.c_str());
    {
        // default-constructed mapping of an all-static type / copy / assignment / operator==
        M m2(m);
        M m3;
        m3 = m;
        CHECK(sub, k, extents_equal(m2.extents(), sh) && extents_equal(m3.extents(), sh) && m2 == m && m3 == m, "copy / assignment of a mapping changes its extents");
        if constexpr (E::rank_dynamic() == 0) {
            M const m0;
            CHECK(sub, k, extents_equal(m0.extents(), sh) && static_cast<ll>(m0.required_span_size()) == P, "default-constructed mapping of all-static extents: extents %s rss %lld", extents_str(m0.extents()).c_str(),
                static_cast<ll>(m0.required_span_size()));
        }
    }
    // converting constructors that are defined: same layout from other extents; left <-> right for rank <= 1
    using J  = typename partner<I>::type;
    using DJ = etl::dextents<J, R>;
    {
        typename L::template mapping<DJ> const c(m);
        CHECK(sub, k, extents_equal(c.extents(), sh) && static_cast<ll>(c.required_span_size()) == P && c == m, "mapping<dextents<J>>(mapping<E>): extents %s rss %lld", extents_str(c.extents()).c_str(),
            static_cast<ll>(c.required_span_size()));
        M const back(c);
        CHECK(sub, k, extents_equal(back.extents(), sh) && static_cast<ll>(back.required_span_size()) == P, "mapping<E>(mapping<dextents<J>>): extents %s rss %lld", extents_str(back.extents()).c_str(),
            static_cast<ll>(back.required_span_size()));
        int ix[4] = {0, 0, 0, 0};
        if (P > 0) {
            for (int r = 0; r < sh.rank; ++r) { ix[r] = static_cast<int>(sh.e[r]) - 1; }
            ll const o1 = static_cast<ll>(call_ix<J, R>(c, ix));
            ll const o2 = static_cast<ll>(call_ix<I, R>(back, ix));
            CHECK(sub, k, o1 == P - 1 && o2 == P - 1, "converted mapping sends the last multi-index to %lld / %lld, expected %lld", o1, o2, P - 1);
        }
    }
    if constexpr (R <= 1) {
        using O = std::conditional_t<left, etl::layout_right, etl::layout_left>;
        typename O::template mapping<DJ> const o(m);
        CHECK(sub, k, extents_equal(o.extents(), sh) && static_cast<ll>(o.required_span_size()) == P, "rank<=1 conversion to the other layout: extents %s", extents_str(o.extents()).c_str());
        if constexpr (R == 1) {
            if (P > 0) { CHECK(sub, k, static_cast<ll>(o(static_cast<J>(P - 1))) == P - 1 && static_cast<ll>(o.stride(0)) == 1, "rank-1 conversion to the other layout maps %lld to %lld", P - 1, static_cast<ll>(o(static_cast<J>(P - 1)))); }
        }
    }
    vf::eval(sub);
}

// ------------------------------------------------------------------------------------------------ 3. layout_stride
template <typename E>
void check_stride(Case const& k, Shape const& sh, StrideInfo const& si)
{
    using I               = typename E::index_type;
    using M               = etl::layout_stride::mapping<E>;
    constexpr auto R      = E::rank();
    char const* const sub = "layout_stride";
    vf::Flight<Case> fl(sub, k);
    E const e    = make_all<E, int>(sh);
    ll const rss = rss_strided(sh, si.s);
    if constexpr (R == 0) {
        // only the default constructor is usable for rank 0 on this tree
        M const m;
        CHECK(sub, k, static_cast<ll>(m()) == 0, "rank-0 layout_stride mapping() = %lld", static_cast<ll>(m()));
        if constexpr (has_defined_rss<M>) { CHECK(sub, k, static_cast<ll>(m.required_span_size()) == 1, "rank-0 required_span_size() = %lld", static_cast<ll>(m.required_span_size())); }
    } else {
        etl::array<I, R> sa{};
        etl::array<std::size_t, R> sz{};
        for (std::size_t r = 0; r < R; ++r) {
            sa[r] = static_cast<I>(si.s[r]);
            sz[r] = static_cast<std::size_t>(si.s[r]);
        }
        M const m(e, sa);
        etl::span<std::size_t const, R> const szs(sz);
        M const ms(e, szs);
        CHECK(sub, k, extents_equal(m.extents(), sh) && extents_equal(ms.extents(), sh), "mapping.extents() = %s, expected %s", extents_str(m.extents()).c_str(), arr_str(sh.rank, sh.e).c_str());
        auto const got = m.strides();
        for (std::size_t r = 0; r < R; ++r) {
            CHECK(sub, k, static_cast<ll>(m.stride(r)) == si.s[r] && static_cast<ll>(got[r]) == si.s[r] && static_cast<ll>(ms.stride(r)) == si.s[r], "stride(%zu) = %lld / strides()[%zu] = %lld / from span %lld, constructed with %lld", r,
                static_cast<ll>(m.stride(r)), r, static_cast<ll>(got[r]), static_cast<ll>(ms.stride(r)), si.s[r]);
        }
        CHECK(sub, k, M::is_always_unique() && M::is_always_strided() && !M::is_always_exhaustive() && m.is_unique() && m.is_strided(), "is_(always_)unique/strided/exhaustive constants wrong");
        if constexpr (has_defined_rss<M>) { CHECK(sub, k, static_cast<ll>(m.required_span_size()) == rss, "required_span_size() = %lld, expected %lld", static_cast<ll>(m.required_span_size()), rss); }
        if constexpr (has_defined_is_exhaustive<M>) { CHECK(sub, k, m.is_exhaustive() == (rss == prod(sh)), "is_exhaustive() = %d, span %lld size %lld", static_cast<int>(m.is_exhaustive()), rss, prod(sh)); }
        auto const d = sweep_mapping<I, R>(m, sh, rss, [&](int const* ix) { return off_strided(sh, si.s, ix); });
        CHECK(sub, k, d.empty(), "%s (strides %s)", d.c_str(), arr_str(sh.rank, si.s).c_str());
        M m2(ms);
        M m3;
        m3 = m;
        for (std::size_t r = 0; r < R; ++r) { CHECK(sub, k, static_cast<ll>(m2.stride(r)) == si.s[r] && static_cast<ll>(m3.stride(r)) == si.s[r], "copy / assignment changes stride(%zu)", r); }
    }
    vf::eval(sub);
}

// ------------------------------------------------------------------------------------------------ 4. mdspan
// every multi-index: &m(i...) == data + oracle offset, and the value stored there is read back (ASan: exact-size block)
template <typename I, std::size_t R, typename MD>
auto sweep_view(MD& m, int const* base, Shape const& sh, ll const* st) -> std::string
{
    int ix[4] = {0, 0, 0, 0};
    if (prod(sh) == 0) { return ""; }
    do {
        ll const exp  = off_strided(sh, st, ix);
        auto& ref     = call_ix<I, R>(m, ix);
        ll const got  = static_cast<ll>(&ref - base);
        if (got != exp) { return "&m" + ix_str(sh.rank, ix) + " is data+" + std::to_string(got) + ", expected data+" + std::to_string(exp); }
        if (ref != 1000 + static_cast<int>(exp)) { return "m" + ix_str(sh.rank, ix) + " reads " + std::to_string(ref) + ", the element at data+" + std::to_string(exp) + " holds " + std::to_string(1000 + static_cast<int>(exp)); }
        if constexpr (R > 0) {
            etl::array<I, R> ai{};
            for (std::size_t r = 0; r < R; ++r) { ai[r] = static_cast<I>(ix[r]); }
            auto& r2 = m[ai];
            etl::span<I const, R> const si(ai);
            auto& r3 = m[si];
            if (&r2 != &ref || &r3 != &ref) { return "m[array]/m[span] at " + ix_str(sh.rank, ix) + " refer to data+" + std::to_string(static_cast<ll>(&r2 - base)) + "/data+" + std::to_string(static_cast<ll>(&r3 - base)) + ", m(i...) to data+" + std::to_string(got); }
        }
    } while (next_index(sh, ix));
    return "";
}
auto make_block(ll n) -> std::unique_ptr<int[]>
{
    auto p = std::unique_ptr<int[]>(new int[static_cast<std::size_t>(n)]);
    for (ll i = 0; i < n; ++i) { p[static_cast<std::size_t>(i)] = 1000 + static_cast<int>(i); }
    return p;
}
template <typename MD>
auto view_facts(MD const& m, Shape const& sh, ll const* st, bool with_strides) -> std::string
{
    ll const P = prod(sh);
    if (static_cast<ll>(m.size()) != P) { return "size() = " + std::to_string(static_cast<ll>(m.size())) + ", expected " + std::to_string(P); }
    if (m.empty() != (P == 0)) { return "empty() = " + std::to_string(static_cast<int>(m.empty())) + " for size " + std::to_string(P); }
    if (MD::rank() != static_cast<std::size_t>(sh.rank)) { return "rank() wrong"; }
    for (std::size_t r = 0; r < MD::rank(); ++r) {
        if (static_cast<ll>(m.extent(r)) != sh.e[r]) { return "extent(" + std::to_string(r) + ") = " + std::to_string(static_cast<ll>(m.extent(r))) + ", expected " + std::to_string(sh.e[r]); }
        if (static_cast<ll>(m.extents().extent(r)) != sh.e[r]) { return "extents().extent(" + std::to_string(r) + ") = " + std::to_string(static_cast<ll>(m.extents().extent(r))) + ", expected " + std::to_string(sh.e[r]); }
        if (MD::static_extent(r) != MD::extents_type::static_extent(r)) { return "static_extent(" + std::to_string(r) + ") differs from the extents type"; }
        if constexpr (MD::rank() > 0) { // (mapping::stride requires rank > 0)
            if (with_strides && static_cast<ll>(m.stride(r)) != st[r]) { return "stride(" + std::to_string(r) + ") = " + std::to_string(static_cast<ll>(m.stride(r))) + ", expected " + std::to_string(st[r]); }
        }
    }
    return "";
}

template <typename E, typename L>
void check_mdspan_lr(Case const& k, Shape const& sh)
{
    using I               = typename E::index_type;
    using M               = typename L::template mapping<E>;
    using MD              = etl::mdspan<int, E, L>;
    constexpr auto R      = E::rank();
    constexpr bool left   = std::is_same_v<L, etl::layout_left>;
    char const* const sub = left ? "mdspan_left" : "mdspan_right";
    vf::Flight<Case> fl(sub, k);
    ll const P = prod(sh);
    ll st[4]   = {0, 0, 0, 0};
    left ? left_strides(sh, st) : right_strides(sh, st);
    auto blk  = make_block(P);
    int* base = blk.get();
    E const e = make_all<E, int>(sh);
    MD const m(base, M(e));
    auto d = view_facts(m, sh, st, R > 0);
    CHECK(sub, k, d.empty(), "mdspan(ptr, mapping): %s", d.c_str());
    CHECK(sub, k, m.data_handle() == base && m.is_unique() && m.is_exhaustive() && m.is_strided() && MD::is_always_unique(), "data_handle()/is_unique()... wrong");
    d = sweep_view<I, R>(m, base, sh, st);
    CHECK(sub, k, d.empty(), "%s", d.c_str());
    // the other constructors describe the same view
    {
        MD const c1(base, e);
        d = view_facts(c1, sh, st, R > 0);
        CHECK(sub, k, d.empty() && c1.data_handle() == base, "mdspan(ptr, extents): %s", d.c_str());
        MD const c2 = [&]<std::size_t... Is>(std::index_sequence<Is...>) { return MD(base, static_cast<int>(sh.e[Is])...); }(std::make_index_sequence<R>{});
        d           = view_facts(c2, sh, st, R > 0);
        CHECK(sub, k, d.empty() && c2.data_handle() == base, "mdspan(ptr, rank-many ints): %s", d.c_str());
        constexpr auto dp = dyn_positions<E>();
        MD const c3       = [&]<std::size_t... Js>(std::index_sequence<Js...>) { return MD(base, static_cast<I>(sh.e[dp[Js]])...); }(std::make_index_sequence<E::rank_dynamic()>{});
        d                 = view_facts(c3, sh, st, R > 0);
        CHECK(sub, k, d.empty() && c3.data_handle() == base, "mdspan(ptr, dynamic-only values): %s", d.c_str());
        etl::array<I, R> aa{};
        for (std::size_t r = 0; r < R; ++r) { aa[r] = static_cast<I>(sh.e[r]); }
        MD const c4(base, aa);
        d = view_facts(c4, sh, st, R > 0);
        CHECK(sub, k, d.empty() && c4.data_handle() == base, "mdspan(ptr, array<IndexType, rank>): %s", d.c_str());
        etl::span<I const, R> const sp(aa);
        MD const c5(base, sp);
        d = view_facts(c5, sh, st, R > 0);
        CHECK(sub, k, d.empty() && c5.data_handle() == base, "mdspan(ptr, span<IndexType const, rank>): %s", d.c_str());
        MD const c6(base, M(e), etl::default_accessor<int>{});
        d = view_facts(c6, sh, st, R > 0);
        CHECK(sub, k, d.empty() && c6.data_handle() == base, "mdspan(ptr, mapping, accessor): %s", d.c_str());
        if (P > 0) {
            int ix[4] = {0, 0, 0, 0};
            for (int r = 0; r < sh.rank; ++r) { ix[r] = static_cast<int>(sh.e[r]) - 1; }
            for (MD const* c : {&c1, &c2, &c3, &c4, &c5, &c6}) {
                ll const got = static_cast<ll>(&call_ix<I, R>(*c, ix) - base);
                CHECK(sub, k, got == P - 1, "a differently constructed mdspan sends the last multi-index to data+%lld, expected data+%lld", got, P - 1);
            }
        }
    }
    // converting constructor: element const, dextents<J>
    {
        using J  = typename partner<I>::type;
        using MC = etl::mdspan<int const, etl::dextents<J, R>, L>;
        MC const c(m);
        d = view_facts(c, sh, st, R > 0);
        CHECK(sub, k, d.empty() && c.data_handle() == base, "mdspan<T const, dextents<J>>(mdspan): %s", d.c_str());
        d = sweep_view<J, R>(c, base, sh, st);
        CHECK(sub, k, d.empty(), "converted mdspan: %s", d.c_str());
    }
    vf::eval(sub);
}

template <typename E>
void check_mdspan_stride(Case const& k, Shape const& sh, StrideInfo const& si)
{
    using I               = typename E::index_type;
    using M               = etl::layout_stride::mapping<E>;
    using MD              = etl::mdspan<int, E, etl::layout_stride>;
    constexpr auto R      = E::rank();
    char const* const sub = "mdspan_stride";
    vf::Flight<Case> fl(sub, k);
    if constexpr (R > 0) {
        ll const rss = rss_strided(sh, si.s);
        auto blk     = make_block(rss);
        int* base    = blk.get();
        E const e    = make_all<E, int>(sh);
        etl::array<I, R> sa{};
        for (std::size_t r = 0; r < R; ++r) { sa[r] = static_cast<I>(si.s[r]); }
        MD const m(base, M(e, sa));
        auto d = view_facts(m, sh, si.s, true);
        CHECK(sub, k, d.empty() && m.data_handle() == base && m.is_unique() && m.is_strided(), "mdspan over layout_stride: %s", d.c_str());
        d = sweep_view<I, R>(m, base, sh, si.s);
        CHECK(sub, k, d.empty(), "%s (strides %s)", d.c_str(), arr_str(sh.rank, si.s).c_str());
        MD const c(m);
        MD const c2(base, M(e, sa), etl::default_accessor<int>{}); // (mdspan copy assignment is implicitly deleted on this tree: not callable)
        d = sweep_view<I, R>(c2, base, sh, si.s);
        CHECK(sub, k, d.empty() && c.data_handle() == base, "copied mdspan: %s", d.c_str());
    } else {
        auto blk = make_block(1);
        MD const m(blk.get(), M{});
        CHECK(sub, k, &m() == blk.get() && m.size() == 1 && !m.empty(), "rank-0 mdspan over layout_stride does not refer to element 0");
    }
    vf::eval(sub);
}

// ------------------------------------------------------------------------------------------------ 5. mdarray
template <typename E, typename L>
void check_mdarray(Case const& k, Shape const& sh)
{
    using I               = typename E::index_type;
    using M               = typename L::template mapping<E>;
    using A               = etl::mdarray<int, E, L, HeapBox<int>>;
    constexpr auto R      = E::rank();
    constexpr bool left   = std::is_same_v<L, etl::layout_left>;
    char const* const sub = left ? "mdarray_left" : "mdarray_right";
    vf::Flight<Case> fl(sub, k);
    ll const P = prod(sh);
    ll st[4]   = {0, 0, 0, 0};
    left ? left_strides(sh, st) : right_strides(sh, st);
    E const e = make_all<E, int>(sh);
    A a(e);
    CHECK(sub, k, static_cast<ll>(a.container_size()) == P, "mdarray(extents): container_size() = %lld, expected %lld", static_cast<ll>(a.container_size()), P);
    auto d = view_facts(a, sh, st, R > 0);
    CHECK(sub, k, d.empty(), "mdarray(extents): %s", d.c_str());
    int* base = a.container_data();
    for (ll i = 0; i < P; ++i) {
        CHECK(sub, k, base[i] == 0, "mdarray(extents) element %lld is not value-initialised", i);
        base[i] = 1000 + static_cast<int>(i);
    }
    d = sweep_view<I, R>(a, base, sh, st);
    CHECK(sub, k, d.empty(), "mdarray: %s", d.c_str());
    {
        A const& ca = a;
        CHECK(sub, k, ca.container_data() == base, "const container_data() differs");
        d = sweep_view<I, R>(ca, base, sh, st);
        CHECK(sub, k, d.empty(), "const mdarray: %s", d.c_str());
        auto ms = a.to_mdspan();
        auto cs = ca.to_mdspan();
        CHECK(sub, k, ms.data_handle() == base && cs.data_handle() == base, "to_mdspan().data_handle() is not container_data()");
        d = view_facts(ms, sh, st, R > 0);
        CHECK(sub, k, d.empty(), "to_mdspan(): %s", d.c_str());
        d = sweep_view<I, R>(ms, base, sh, st);
        CHECK(sub, k, d.empty(), "to_mdspan(): %s", d.c_str());
        d = sweep_view<I, R>(cs, base, sh, st);
        CHECK(sub, k, d.empty(), "const to_mdspan(): %s", d.c_str());
        etl::mdspan<int, E, L> const conv = a;
        CHECK(sub, k, conv.data_handle() == base && extents_equal(conv.extents(), sh), "conversion operator to mdspan: wrong data handle or extents");
    }
    // other constructors
    {
        A const b1 = [&]<std::size_t... Is>(std::index_sequence<Is...>) { return A(static_cast<int>(sh.e[Is])...); }(std::make_index_sequence<R>{});
        CHECK(sub, k, static_cast<ll>(b1.container_size()) == P && extents_equal(b1.extents(), sh), "mdarray(rank-many ints): container_size %lld extents %s", static_cast<ll>(b1.container_size()), extents_str(b1.extents()).c_str());
        constexpr auto dp = dyn_positions<E>();
        if constexpr (E::rank_dynamic() > 0) {
            A const b2 = [&]<std::size_t... Js>(std::index_sequence<Js...>) { return A(static_cast<I>(sh.e[dp[Js]])...); }(std::make_index_sequence<E::rank_dynamic()>{});
            CHECK(sub, k, static_cast<ll>(b2.container_size()) == P && extents_equal(b2.extents(), sh), "mdarray(dynamic-only values): container_size %lld extents %s", static_cast<ll>(b2.container_size()), extents_str(b2.extents()).c_str());
        }
        M const me(e);
        A const b3(me);
        CHECK(sub, k, static_cast<ll>(b3.container_size()) == P && extents_equal(b3.extents(), sh), "mdarray(mapping): container_size %lld", static_cast<ll>(b3.container_size()));
        A const b4(e, 7);
        CHECK(sub, k, static_cast<ll>(b4.container_size()) == P && extents_equal(b4.extents(), sh), "mdarray(extents, value): container_size %lld", static_cast<ll>(b4.container_size()));
        for (ll i = 0; i < P; ++i) { CHECK(sub, k, b4.container_data()[i] == 7, "mdarray(extents, value): element %lld is %d", i, b4.container_data()[i]); }
        A const b5(me, 9);
        CHECK(sub, k, static_cast<ll>(b5.container_size()) == P && (P == 0 || b5.container_data()[P - 1] == 9), "mdarray(mapping, value) wrong");
        HeapBox<int> hb(static_cast<std::size_t>(P));
        for (ll i = 0; i < P; ++i) { hb[static_cast<std::size_t>(i)] = 1000 + static_cast<int>(i); }
        A b6(e, hb);
        d = sweep_view<I, R>(b6, b6.container_data(), sh, st);
        CHECK(sub, k, d.empty() && b6.container_data() != hb.data(), "mdarray(extents, container const&): %s", d.c_str());
        A b7(me, std::move(hb));
        d = sweep_view<I, R>(b7, b7.container_data(), sh, st);
        CHECK(sub, k, d.empty(), "mdarray(mapping, container&&): %s", d.c_str());
        A b8(b7);
        A b9(e);
        b9 = b8;
        d  = sweep_view<I, R>(b9, b9.container_data(), sh, st);
        CHECK(sub, k, d.empty() && b9.container_data() != b8.container_data(), "copied mdarray: %s", d.c_str());
    }
    // etl::array as container (all-static extents)
    if constexpr (E::rank_dynamic() == 0) {
        constexpr std::size_t N = static_cast<std::size_t>(M{}.required_span_size());
        if constexpr (N > 0) {
            using AA = etl::mdarray<int, E, L, etl::array<int, N>>;
            auto pa  = std::make_unique<AA>(e, 5);
            CHECK(sub, k, pa->container_size() == N && static_cast<ll>(pa->size()) == P, "mdarray over etl::array: container_size %zu size %lld", pa->container_size(), static_cast<ll>(pa->size()));
            for (std::size_t i = 0; i < N; ++i) {
                CHECK(sub, k, pa->container_data()[i] == 5, "mdarray<etl::array>(extents, value): element %zu is %d", i, pa->container_data()[i]);
                pa->container_data()[i] = 1000 + static_cast<int>(i);
            }
            d = sweep_view<I, R>(*pa, pa->container_data(), sh, st);
            CHECK(sub, k, d.empty(), "mdarray over etl::array: %s", d.c_str());
        }
    }
    vf::eval(sub);
}

// ------------------------------------------------------------------------------------------------ 6. layout_transpose (rank 2)
template <typename E, typename L>
void check_transpose(Case const& k, Shape const& sh)
{
    using I               = typename E::index_type;
    using ET              = typename transposed2<E>::type;
    using NM              = typename L::template mapping<ET>;
    using LT              = etl::linalg::layout_transpose<L>;
    using TM              = typename LT::template mapping<E>;
    constexpr bool left   = std::is_same_v<L, etl::layout_left>;
    char const* const sub = left ? "transpose_left" : "transpose_right";
    vf::Flight<Case> fl(sub, k);
    Shape const tsh{2, {sh.e[1], sh.e[0], 0, 0}};
    ll const P = prod(sh);
    ET const et = make_all<ET, int>(tsh);
    NM const nested(et);
    TM const tm(nested);
    auto const te = tm.extents();
    CHECK(sub, k, extents_equal(te, sh), "layout_transpose mapping.extents() = %s, expected %s", extents_str(te).c_str(), arr_str(2, sh.e).c_str());
    CHECK(sub, k, static_cast<ll>(tm.required_span_size()) == P, "required_span_size() = %lld, expected %lld", static_cast<ll>(tm.required_span_size()), P);
    CHECK(sub, k, TM::is_always_unique() && TM::is_always_strided() && tm.is_unique() && tm.is_strided(), "is_(always_)unique/strided not true");
    // transposed row-major over (e1,e0) is column-major over (e0,e1) and vice versa
    ll st[4] = {0, 0, 0, 0};
    left ? right_strides(sh, st) : left_strides(sh, st);
    CHECK(sub, k, static_cast<ll>(tm.stride(0)) == st[0] && static_cast<ll>(tm.stride(1)) == st[1], "stride(0),stride(1) = %lld,%lld expected %lld,%lld", static_cast<ll>(tm.stride(0)), static_cast<ll>(tm.stride(1)), st[0], st[1]);
    auto const d1 = sweep_mapping<I, 2>(tm, sh, P, [&](int const* ix) { return left ? off_right(sh, ix) : off_left(sh, ix); });
    CHECK(sub, k, d1.empty(), "%s", d1.c_str());
    CHECK(sub, k, extents_equal(tm.nested_mapping().extents(), tsh), "nested_mapping().extents() wrong");
    // mdspan over the transposed layout
    using MD  = etl::mdspan<int, E, LT>;
    auto blk  = make_block(P);
    int* base = blk.get();
    MD const m(base, tm);
    auto d = view_facts(m, sh, st, true);
    CHECK(sub, k, d.empty() && m.data_handle() == base, "mdspan over layout_transpose: %s", d.c_str());
    d = sweep_view<I, 2>(m, base, sh, st);
    CHECK(sub, k, d.empty(), "mdspan over layout_transpose: %s", d.c_str());
    vf::eval(sub);
}

// ------------------------------------------------------------------------------------------------ per-type driver
template <typename E>
void run_type(char const* name)
{
    using I           = typename E::index_type;
    constexpr int R   = static_cast<int>(E::rank());
    constexpr auto dp = dyn_positions<E>();
    constexpr int RD  = static_cast<int>(E::rank_dynamic());
    int const base    = g_ctl.maxext + 1;
    ll nshapes        = 1;
    for (int j = 0; j < RD; ++j) { nshapes *= base; }
    bool const mixed = R >= 2 && RD > 0 && RD < R;
    for (ll code = 0; code < nshapes; ++code) {
        Shape sh{R, {0, 0, 0, 0}};
        for (int r = 0; r < R; ++r) { sh.e[r] = E::static_extent(static_cast<std::size_t>(r)) == D ? 0 : static_cast<ll>(E::static_extent(static_cast<std::size_t>(r))); }
        ll c = code;
        for (int j = RD - 1; j >= 0; --j) {
            sh.e[dp[static_cast<std::size_t>(j)]] = c % base;
            c /= base;
        }
        Case k{name, R, {static_cast<int>(sh.e[0]), static_cast<int>(sh.e[1]), static_cast<int>(sh.e[2]), static_cast<int>(sh.e[3])}, 0};
        if (g_ctl.filter) {
            bool same = true;
            for (int r = 0; r < R; ++r) { same = same && g_ctl.fe[r] == k.e[r]; }
            if (!same) { continue; }
        }
        // precondition of the library (and of std): the size of the index space is representable in index_type
        if (static_cast<unsigned long long>(prod(sh)) > imax<I>()) {
            vf::count("shape.skipped_not_representable");
            continue;
        }
        bool const zero = has_zero(sh);
        vf::label("shape.has_zero_extent", zero);
        vf::label("shape.mixed_static_dynamic(rank>=2)", mixed);
        vf::label("shape.rank0", R == 0);
        auto nt = [&](bool extra) {
            if (zero || mixed || extra) { vf::nontrivial_count(); }
        };
        if (want("extents", k)) {
            check_extents<E>(k, sh);
            nt(false);
        }
        if (want("layout_left", k)) {
            check_lr<E, etl::layout_left>(k, sh);
            nt(false);
        }
        if (want("layout_right", k)) {
            check_lr<E, etl::layout_right>(k, sh);
            nt(false);
        }
        if (want("mdspan_left", k)) {
            check_mdspan_lr<E, etl::layout_left>(k, sh);
            nt(false);
        }
        if (want("mdspan_right", k)) {
            check_mdspan_lr<E, etl::layout_right>(k, sh);
            nt(false);
        }
        if (want("mdarray_left", k)) {
            check_mdarray<E, etl::layout_left>(k, sh);
            nt(false);
        }
        if (want("mdarray_right", k)) {
            check_mdarray<E, etl::layout_right>(k, sh);
            nt(false);
        }
        if constexpr (R == 2) {
            if (want("transpose_left", k)) {
                check_transpose<E, etl::layout_left>(k, sh);
                nt(false);
            }
            if (want("transpose_right", k)) {
                check_transpose<E, etl::layout_right>(k, sh);
                nt(false);
            }
        }
        int const nvar = R == 0 ? 1 : nperms(R) * 3;
        for (int v = 0; v < nvar; ++v) {
            Case kv = k;
            kv.var  = v;
            bool const w1 = want("layout_stride", kv);
            bool const w2 = want("mdspan_stride", kv);
            if (!w1 && !w2) { continue; }
            StrideInfo const si = make_strides(sh, v);
            // preconditions: strides and required span size representable in index_type
            bool rep = static_cast<unsigned long long>(rss_strided(sh, si.s)) <= imax<I>();
            for (int r = 0; r < R; ++r) { rep = rep && static_cast<unsigned long long>(si.s[r]) <= imax<I>(); }
            if (!rep) {
                vf::count("stride.skipped_not_representable");
                continue;
            }
            vf::label("stride.noncanonical", !si.canonical);
            vf::label("stride.permuted", si.permuted);
            vf::label("stride.padded", si.padded);
            if (w1) {
                check_stride<E>(kv, sh, si);
                nt(!si.canonical);
            }
            if (w2) {
                check_mdspan_stride<E>(kv, sh, si);
                nt(!si.canonical);
            }
            if (!si.canonical && R >= 3 && !zero && (code % 37) == 5 && v % 11 == 4) {
                vf::sample("layout_stride", [&] { return show_case(kv) + " strides " + arr_str(R, si.s) + " span " + std::to_string(rss_strided(sh, si.s)); });
            }
        }
        if (mixed && zero && (code % 7) == 3) {
            vf::sample("extents", [&] { return show_case(k) + " (mixed static/dynamic pattern with a zero extent: all constructors, layouts, mdspan, mdarray)"; });
        }
    }
}

struct Entry {
    char const* name;
    void (*run)(char const*);
};
#define C19_TYPE(name, I, ...) Entry{name, &run_type<etl::extents<I __VA_OPT__(, ) __VA_ARGS__>>},
Entry const g_table[] = {
#include C19_TABLE
};

} // namespace

void vf_run(vf::Ctx& c)
{
    g_ctl.maxext = c.thorough() ? 4 : 3;
    std::uint64_t i = 0;
    for (auto const& t : g_table) {
        if (!c.mine(i++)) { continue; }
        t.run(t.name);
        vf::count("types_instantiated");
    }
}

std::string vf_replay(std::string const& sub, std::string const& cs)
{
    // case string: "<type> e=<a,b,..|-> v=<var>"
    char type[64] = {0};
    char es[64]   = {0};
    int var       = 0;
    if (std::sscanf(cs.c_str(), "%63s e=%63s v=%d", type, es, &var) != 3) { return "unparsable case string: " + cs; }
    g_ctl.filter = true;
    g_ctl.fsub   = sub;
    g_ctl.fvar   = var;
    g_ctl.frank  = 0;
    if (std::string(es) != "-") {
        std::stringstream ss(es);
        std::string tok;
        while (std::getline(ss, tok, ',') && g_ctl.frank < 4) { g_ctl.fe[g_ctl.frank++] = std::atoi(tok.c_str()); }
    }
    g_ctl.maxext = 4;
    for (int r = 0; r < g_ctl.frank; ++r) { g_ctl.maxext = std::max(g_ctl.maxext, g_ctl.fe[r]); }
    for (auto const& t : g_table) {
        if (std::string(t.name) == type) {
            t.run(t.name);
            if (!g_ctl.matched) { return "case not reached: no such shape / sub-check / variant for type " + std::string(type) + " (" + sub + ": " + cs + ")"; }
            return "";
        }
    }
    return "type " + std::string(type) + " is not instantiated in this build (gen/C19_gen.py adds the types of saved cases)";
}
