// C06 (part 3/6) — modifying sequence operations of etl/algorithm.hpp against std:: on a copy.
// Engine E2 (exhaustive small-scope enumeration) + seeded random longer inputs.  See C06_common.cpp.
//
// Covered here: copy copy_if copy_n copy_backward move move_backward (also with overlapping destination),
// fill fill_n transform(unary,binary) generate generate_n.   (C06_mod2.cpp holds the remaining modifying operations.)
//
// Output buffers are sized to exactly what the standard says is written (the oracle's returned offset), so any
// additional write lands in a guard zone (pad=1) or in the ASan red zone (pad=0).
#include "C06_common.cpp"

namespace c06 {
namespace {

auto len(Case const& c) -> int { return static_cast<int>(c.a.size()); }
auto lenb(Case const& c) -> int { return static_cast<int>(c.b.size()); }

// ------------------------------------------------------------------ copy / copy_if / copy_n / copy_backward
template <typename K>
auto a_copy(Case const& c) -> std::string
{
    V a = mk(c.a, 0);
    V d(a.size(), Elem{55, -55});
    auto rs = std::copy(a.begin(), a.end(), d.begin()) - d.begin();
    auto s  = "ret=" + num(rs) + " src" + ren(a) + " dst" + ren(d);
    Buf A("a", a, c.pad, padn(c));
    Buf D("dest", len(c), c.pad, padn(c));
    std::string e;
    {
        Scope sc;
        auto re = etl::copy(at<K>(A, 0), at<K>(A, len(c)), oat<K>(D, 0));
        e       = "ret=" + num(off(D, re)) + " src" + ren(A) + " dst" + ren(D);
    }
    return verdict(e, s);
}
template <typename K>
auto a_copy_if(Case const& c) -> std::string
{
    V a = mk(c.a, 0);
    V d(a.size(), Elem{55, -55});
    auto rs = static_cast<int>(std::copy_if(a.begin(), a.end(), d.begin(), Pred{c.pred}) - d.begin());
    d.resize(static_cast<std::size_t>(rs));
    auto s = "ret=" + num(rs) + " src" + ren(a) + " dst" + ren(d);
    Buf A("a", a, c.pad, padn(c));
    Buf D("dest", rs, c.pad, padn(c));
    std::string e;
    {
        Scope sc;
        auto re = etl::copy_if(at<K>(A, 0), at<K>(A, len(c)), oat<K>(D, 0), Pred{c.pred});
        e       = "ret=" + num(off(D, re)) + " src" + ren(A) + " dst" + ren(D);
    }
    return verdict(e, s);
}
template <typename K>
auto a_copy_n(Case const& c) -> std::string
{
    if (c.n > len(c)) { return SKIP; } // [first, first+n) must be valid; n < 0 copies nothing ([alg.copy]: N = max(0, n))
    V a = mk(c.a, 0);
    int N = std::max(0, c.n);
    V d(static_cast<std::size_t>(N), Elem{55, -55});
    auto rs = std::copy_n(a.begin(), c.n, d.begin()) - d.begin();
    auto s  = "ret=" + num(rs) + " src" + ren(a) + " dst" + ren(d);
    Buf A("a", a, c.pad, padn(c));
    Buf D("dest", N, c.pad, padn(c));
    std::string e;
    {
        Scope sc;
        auto re = etl::copy_n(at<K>(A, 0), c.n, oat<K>(D, 0));
        e       = "ret=" + num(off(D, re)) + " src" + ren(A) + " dst" + ren(D);
    }
    return verdict(e, s);
}
template <typename K>
auto a_copy_backward(Case const& c) -> std::string
{
    V a = mk(c.a, 0);
    V d(a.size(), Elem{55, -55});
    auto rs = std::copy_backward(a.begin(), a.end(), d.end()) - d.begin();
    auto s  = "ret=" + num(rs) + " src" + ren(a) + " dst" + ren(d);
    Buf A("a", a, c.pad, padn(c));
    Buf D("dest", len(c), c.pad, padn(c));
    std::string e;
    {
        Scope sc;
        auto re = etl::copy_backward(at<K>(A, 0), at<K>(A, len(c)), at<K>(D, len(c)));
        e       = "ret=" + num(off(D, re)) + " src" + ren(A) + " dst" + ren(D);
    }
    return verdict(e, s);
}
// overlapping: copy [m,len) to the front (d_first outside [first,last)), copy_backward [0,len-m) to the back
template <typename K>
auto a_copy_overlap(Case const& c) -> std::string
{
    if (c.m < 1) { return SKIP; }
    V a = mk(c.a, 0);
    V a2 = a;
    auto r1 = std::copy(a.begin() + c.m, a.end(), a.begin()) - a.begin();
    auto r2 = std::copy_backward(a2.begin(), a2.end() - c.m, a2.end()) - a2.begin();
    auto s  = "copy ret=" + num(r1) + " " + ren(a) + " copy_backward ret=" + num(r2) + " " + ren(a2);
    Buf A("a", mk(c.a, 0), c.pad, padn(c));
    Buf A2("a2", mk(c.a, 0), c.pad, padn(c));
    std::string e;
    {
        Scope sc;
        auto e1 = etl::copy(at<K>(A, c.m), at<K>(A, len(c)), at<K>(A, 0));
        auto e2 = etl::copy_backward(at<K>(A2, 0), at<K>(A2, len(c) - c.m), at<K>(A2, len(c)));
        e       = "copy ret=" + num(off(A, e1)) + " " + ren(A) + " copy_backward ret=" + num(off(A2, e2)) + " " + ren(A2);
    }
    return verdict(e, s);
}

// ------------------------------------------------------------------ move / move_backward (sources are valid-but-unspecified)
template <typename K>
auto a_move(Case const& c) -> std::string
{
    V a = mk(c.a, 0);
    V d(a.size(), Elem{55, -55});
    auto rs = std::move(a.begin(), a.end(), d.begin()) - d.begin();
    auto s  = "ret=" + num(rs) + " dst" + ren(d);
    Buf A("a", mk(c.a, 0), c.pad, padn(c));
    Buf D("dest", len(c), c.pad, padn(c));
    std::string e;
    {
        Scope sc;
        auto re = etl::move(at<K>(A, 0), at<K>(A, len(c)), oat<K>(D, 0));
        e       = "ret=" + num(off(D, re)) + " dst" + ren(D);
    }
    if (!mask_ok(A, 0, len(c), mk(c.a, 0))) { return "move: a source element holds a value that is neither its old value nor moved-from: " + ren(A); }
    return verdict(e, s);
}
template <typename K>
auto a_move_backward(Case const& c) -> std::string
{
    V a = mk(c.a, 0);
    V d(a.size(), Elem{55, -55});
    auto rs = std::move_backward(a.begin(), a.end(), d.end()) - d.begin();
    auto s  = "ret=" + num(rs) + " dst" + ren(d);
    Buf A("a", mk(c.a, 0), c.pad, padn(c));
    Buf D("dest", len(c), c.pad, padn(c));
    std::string e;
    {
        Scope sc;
        auto re = etl::move_backward(at<K>(A, 0), at<K>(A, len(c)), at<K>(D, len(c)));
        e       = "ret=" + num(off(D, re)) + " dst" + ren(D);
    }
    if (!mask_ok(A, 0, len(c), mk(c.a, 0))) { return "move_backward: a source element holds a value that is neither its old value nor moved-from: " + ren(A); }
    return verdict(e, s);
}
template <typename K>
auto a_move_overlap(Case const& c) -> std::string
{
    if (c.m < 1) { return SKIP; }
    int k = len(c) - c.m; // number of elements moved
    V a   = mk(c.a, 0);
    V a2  = a;
    auto r1 = std::move(a.begin() + c.m, a.end(), a.begin()) - a.begin();
    auto r2 = std::move_backward(a2.begin(), a2.end() - c.m, a2.end()) - a2.begin();
    // specified: the destination block; the rest of the source is moved-from
    auto s = "move ret=" + num(r1) + " " + ren(a, k, len(c)) + " move_backward ret=" + num(r2) + " " + ren(a2, 0, c.m);
    Buf A("a", mk(c.a, 0), c.pad, padn(c));
    Buf A2("a2", mk(c.a, 0), c.pad, padn(c));
    std::string e;
    {
        Scope sc;
        auto e1 = etl::move(at<K>(A, c.m), at<K>(A, len(c)), at<K>(A, 0));
        auto e2 = etl::move_backward(at<K>(A2, 0), at<K>(A2, len(c) - c.m), at<K>(A2, len(c)));
        e       = "move ret=" + num(off(A, e1)) + " " + ren(A, k, len(c)) + " move_backward ret=" + num(off(A2, e2)) + " " + ren(A2, 0, c.m);
    }
    return verdict(e, s);
}

// ------------------------------------------------------------------ fill / fill_n / generate / generate_n
template <typename K>
auto a_fill(Case const& c) -> std::string
{
    V a = mk(c.a, 0);
    Elem v{c.val, 900};
    std::fill(a.begin(), a.end(), v);
    auto s = ren(a);
    Buf A("a", mk(c.a, 0), c.pad, padn(c));
    std::string e;
    {
        Scope sc;
        etl::fill(at<K>(A, 0), at<K>(A, len(c)), v);
        e = ren(A);
    }
    return verdict(e, s);
}
template <typename K>
auto a_fill_n(Case const& c) -> std::string
{
    if (c.n > len(c)) { return SKIP; }
    V a = mk(c.a, 0);
    Elem v{c.val, 900};
    auto rs = std::fill_n(a.begin(), c.n, v) - a.begin();
    auto s  = "ret=" + num(rs) + " " + ren(a);
    Buf A("a", mk(c.a, 0), c.pad, padn(c));
    std::string e;
    {
        Scope sc;
        auto re = etl::fill_n(oat<K>(A, 0), c.n, v);
        e       = "ret=" + num(off(A, re)) + " " + ren(A);
    }
    return verdict(e, s);
}
struct Gen {
    int* calls;
    auto operator()() const -> Elem
    {
        auto k = (*calls)++;
        return Elem{k % 3, 500 + k};
    }
};
template <typename K>
auto a_generate(Case const& c) -> std::string
{
    V a = mk(c.a, 0);
    int cs = 0;
    std::generate(a.begin(), a.end(), Gen{&cs});
    auto s = "calls=" + num(cs) + " " + ren(a);
    Buf A("a", mk(c.a, 0), c.pad, padn(c));
    std::string e;
    int ce = 0;
    {
        Scope sc;
        etl::generate(at<K>(A, 0), at<K>(A, len(c)), Gen{&ce});
        e = "calls=" + num(ce) + " " + ren(A);
    }
    return verdict(e, s);
}
template <typename K>
auto a_generate_n(Case const& c) -> std::string
{
    if (c.n > len(c)) { return SKIP; }
    V a = mk(c.a, 0);
    int cs  = 0;
    auto rs = std::generate_n(a.begin(), c.n, Gen{&cs}) - a.begin();
    auto s  = "ret=" + num(rs) + " calls=" + num(cs) + " " + ren(a);
    Buf A("a", mk(c.a, 0), c.pad, padn(c));
    std::string e;
    int ce = 0;
    {
        Scope sc;
        auto re = etl::generate_n(oat<K>(A, 0), c.n, Gen{&ce});
        e       = "ret=" + num(off(A, re)) + " calls=" + num(ce) + " " + ren(A);
    }
    return verdict(e, s);
}

// ------------------------------------------------------------------ transform (unary / binary)
struct Op1 {
    auto operator()(Elem const& x) const -> Elem
    {
        touch(&x, "operation applied to");
        return Elem{x.key * 3 + 1, x.tag + 1000};
    }
};
struct Op2 {
    auto operator()(Elem const& x, Elem const& y) const -> Elem
    {
        touch(&x, "operation applied to");
        touch(&y, "operation applied to");
        return Elem{x.key * 4 + y.key, x.tag * 1000 + y.tag};
    }
};
template <typename K>
auto a_transform1(Case const& c) -> std::string
{
    V a = mk(c.a, 0);
    V d(a.size(), Elem{55, -55});
    auto rs = std::transform(a.begin(), a.end(), d.begin(), Op1{}) - d.begin();
    auto s  = "ret=" + num(rs) + " src" + ren(a) + " dst" + ren(d);
    Buf A("a", a, c.pad, padn(c));
    Buf D("dest", len(c), c.pad, padn(c));
    std::string e;
    {
        Scope sc;
        auto re = etl::transform(at<K>(A, 0), at<K>(A, len(c)), oat<K>(D, 0), Op1{});
        e       = "ret=" + num(off(D, re)) + " src" + ren(A) + " dst" + ren(D);
    }
    return verdict(e, s);
}
template <typename K>
auto a_transform2(Case const& c) -> std::string
{
    if (lenb(c) < len(c)) { return SKIP; }
    V a = mk(c.a, 0);
    V b = mk(c.b, 100);
    V d(a.size(), Elem{55, -55});
    auto rs = std::transform(a.begin(), a.end(), b.begin(), d.begin(), Op2{}) - d.begin();
    auto s  = "ret=" + num(rs) + " a" + ren(a) + " b" + ren(b) + " dst" + ren(d);
    Buf A("a", a, c.pad, padn(c));
    Buf B("b", b, c.pad, padn(c));
    Buf D("dest", len(c), c.pad, padn(c));
    std::string e;
    {
        Scope sc;
        auto re = etl::transform(at<K>(A, 0), at<K>(A, len(c)), at2<K>(B, 0), oat<K>(D, 0), Op2{});
        e       = "ret=" + num(off(D, re)) + " a" + ren(A) + " b" + ren(B) + " dst" + ren(D);
    }
    return verdict(e, s);
}

} // namespace

auto table() -> std::vector<Entry> const&
{
    static std::vector<Entry> const t = {
        C06_REG(a_copy, "copy", 0, KP),
        C06_REG(a_copy, "copy", 0, KI),
        C06_REG(a_copy, "copy", 0, Kpo),
        C06_REG(a_copy, "copy", 0, Kiq),
        C06_REG(a_copy_if, "copy_if", D_PRED, KP),
        C06_REG(a_copy_if, "copy_if", D_PRED, KI),
        C06_REG(a_copy_if, "copy_if", D_PRED, Kpo),
        C06_REG(a_copy_if, "copy_if", D_PRED, Kiq),
        C06_REG(a_copy_n, "copy_n", D_N, KP),
        C06_REG(a_copy_n, "copy_n", D_N, KI),
        C06_REG(a_copy_n, "copy_n", D_N, Kpo),
        C06_REG(a_copy_n, "copy_n", D_N, Kiq),
        C06_REG(a_copy_backward, "copy_backward", 0, KP),
        C06_REG(a_copy_backward, "copy_backward", 0, KB),
        C06_REG(a_copy_overlap, "copy_overlapping", D_MID, KP),
        C06_REG(a_copy_overlap, "copy_overlapping", D_MID, KB),
        C06_REG(a_move, "move", 0, KP),
        C06_REG(a_move, "move", 0, KI),
        C06_REG(a_move, "move", 0, Kpo),
        C06_REG(a_move, "move", 0, Kiq),
        C06_REG(a_move_backward, "move_backward", 0, KP),
        C06_REG(a_move_backward, "move_backward", 0, KB),
        C06_REG(a_move_overlap, "move_overlapping", D_MID, KP),
        C06_REG(a_move_overlap, "move_overlapping", D_MID, KB),
        C06_REG(a_fill, "fill", D_VAL, KP),
        C06_REG(a_fill, "fill", D_VAL, KF),
        C06_REG(a_fill_n, "fill_n", D_VAL | D_N, KP),
        C06_REG(a_fill_n, "fill_n", D_VAL | D_N, KF),
        C06_REG(a_generate, "generate", 0, KP),
        C06_REG(a_generate, "generate", 0, KF),
        C06_REG(a_generate_n, "generate_n", D_N, KP),
        C06_REG(a_generate_n, "generate_n", D_N, KF),
        C06_REG(a_transform1, "transform_unary", 0, KP),
        C06_REG(a_transform1, "transform_unary", 0, KI),
        C06_REG(a_transform1, "transform_unary", 0, Kpo),
        C06_REG(a_transform1, "transform_unary", 0, Kiq),
        C06_REG(a_transform2, "transform_binary", D_BSAME, KP),
        C06_REG(a_transform2, "transform_binary", D_BSAME, KI),
        C06_REG(a_transform2, "transform_binary", D_BSAME, Kpi),
        C06_REG(a_transform2, "transform_binary", D_BSAME, Kip),
        C06_REG(a_transform2, "transform_binary", D_BSAME, Kfi),
        C06_REG(a_transform2, "transform_binary", D_BSAME, Kpf),
        C06_REG(a_transform2, "transform_binary", D_BSAME, Kbp),
    };
    return t;
}

} // namespace c06

void vf_run(vf::Ctx& c) { c06::run_table(c); }
std::string vf_replay(std::string const& sub, std::string const& cs) { return c06::replay_table(sub, cs); }
