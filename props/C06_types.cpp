// C06 (part 7/7) — element-type and result-type dependent behaviour of etl/algorithm.hpp.
// Engine E2 (exhaustive small-scope enumeration) + seeded random longer inputs.  See C06_common.cpp.
//
// (1) Algorithms that an implementation may special-case by element type (memcmp / memmove / memset / memchr style fast
//     paths: equal, mismatch, lexicographical_compare, find, count, search, copy / move / fill families, remove, replace,
//     reverse, rotate, unique, min/max_element, sort, binary searches, merge, includes ...) run on RAW POINTERS into
//     exact-size heap blocks and through etl::array, for element types signed char, unsigned char, char, char8_t, bool,
//     a scoped enum over signed char, float and double, with negative values, bytes >= 0x80, -0.0 / +0.0 and (for the
//     equality-based algorithms) NaN; oracle std:: on a std::vector of the same type.  Also etl::array's relational
//     operators against std::array.
// (2) Predicates / comparators that return a CLASS which is only contextually convertible to bool (explicit operator
//     bool): the algorithms must use the result in a boolean context only.  (int results with "true" != 1 are a
//     dimension of every other C06 harness: Case::tr.)
#include "C06_common.cpp"

#include <etl/array.hpp>

#include <array>
#include <cmath>
#include <cstring>
#include <limits>

namespace c06 {
namespace {

auto len(Case const& c) -> int { return static_cast<int>(c.a.size()); }
auto lenb(Case const& c) -> int { return static_cast<int>(c.b.size()); }
auto bs(bool v) -> std::string { return v ? "T" : "F"; }

// ================================================================== (1) element types
enum class SE : signed char { a = -3, b = 5, c = -128, d = 0 };

template <typename T, bool Nan>
auto tval(int key) -> T
{
    int k = key & 3;
    if constexpr (std::is_same_v<T, bool>) {
        return k == 1 || k == 2;
    } else if constexpr (std::is_same_v<T, SE>) {
        constexpr SE t[] = {SE::a, SE::b, SE::c, SE::d};
        return t[k];
    } else if constexpr (std::is_floating_point_v<T>) {
        // key 0 and 1 compare equal but differ in their bytes; NaN (equality-based checks only) has equal bytes but != itself
        T const t[] = {T(-0.0), T(0.0), Nan ? std::numeric_limits<T>::quiet_NaN() : T(-1.5), T(2.5)};
        return t[k];
    } else if constexpr (std::is_signed_v<T>) {
        constexpr int t[] = {-3, 5, -128, 0};
        return static_cast<T>(t[k]);
    } else {
        constexpr int t[] = {0xFD, 5, 0x80, 0};
        return static_cast<T>(t[k]);
    }
}
template <typename T>
auto t1(T v) -> std::string
{
    if constexpr (std::is_floating_point_v<T>) {
        if (std::isnan(v)) { return "nan"; }
        char buf[40];
        std::snprintf(buf, sizeof buf, "%.9g", static_cast<double>(v)); // prints the sign of a zero
        return buf;
    } else if constexpr (std::is_enum_v<T>) {
        return std::to_string(static_cast<int>(v));
    } else {
        return std::to_string(static_cast<int>(v));
    }
}
template <typename T>
auto tv(T const* p, int n) -> std::string
{
    std::string s = "[";
    for (int i = 0; i < n; ++i) { s += (i != 0 ? " " : "") + t1(p[i]); }
    return s + "]";
}
template <typename T>
auto tv(std::vector<T> const& v) -> std::string
{
    std::string s = "[";
    for (std::size_t i = 0; i < v.size(); ++i) { s += (i != 0 ? " " : "") + t1(T(v[i])); } // T(...) : vector<bool> proxies
    return s + "]";
}

std::vector<std::function<std::string()>>& tguards()
{
    static std::vector<std::function<std::string()>> v;
    return v;
}
// exact-size heap block (mode 0) or payload between two 64-byte guard zones filled with 0xA5 (mode 1)
template <typename T>
struct TBuf {
    char const* name;
    unsigned char* raw{nullptr};
    int n{0};
    std::size_t padb{0};
    TBuf(char const* nm, std::vector<T> const& init, int mode) : name{nm}, n{static_cast<int>(init.size())}, padb{mode == 0 ? 0U : 64U}
    {
        raw = static_cast<unsigned char*>(::operator new(static_cast<std::size_t>(n) * sizeof(T) + 2 * padb));
        std::memset(raw, 0xA5, padb);
        for (int i = 0; i < n; ++i) { new (b() + i) T(init[static_cast<std::size_t>(i)]); }
        std::memset(raw + padb + static_cast<std::size_t>(n) * sizeof(T), 0xA5, padb);
        tguards().push_back([this] { return guards(); });
    }
    ~TBuf()
    {
        tguards().pop_back();
        ::operator delete(raw);
    }
    TBuf(TBuf const&)                    = delete;
    auto operator=(TBuf const&) -> TBuf& = delete;
    [[nodiscard]] auto b() const -> T* { return reinterpret_cast<T*>(raw + padb); }
    [[nodiscard]] auto e() const -> T* { return b() + n; }
    [[nodiscard]] auto guards() const -> std::string
    {
        for (std::size_t i = 0; i < padb; ++i) {
            if (raw[i] != 0xA5) { return std::string("a byte before buffer '") + name + "' was overwritten"; }
            if (raw[padb + static_cast<std::size_t>(n) * sizeof(T) + i] != 0xA5) { return std::string("a byte past buffer '") + name + "' (" + num(n) + " elements) was overwritten"; }
        }
        return "";
    }
    [[nodiscard]] auto str() const -> std::string { return tv(b(), n); }
};
auto tverdict(std::string const& e, std::string const& s) -> std::string
{
    for (auto const& gfn : tguards()) {
        auto gd = gfn();
        if (!gd.empty()) { return "out of range: " + gd + "; etl gave " + e + ", std gives " + s; }
    }
    return verdict(e, s);
}

// One case = (a, b, value key); every algorithm of the family runs on fresh copies.  `Ord` = the type's operator< is a
// strict weak order on the generated values (false for the NaN variant).
template <typename T, bool Nan>
auto typed(Case const& c) -> std::string
{
    constexpr bool Ord = !Nan;
    constexpr bool Flt = std::is_floating_point_v<T>;
    int const L  = len(c);
    int const LB = lenb(c);
    int const m  = L == 0 ? 0 : c.val % (L + 1);
    std::vector<T> a;
    std::vector<T> b;
    for (int k : c.a) { a.push_back(tval<T, Nan>(k)); }
    for (int k : c.b) { b.push_back(tval<T, Nan>(k)); }
    T const v  = tval<T, Nan>(c.val);
    T const nv = tval<T, Nan>(c.val + 1);
    auto const sa = [&] { // sorted copies for the algorithms that need sorted input
        auto x = a;
        if constexpr (Ord) { std::stable_sort(x.begin(), x.end()); }
        return x;
    }();
    auto const sb = [&] {
        auto x = b;
        if constexpr (Ord) { std::stable_sort(x.begin(), x.end()); }
        return x;
    }();
    std::string s;
    std::string e;
    auto const mode = c.pad;

    // ---------------------------------------------------------------- std
    {
        auto f = a.begin();
        auto l = a.end();
        s += "eq4=" + bs(std::equal(f, l, b.begin(), b.end()));
        if (LB >= L) { s += " eq3=" + bs(std::equal(f, l, b.begin())) + " mm3=" + num(std::mismatch(f, l, b.begin()).first - f); }
        auto mm = std::mismatch(f, l, b.begin(), b.end());
        s += " mm4=" + num(mm.first - f) + "," + num(mm.second - b.begin());
        s += " find=" + num(std::find(f, l, v) - f) + " count=" + num(std::count(f, l, v));
        s += " search=" + num(std::search(f, l, b.begin(), b.end()) - f) + " find_end=" + num(std::find_end(f, l, b.begin(), b.end()) - f) + " ffo=" + num(std::find_first_of(f, l, b.begin(), b.end()) - f);
        s += " adj=" + num(std::adjacent_find(f, l) - f) + " searchn=" + num(std::search_n(f, l, 2, v) - f) + " perm=" + bs(std::is_permutation(f, l, b.begin(), b.end()));
        {
            auto x = a;
            auto r = std::remove(x.begin(), x.end(), v) - x.begin();
            x.resize(static_cast<std::size_t>(r));
            s += " remove=" + num(r) + tv(x);
        }
        {
            auto x = a;
            std::replace(x.begin(), x.end(), v, nv);
            s += " replace" + tv(x);
        }
        {
            auto x = a;
            auto r = std::unique(x.begin(), x.end()) - x.begin();
            x.resize(static_cast<std::size_t>(r));
            s += " unique=" + num(r) + tv(x);
        }
        {
            std::vector<T> d(a.size(), nv);
            auto r = std::remove_copy(f, l, d.begin(), v) - d.begin();
            d.resize(static_cast<std::size_t>(r));
            s += " remove_copy=" + num(r) + tv(d);
            std::vector<T> u(a.size(), nv);
            auto r2 = std::unique_copy(f, l, u.begin()) - u.begin();
            u.resize(static_cast<std::size_t>(r2));
            s += " unique_copy=" + num(r2) + tv(u);
        }
        {
            std::vector<T> d1(a.size(), nv);
            std::vector<T> d2(a.size(), nv);
            std::vector<T> d3(a.size(), nv);
            std::vector<T> d4(a.size(), nv);
            std::vector<T> d5(a.size(), nv);
            std::vector<T> d6(a.size(), nv);
            auto r1 = std::copy(f, l, d1.begin()) - d1.begin();
            auto r2 = std::copy_n(f, m, d2.begin()) - d2.begin();
            auto r3 = std::copy_backward(f, l, d3.end()) - d3.begin();
            auto r4 = std::move(f, l, d4.begin()) - d4.begin();
            auto r5 = std::reverse_copy(f, l, d5.begin()) - d5.begin();
            auto r6 = std::rotate_copy(f, f + m, l, d6.begin()) - d6.begin();
            s += " copy=" + num(r1) + tv(d1) + " copy_n=" + num(r2) + tv(d2) + " copy_backward=" + num(r3) + tv(d3) + " move=" + num(r4) + tv(d4) + " reverse_copy=" + num(r5) + tv(d5) + " rotate_copy=" + num(r6) + tv(d6);
        }
        {
            auto x = a;
            std::fill(x.begin(), x.end(), v);
            auto y = a;
            auto r = std::fill_n(y.begin(), m, v) - y.begin();
            s += " fill" + tv(x) + " fill_n=" + num(r) + tv(y);
        }
        {
            auto x = a;
            std::reverse(x.begin(), x.end());
            auto y = a;
            auto r = std::rotate(y.begin(), y.begin() + m, y.end()) - y.begin();
            auto z = a;
            auto r2 = std::copy(z.begin() + m, z.end(), z.begin()) - z.begin(); // overlapping copy to the left (memmove territory)
            auto w  = a;
            auto r3 = std::move_backward(w.begin(), w.end() - m, w.end()) - w.begin();
            s += " reverse" + tv(x) + " rotate=" + num(r) + tv(y) + " copy_left=" + num(r2) + tv(z) + " move_backward=" + num(r3) + tv(w);
        }
        if (LB >= L) {
            auto x = a;
            auto y = b;
            std::swap_ranges(x.begin(), x.end(), y.begin());
            s += " swap_ranges" + tv(x) + tv(y);
        }
        if constexpr (Ord) {
            s += " lex=" + bs(std::lexicographical_compare(f, l, b.begin(), b.end())) + bs(std::lexicographical_compare(b.begin(), b.end(), f, l));
            s += " min=" + num(std::min_element(f, l) - f) + " max=" + num(std::max_element(f, l) - f);
            auto mme = std::minmax_element(f, l);
            s += " minmax=" + num(mme.first - f) + "," + num(mme.second - f) + " sorted_until=" + num(std::is_sorted_until(f, l) - f) + " is_sorted=" + bs(std::is_sorted(f, l));
            {
                auto x = a;
                std::stable_sort(x.begin(), x.end());
                s += " stable_sort" + tv(x);
                if constexpr (!Flt) { // equivalent integral values are identical, so any correct sort gives the same array
                    s += " sort" + tv(x) + " nth=" + (L == 0 ? std::string("-") : t1(T(x[static_cast<std::size_t>(m == L ? L - 1 : m)])));
                }
            }
            s += " lb=" + num(std::lower_bound(sa.begin(), sa.end(), v) - sa.begin()) + " ub=" + num(std::upper_bound(sa.begin(), sa.end(), v) - sa.begin()) + " bin=" + bs(std::binary_search(sa.begin(), sa.end(), v));
            s += " includes=" + bs(std::includes(sa.begin(), sa.end(), sb.begin(), sb.end()));
            {
                std::vector<T> d(sa.size() + sb.size(), nv);
                auto r = std::merge(sa.begin(), sa.end(), sb.begin(), sb.end(), d.begin()) - d.begin();
                s += " merge=" + num(r) + tv(d);
                std::vector<T> u(sa.size() + sb.size(), nv);
                auto r2 = std::set_union(sa.begin(), sa.end(), sb.begin(), sb.end(), u.begin()) - u.begin();
                u.resize(static_cast<std::size_t>(r2));
                s += " set_union=" + num(r2) + tv(u);
            }
            if (L >= 1) { s += " clamp=" + t1(T(std::clamp(a[0], std::min(v, nv), std::max(v, nv)))) + " min2=" + t1(T(std::min(a[0], v))) + " max2=" + t1(T(std::max(a[0], v))); }
        }
        if (L == 3 && LB == 3) {
            std::array<T, 3> x{a[0], a[1], a[2]};
            std::array<T, 3> y{b[0], b[1], b[2]};
            s += " array:" + bs(x == y) + bs(x != y);
            if constexpr (Ord) { s += bs(x < y) + bs(x <= y) + bs(x > y) + bs(x >= y); }
        }
    }
    // ---------------------------------------------------------------- etl (raw pointers)
    {
        TBuf<T> A("a", a, mode);
        TBuf<T> B("b", b, mode);
        TBuf<T> SA("sorted_a", sa, mode);
        TBuf<T> SB("sorted_b", sb, mode);
        Scope sc;
        T* f  = A.b();
        T* l  = A.e();
        T* f2 = B.b();
        T* l2 = B.e();
        e += "eq4=" + bs(etl::equal(f, l, f2, l2));
        if (LB >= L) { e += " eq3=" + bs(etl::equal(f, l, f2)) + " mm3=" + num(etl::mismatch(f, l, f2).first - f); }
        auto mm = etl::mismatch(f, l, f2, l2);
        e += " mm4=" + num(mm.first - f) + "," + num(mm.second - f2);
        e += " find=" + num(etl::find(f, l, v) - f) + " count=" + num(etl::count(f, l, v));
        e += " search=" + num(etl::search(f, l, f2, l2) - f) + " find_end=" + num(etl::find_end(f, l, f2, l2) - f) + " ffo=" + num(etl::find_first_of(f, l, f2, l2) - f);
        e += " adj=" + num(etl::adjacent_find(f, l) - f) + " searchn=" + num(etl::search_n(f, l, 2, v) - f) + " perm=" + bs(etl::is_permutation(f, l, f2, l2));
        {
            TBuf<T> X("x", a, mode);
            auto r = etl::remove(X.b(), X.e(), v) - X.b();
            e += " remove=" + num(r) + tv(X.b(), static_cast<int>(r));
        }
        {
            TBuf<T> X("x", a, mode);
            etl::replace(X.b(), X.e(), v, nv);
            e += " replace" + X.str();
        }
        {
            TBuf<T> X("x", a, mode);
            auto r = etl::unique(X.b(), X.e()) - X.b();
            e += " unique=" + num(r) + tv(X.b(), static_cast<int>(r));
        }
        {
            auto keep = static_cast<std::size_t>(L - std::count(a.begin(), a.end(), v));
            TBuf<T> D("remove_copy_dest", std::vector<T>(keep, nv), mode);
            auto r = etl::remove_copy(f, l, D.b(), v) - D.b();
            e += " remove_copy=" + num(r) + D.str();
            auto x  = a;
            auto ul = static_cast<std::size_t>(std::unique(x.begin(), x.end()) - x.begin());
            TBuf<T> U("unique_copy_dest", std::vector<T>(ul, nv), mode);
            auto r2 = etl::unique_copy(f, l, U.b()) - U.b();
            e += " unique_copy=" + num(r2) + U.str();
        }
        {
            TBuf<T> D1("d1", std::vector<T>(a.size(), nv), mode);
            TBuf<T> D2("d2", std::vector<T>(a.size(), nv), mode);
            TBuf<T> D3("d3", std::vector<T>(a.size(), nv), mode);
            TBuf<T> D4("d4", std::vector<T>(a.size(), nv), mode);
            TBuf<T> D5("d5", std::vector<T>(a.size(), nv), mode);
            TBuf<T> D6("d6", std::vector<T>(a.size(), nv), mode);
            auto r1 = etl::copy(f, l, D1.b()) - D1.b();
            auto r2 = etl::copy_n(f, m, D2.b()) - D2.b();
            auto r3 = etl::copy_backward(f, l, D3.e()) - D3.b();
            auto r4 = etl::move(f, l, D4.b()) - D4.b();
            auto r5 = etl::reverse_copy(f, l, D5.b()) - D5.b();
            auto r6 = etl::rotate_copy(f, f + m, l, D6.b()) - D6.b();
            e += " copy=" + num(r1) + D1.str() + " copy_n=" + num(r2) + D2.str() + " copy_backward=" + num(r3) + D3.str() + " move=" + num(r4) + D4.str() + " reverse_copy=" + num(r5) + D5.str() + " rotate_copy=" + num(r6) + D6.str();
        }
        {
            TBuf<T> X("x", a, mode);
            etl::fill(X.b(), X.e(), v);
            TBuf<T> Y("y", a, mode);
            auto r = etl::fill_n(Y.b(), m, v) - Y.b();
            e += " fill" + X.str() + " fill_n=" + num(r) + Y.str();
        }
        {
            TBuf<T> X("x", a, mode);
            etl::reverse(X.b(), X.e());
            TBuf<T> Y("y", a, mode);
            auto r = etl::rotate(Y.b(), Y.b() + m, Y.e()) - Y.b();
            TBuf<T> Z("z", a, mode);
            auto r2 = etl::copy(Z.b() + m, Z.e(), Z.b()) - Z.b();
            TBuf<T> W("w", a, mode);
            auto r3 = etl::move_backward(W.b(), W.e() - m, W.e()) - W.b();
            e += " reverse" + X.str() + " rotate=" + num(r) + Y.str() + " copy_left=" + num(r2) + Z.str() + " move_backward=" + num(r3) + W.str();
        }
        if (LB >= L) {
            TBuf<T> X("x", a, mode);
            TBuf<T> Y("y", b, mode);
            etl::swap_ranges(X.b(), X.e(), Y.b());
            e += " swap_ranges" + X.str() + Y.str();
        }
        if constexpr (Ord) {
            e += " lex=" + bs(etl::lexicographical_compare(f, l, f2, l2)) + bs(etl::lexicographical_compare(f2, l2, f, l));
            e += " min=" + num(etl::min_element(f, l) - f) + " max=" + num(etl::max_element(f, l) - f);
            auto mme = etl::minmax_element(f, l);
            e += " minmax=" + num(mme.first - f) + "," + num(mme.second - f) + " sorted_until=" + num(etl::is_sorted_until(f, l) - f) + " is_sorted=" + bs(etl::is_sorted(f, l));
            {
                TBuf<T> X("x", a, mode);
                etl::stable_sort(X.b(), X.e());
                e += " stable_sort" + X.str();
                if constexpr (!Flt) {
                    TBuf<T> Y("y", a, mode);
                    etl::sort(Y.b(), Y.e());
                    TBuf<T> Z("z", a, mode);
                    etl::nth_element(Z.b(), Z.b() + m, Z.e());
                    e += " sort" + Y.str() + " nth=" + (L == 0 ? std::string("-") : t1(Z.b()[m == L ? L - 1 : m]));
                    if (m == L && L > 0) { e.resize(e.size()); } // nth == last: nothing is specified about the contents; the rendering uses std's sorted value
                }
            }
            e += " lb=" + num(etl::lower_bound(SA.b(), SA.e(), v) - SA.b()) + " ub=" + num(etl::upper_bound(SA.b(), SA.e(), v) - SA.b()) + " bin=" + bs(etl::binary_search(SA.b(), SA.e(), v));
            e += " includes=" + bs(etl::includes(SA.b(), SA.e(), SB.b(), SB.e()));
            {
                TBuf<T> D("merge_dest", std::vector<T>(sa.size() + sb.size(), nv), mode);
                auto r = etl::merge(SA.b(), SA.e(), SB.b(), SB.e(), D.b()) - D.b();
                e += " merge=" + num(r) + D.str();
                std::vector<T> u(sa.size() + sb.size(), nv);
                auto ul = static_cast<std::size_t>(std::set_union(sa.begin(), sa.end(), sb.begin(), sb.end(), u.begin()) - u.begin());
                TBuf<T> U("set_union_dest", std::vector<T>(ul, nv), mode);
                auto r2 = etl::set_union(SA.b(), SA.e(), SB.b(), SB.e(), U.b()) - U.b();
                e += " set_union=" + num(r2) + U.str();
            }
            if (L >= 1) { e += " clamp=" + t1(T(etl::clamp(f[0], etl::min(v, nv), etl::max(v, nv)))) + " min2=" + t1(T(etl::min(f[0], v))) + " max2=" + t1(T(etl::max(f[0], v))); }
        }
        if (L == 3 && LB == 3) {
            etl::array<T, 3> x{a[0], a[1], a[2]};
            etl::array<T, 3> y{b[0], b[1], b[2]};
            e += " array:" + bs(x == y) + bs(x != y);
            if constexpr (Ord) { e += bs(x < y) + bs(x <= y) + bs(x > y) + bs(x >= y); }
        }
    }
    return tverdict(e, s);
}
template <typename K>
auto a_t_schar(Case const& c) -> std::string { return typed<signed char, false>(c); }
template <typename K>
auto a_t_uchar(Case const& c) -> std::string { return typed<unsigned char, false>(c); }
template <typename K>
auto a_t_char(Case const& c) -> std::string { return typed<char, false>(c); }
template <typename K>
auto a_t_char8(Case const& c) -> std::string { return typed<char8_t, false>(c); }
template <typename K>
auto a_t_bool(Case const& c) -> std::string { return typed<bool, false>(c); }
template <typename K>
auto a_t_enum(Case const& c) -> std::string { return typed<SE, false>(c); }
template <typename K>
auto a_t_float(Case const& c) -> std::string { return typed<float, false>(c); }
template <typename K>
auto a_t_double(Case const& c) -> std::string { return typed<double, false>(c); }
template <typename K>
auto a_t_float_nan(Case const& c) -> std::string { return typed<float, true>(c); }
template <typename K>
auto a_t_double_nan(Case const& c) -> std::string { return typed<double, true>(c); }

// ================================================================== (2) results of class type, explicit operator bool
struct Truthy {
    bool v;
    explicit operator bool() const { return v; }
};
struct PredC {
    int id;
    auto operator()(Elem const& e) const -> Truthy
    {
        touch(&e, "predicate applied to");
        return Truthy{pred_eval(id, e.key)};
    }
};
struct CmpC {
    int id;
    auto operator()(Elem const& a, Elem const& b) const -> Truthy
    {
        touch(&a, "comparator applied to");
        touch(&b, "comparator applied to");
        return Truthy{cmp_eval(id, a.key, b.key)};
    }
};
struct EqC {
    int id;
    auto operator()(Elem const& a, Elem const& b) const -> Truthy
    {
        touch(&a, "binary predicate applied to");
        touch(&b, "binary predicate applied to");
        return Truthy{eq_eval(id, a.key, b.key)};
    }
};
auto keys_of(Elem const* p, int n) -> std::string
{
    std::string s = "[";
    for (int i = 0; i < n; ++i) { s += (i != 0 ? " " : "") + num(p[i].key); }
    return s + "]";
}

// stable_partition is not in this list: `f + p(*f)` in its body does not compile for a class result (not a behaviour)
template <typename K>
auto a_class_unary(Case const& c) -> std::string
{
    V a = mk(c.a, 0);
    PredC p{c.pred};
    int const L = len(c);
    std::string s;
    std::string e;
    int ntrue = 0;
    for (int k : c.a) { ntrue += pred_eval(c.pred, k) ? 1 : 0; }
    {
        auto f = a.begin();
        auto l = a.end();
        s += bs(std::all_of(f, l, p)) + bs(std::any_of(f, l, p)) + bs(std::none_of(f, l, p)) + " count_if=" + num(std::count_if(f, l, p)) + " find_if=" + num(std::find_if(f, l, p) - f) + " find_if_not=" + num(std::find_if_not(f, l, p) - f)
           + " is_partitioned=" + bs(std::is_partitioned(f, l, p));
        V d(a.size(), Elem{55, -55});
        auto r = std::copy_if(f, l, d.begin(), p) - d.begin();
        s += " copy_if=" + num(r) + ren(d.data(), static_cast<int>(r));
        V d2(a.size(), Elem{55, -55});
        auto r2 = std::remove_copy_if(f, l, d2.begin(), p) - d2.begin();
        s += " remove_copy_if=" + num(r2) + ren(d2.data(), static_cast<int>(r2));
        V x = a;
        auto r3 = std::remove_if(x.begin(), x.end(), p) - x.begin();
        s += " remove_if=" + num(r3) + ren(x.data(), static_cast<int>(r3));
        V y = a;
        std::replace_if(y.begin(), y.end(), p, Elem{7, 700});
        s += " replace_if" + ren(y);
        V dt(a.size(), Elem{55, -55});
        V df(a.size(), Elem{55, -55});
        auto pc = std::partition_copy(f, l, dt.begin(), df.begin(), p);
        s += " partition_copy=" + num(pc.first - dt.begin()) + "," + num(pc.second - df.begin()) + ren(dt.data(), static_cast<int>(pc.first - dt.begin())) + ren(df.data(), static_cast<int>(pc.second - df.begin()));
        V z = a;
        std::stable_partition(z.begin(), z.end(), p);
        s += " partition=" + num(ntrue) + " partition_point=" + num(std::partition_point(z.begin(), z.end(), p) - z.begin());
    }
    {
        Buf A("a", a, c.pad, padn(c));
        Scope sc;
        auto f = A.b();
        auto l = A.e();
        e += bs(etl::all_of(f, l, p)) + bs(etl::any_of(f, l, p)) + bs(etl::none_of(f, l, p)) + " count_if=" + num(etl::count_if(f, l, p)) + " find_if=" + num(etl::find_if(f, l, p) - f) + " find_if_not=" + num(etl::find_if_not(f, l, p) - f)
           + " is_partitioned=" + bs(etl::is_partitioned(f, l, p));
        Buf D("copy_if_dest", ntrue, c.pad, padn(c));
        auto r = etl::copy_if(f, l, D.b(), p) - D.b();
        e += " copy_if=" + num(r) + ren(D);
        Buf D2("remove_copy_if_dest", L - ntrue, c.pad, padn(c));
        auto r2 = etl::remove_copy_if(f, l, D2.b(), p) - D2.b();
        e += " remove_copy_if=" + num(r2) + ren(D2);
        Buf X("x", a, c.pad, padn(c));
        auto r3 = etl::remove_if(X.b(), X.e(), p) - X.b();
        e += " remove_if=" + num(r3) + ren(X.b(), static_cast<int>(r3));
        Buf Y("y", a, c.pad, padn(c));
        etl::replace_if(Y.b(), Y.e(), p, Elem{7, 700});
        e += " replace_if" + ren(Y);
        Buf DT("dest_true", ntrue, c.pad, padn(c));
        Buf DF("dest_false", L - ntrue, c.pad, padn(c));
        auto pc = etl::partition_copy(f, l, DT.b(), DF.b(), p);
        e += " partition_copy=" + num(pc.first - DT.b()) + "," + num(pc.second - DF.b()) + ren(DT) + ren(DF);
        Buf Z("z", a, c.pad, padn(c));
        auto pr = etl::partition(Z.b(), Z.e(), p) - Z.b();
        bool ok = is_perm(Z.b(), Z.n, a);
        for (int i = 0; i < L; ++i) { ok = ok && pred_eval(c.pred, Z.b()[i].key) == (i < ntrue); }
        e += " partition=" + (ok ? num(pr) : "invalid" + ren(Z)) + " partition_point=" + num(etl::partition_point(Z.b(), Z.e(), p) - Z.b());
    }
    return verdict(e, s);
}
template <typename K>
auto a_class_binary(Case const& c) -> std::string
{
    V a = mk(c.a, 0);
    V b = mk(c.b, 100);
    EqC q{c.eq};
    Elem v{c.val, 900};
    std::string s;
    std::string e;
    {
        auto f = a.begin();
        auto l = a.end();
        auto mm = std::mismatch(f, l, b.begin(), b.end(), q);
        s += "equal=" + bs(std::equal(f, l, b.begin(), b.end(), q)) + " mismatch=" + num(mm.first - f) + "," + num(mm.second - b.begin()) + " search=" + num(std::search(f, l, b.begin(), b.end(), q) - f)
           + " find_end=" + num(std::find_end(f, l, b.begin(), b.end(), q) - f) + " find_first_of=" + num(std::find_first_of(f, l, b.begin(), b.end(), q) - f) + " adjacent_find=" + num(std::adjacent_find(f, l, q) - f)
           + " search_n=" + num(std::search_n(f, l, 2, v, q) - f);
        V x = a;
        auto r = std::unique(x.begin(), x.end(), q) - x.begin();
        s += " unique=" + num(r) + ren(x.data(), static_cast<int>(r));
        V d(a.size(), Elem{55, -55});
        auto r2 = std::unique_copy(f, l, d.begin(), q) - d.begin();
        s += " unique_copy=" + num(r2) + ren(d.data(), static_cast<int>(r2));
    }
    {
        Buf A("a", a, c.pad, padn(c));
        Buf B("b", b, c.pad, padn(c));
        Scope sc;
        auto f  = A.b();
        auto l  = A.e();
        auto mm = etl::mismatch(f, l, B.b(), B.e(), q);
        e += "equal=" + bs(etl::equal(f, l, B.b(), B.e(), q)) + " mismatch=" + num(mm.first - f) + "," + num(mm.second - B.b()) + " search=" + num(etl::search(f, l, B.b(), B.e(), q) - f)
           + " find_end=" + num(etl::find_end(f, l, B.b(), B.e(), q) - f) + " find_first_of=" + num(etl::find_first_of(f, l, B.b(), B.e(), q) - f) + " adjacent_find=" + num(etl::adjacent_find(f, l, q) - f)
           + " search_n=" + num(etl::search_n(f, l, 2, v, q) - f);
        Buf X("x", a, c.pad, padn(c));
        auto r = etl::unique(X.b(), X.e(), q) - X.b();
        e += " unique=" + num(r) + ren(X.b(), static_cast<int>(r));
        V x = a;
        auto ul = static_cast<int>(std::unique(x.begin(), x.end(), Eq{c.eq}) - x.begin());
        Buf D("unique_copy_dest", ul, c.pad, padn(c));
        auto r2 = etl::unique_copy(f, l, D.b(), q) - D.b();
        e += " unique_copy=" + num(r2) + ren(D);
    }
    return verdict(e, s);
}
template <typename K>
auto a_class_compare(Case const& c) -> std::string
{
    V a = mk(c.a, 0);
    V b = mk(c.b, 100);
    CmpC q{c.cmp};
    Elem v{c.val, 900};
    int const L = len(c);
    int const m = L == 0 ? 0 : c.val % (L + 1);
    V sa = a;
    V sb = b;
    std::stable_sort(sa.begin(), sa.end(), Cmp{c.cmp});
    std::stable_sort(sb.begin(), sb.end(), Cmp{c.cmp});
    V halves = a;
    std::stable_sort(halves.begin(), halves.begin() + m, Cmp{c.cmp});
    std::stable_sort(halves.begin() + m, halves.end(), Cmp{c.cmp});
    std::string s;
    std::string e;
    {
        auto f = a.begin();
        auto l = a.end();
        auto mme = std::minmax_element(f, l, q);
        s += "is_sorted=" + bs(std::is_sorted(f, l, q)) + " until=" + num(std::is_sorted_until(f, l, q) - f) + " min=" + num(std::min_element(f, l, q) - f) + " max=" + num(std::max_element(f, l, q) - f) + " minmax=" + num(mme.first - f) + ","
           + num(mme.second - f) + " lex=" + bs(std::lexicographical_compare(f, l, b.begin(), b.end(), q));
        V x = a;
        std::stable_sort(x.begin(), x.end(), q);
        s += " stable_sort" + ren(x) + " sort" + keys_of(x.data(), L) + " nth=" + (m < L ? num(x[static_cast<std::size_t>(m)].key & (c.cmp == 2 ? 1 : ~0)) : std::string("-"));
        auto er = std::equal_range(sa.begin(), sa.end(), v, q);
        s += " lb=" + num(std::lower_bound(sa.begin(), sa.end(), v, q) - sa.begin()) + " ub=" + num(std::upper_bound(sa.begin(), sa.end(), v, q) - sa.begin()) + " er=" + num(er.first - sa.begin()) + "," + num(er.second - sa.begin())
           + " bin=" + bs(std::binary_search(sa.begin(), sa.end(), v, q)) + " includes=" + bs(std::includes(sa.begin(), sa.end(), sb.begin(), sb.end(), q));
        V d(sa.size() + sb.size(), Elem{55, -55});
        std::merge(sa.begin(), sa.end(), sb.begin(), sb.end(), d.begin(), q);
        s += " merge" + ren(d);
        V u(sa.size() + sb.size(), Elem{55, -55});
        auto r = std::set_union(sa.begin(), sa.end(), sb.begin(), sb.end(), u.begin(), q) - u.begin();
        s += " set_union=" + num(r) + ren(u.data(), static_cast<int>(r));
        V i2(sa.size() + sb.size(), Elem{55, -55});
        auto r2 = std::set_intersection(sa.begin(), sa.end(), sb.begin(), sb.end(), i2.begin(), q) - i2.begin();
        s += " set_intersection=" + num(r2) + ren(i2.data(), static_cast<int>(r2));
        V h = halves;
        std::inplace_merge(h.begin(), h.begin() + m, h.end(), q);
        s += " inplace_merge" + ren(h);
        if (L >= 2) { s += " min2=" + num(&std::min(a[0], a[1], q) - a.data()) + " max2=" + num(&std::max(a[0], a[1], q) - a.data()); }
    }
    {
        Buf A("a", a, c.pad, padn(c));
        Buf B("b", b, c.pad, padn(c));
        Buf SA("sorted_a", sa, c.pad, padn(c));
        Buf SB("sorted_b", sb, c.pad, padn(c));
        Scope sc;
        auto f   = A.b();
        auto l   = A.e();
        auto mme = etl::minmax_element(f, l, q);
        e += "is_sorted=" + bs(etl::is_sorted(f, l, q)) + " until=" + num(etl::is_sorted_until(f, l, q) - f) + " min=" + num(etl::min_element(f, l, q) - f) + " max=" + num(etl::max_element(f, l, q) - f) + " minmax=" + num(mme.first - f) + ","
           + num(mme.second - f) + " lex=" + bs(etl::lexicographical_compare(f, l, B.b(), B.e(), q));
        Buf X("x", a, c.pad, padn(c));
        etl::stable_sort(X.b(), X.e(), q);
        Buf Y("y", a, c.pad, padn(c));
        etl::sort(Y.b(), Y.e(), q);
        Buf Z("z", a, c.pad, padn(c));
        etl::nth_element(Z.b(), Z.b() + m, Z.e(), q);
        // sort / nth_element are unstable: only the keys (mod-2 classes for the modulo comparator) are compared
        std::string sk = "[";
        for (int i = 0; i < L; ++i) { sk += (i != 0 ? " " : "") + num(c.cmp == 2 ? (Y.b()[i].key & 1) : Y.b()[i].key); }
        sk += "]";
        e += " stable_sort" + ren(X) + " sort" + (c.cmp == 2 ? std::string() : sk) + " nth=" + (m < L ? num(Z.b()[m].key & (c.cmp == 2 ? 1 : ~0)) : std::string("-"));
        if (c.cmp == 2) { // compare classes instead: rebuild std's rendering in the same form
            std::string want = "[";
            V x = a;
            std::stable_sort(x.begin(), x.end(), Cmp{2});
            for (int i = 0; i < L; ++i) { want += (i != 0 ? " " : "") + num(x[static_cast<std::size_t>(i)].key & 1); }
            want += "]";
            if (sk != want) { return "sort with a class-type comparator result: key classes " + sk + ", expected " + want; }
            auto pos = s.find(" sort[");
            auto end = s.find(']', pos);
            s.erase(pos + 5, end - (pos + 5) + 1);
        }
        auto er = etl::equal_range(SA.b(), SA.e(), v, q);
        e += " lb=" + num(etl::lower_bound(SA.b(), SA.e(), v, q) - SA.b()) + " ub=" + num(etl::upper_bound(SA.b(), SA.e(), v, q) - SA.b()) + " er=" + num(er.first - SA.b()) + "," + num(er.second - SA.b())
           + " bin=" + bs(etl::binary_search(SA.b(), SA.e(), v, q)) + " includes=" + bs(etl::includes(SA.b(), SA.e(), SB.b(), SB.e(), q));
        Buf D("merge_dest", static_cast<int>(sa.size() + sb.size()), c.pad, padn(c));
        etl::merge(SA.b(), SA.e(), SB.b(), SB.e(), D.b(), q);
        e += " merge" + ren(D);
        V u(sa.size() + sb.size(), Elem{55, -55});
        auto ul = static_cast<int>(std::set_union(sa.begin(), sa.end(), sb.begin(), sb.end(), u.begin(), Cmp{c.cmp}) - u.begin());
        Buf U("set_union_dest", ul, c.pad, padn(c));
        auto r = etl::set_union(SA.b(), SA.e(), SB.b(), SB.e(), U.b(), q) - U.b();
        e += " set_union=" + num(r) + ren(U);
        auto il = static_cast<int>(std::set_intersection(sa.begin(), sa.end(), sb.begin(), sb.end(), u.begin(), Cmp{c.cmp}) - u.begin());
        Buf I2("set_intersection_dest", il, c.pad, padn(c));
        auto r2 = etl::set_intersection(SA.b(), SA.e(), SB.b(), SB.e(), I2.b(), q) - I2.b();
        e += " set_intersection=" + num(r2) + ren(I2);
        Buf H("halves", halves, c.pad, padn(c));
        etl::inplace_merge(H.b(), H.b() + m, H.e(), q);
        e += " inplace_merge" + ren(H);
        if (L >= 2) { e += " min2=" + num(&etl::min(f[0], f[1], q) - f) + " max2=" + num(&etl::max(f[0], f[1], q) - f); }
    }
    return verdict(e, s);
}

} // namespace

auto table() -> std::vector<Entry> const&
{
    constexpr unsigned TY = D_B | D_VAL | D_LEN4;
    static std::vector<Entry> const t = {
        C06_REG(a_t_schar, "types_signed_char", TY, KP),
        C06_REG(a_t_uchar, "types_unsigned_char", TY, KP),
        C06_REG(a_t_char, "types_char", TY, KP),
        C06_REG(a_t_char8, "types_char8_t", TY, KP),
        C06_REG(a_t_bool, "types_bool", TY, KP),
        C06_REG(a_t_enum, "types_enum_signed_char", TY, KP),
        C06_REG(a_t_float, "types_float", TY, KP),
        C06_REG(a_t_double, "types_double", TY, KP),
        C06_REG(a_t_float_nan, "types_float_nan", TY, KP),
        C06_REG(a_t_double_nan, "types_double_nan", TY, KP),
        C06_REG(a_class_unary, "class_result_unary_predicates", D_PRED, KP),
        C06_REG(a_class_binary, "class_result_binary_predicates", D_EQV | D_B | D_VAL | D_LEN4, KP),
        C06_REG(a_class_compare, "class_result_comparators", D_CMP | D_B | D_VAL | D_LEN4, KP),
    };
    return t;
}

} // namespace c06

void vf_run(vf::Ctx& c) { c06::run_table(c); }
std::string vf_replay(std::string const& sub, std::string const& cs) { return c06::replay_table(sub, cs); }
