// C06 (part 7/8) — element-type and result-type dependent behaviour of etl/algorithm.hpp.
// Engine E2 (exhaustive small-scope enumeration) + seeded random longer inputs.  See C06_common.cpp.
//
// Algorithms that an implementation may special-case by element type (memcmp / memmove / memset / memchr style fast
//     paths: equal, mismatch, lexicographical_compare, find, count, search, copy / move / fill families, remove, replace,
//     reverse, rotate, unique, min/max_element, sort, binary searches, merge, includes ...) run on RAW POINTERS into
//     exact-size heap blocks and through etl::array, for element types signed char, unsigned char, char, bool (this TU),
//     a scoped enum over signed char, float and double (C06_types2.cpp), with negative values, bytes >= 0x80, -0.0 / +0.0 and (for the
//     equality-based algorithms) NaN; oracle std:: on a std::vector of the same type.  Also etl::array's relational
//     operators against std::array.
#include "C06_typed_impl.cpp"

namespace c06 {
namespace {

template <typename K>
auto a_t_schar(Case const& c) -> std::string { return typed<signed char, false>(c); }
template <typename K>
auto a_t_uchar(Case const& c) -> std::string { return typed<unsigned char, false>(c); }
template <typename K>
auto a_t_char(Case const& c) -> std::string { return typed<char, false>(c); }
template <typename K>
auto a_t_bool(Case const& c) -> std::string { return typed<bool, false>(c); }

} // namespace

auto table() -> std::vector<Entry> const&
{
    constexpr unsigned TY = D_B | D_VAL | D_LEN4;
    static std::vector<Entry> const t = {
        C06_REG(a_t_schar, "types_signed_char", TY, KP),
        C06_REG(a_t_uchar, "types_unsigned_char", TY, KP),
        C06_REG(a_t_char, "types_char", TY, KP),
        C06_REG(a_t_bool, "types_bool", TY, KP),
    };
    return t;
}

} // namespace c06

void vf_run(vf::Ctx& c) { c06::run_table(c); }
std::string vf_replay(std::string const& sub, std::string const& cs) { return c06::replay_table(sub, cs); }
