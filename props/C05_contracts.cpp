// C05 — contract checks stop every precondition violation before it does damage.
// Engine E5: a catalogue of operations with documented preconditions x object states x violating arguments at and
// beyond the boundary.  Each violating (entry, state, argument) runs in a forked child of this ASan build; the
// assertion handler records file:line, checks that the object still equals its snapshot, and _exits 77 (unmodified)
// or 78 (modified).  Parent verdicts: violation if the call returned, a sanitizer report / signal came first, the
// object was modified, or the reported file is not one of the operation's precondition files.
// Complement: the same entries with valid arguments run in-process; any handler invocation fails the case.
#include <etl/array.hpp>
#include <etl/bit.hpp>
#include <etl/bitset.hpp>
#include <etl/chrono.hpp>
#include <etl/cstring.hpp>
#include <etl/cwchar.hpp>
#include <etl/expected.hpp>
#include <etl/inplace_vector.hpp>
#include <etl/linalg.hpp>
#include <etl/mdspan.hpp>
#include <etl/numeric.hpp>
#include <etl/optional.hpp>
#include <etl/set.hpp>
#include <etl/span.hpp>
#include <etl/string.hpp>
#include <etl/string_view.hpp>
#include <etl/variant.hpp>
#include <etl/vector.hpp>

#include "tracked.hpp"
#include "verif.hpp"

#include <cctype>
#include <climits>
#include <fstream>
#include <map>
#include <limits>
#include <sys/mman.h>
#include <sys/wait.h>

namespace {

using u32 = std::uint32_t;
namespace lt = vf::lt;

struct Shared {
    int fired;
    int modified;
    int line;
    char file[256];
    char expr[256];
};
Shared* g_shm = nullptr;
bool g_in_child = false;
std::function<bool()> g_unmodified; // armed by the entry just before the violating call

void child_hook(vf::ContractHit const& h)
{
    if (!g_in_child) { return; } // in-process (valid mode): fall through to the engine's default = failure of the case
    g_shm->fired = 1;
    g_shm->line  = h.line;
    std::snprintf(g_shm->file, sizeof g_shm->file, "%s", h.file ? h.file : "?");
    std::snprintf(g_shm->expr, sizeof g_shm->expr, "%s", h.expr ? h.expr : "?");
    bool same        = g_unmodified ? g_unmodified() : true;
    g_shm->modified  = same ? 0 : 1;
    _exit(same ? 77 : 78);
}

// violating magnitude: base + k for small args, and the classic wrap-around values for the special args
auto beyond(std::size_t base, u32 arg) -> std::size_t
{
    switch (arg) {
    case 0xFFFFFFFFU: return SIZE_MAX;
    case 0xFFFFFFFEU: return (SIZE_MAX >> 1) + 1; // 2^63: negative after a cast to ptrdiff_t
    case 0x80000000U: return SIZE_MAX >> 1;        // PTRDIFF_MAX
    case 0x7FFFFFFFU: return SIZE_MAX - 1;
    case 0x7FFFFFF1U: return SIZE_MAX - 2; // base + value wraps to a small number
    case 0x7FFFFFF2U: return SIZE_MAX - 3;
    case 0x7FFFFFF3U: return SIZE_MAX - base + 1 > base ? SIZE_MAX - base + 1 : SIZE_MAX - 1; // base + value == 0 (mod 2^64)
    case 0x7FFFFFF4U: return SIZE_MAX - 7;
    default: return base + arg;
    }
}
u32 const violating_args[] = {0, 1, 2, 3, 5, 8, 64, 255, 256, 1000, 65535, 65536, 0x7FFFFFF1U, 0x7FFFFFF2U, 0x7FFFFFF3U, 0x7FFFFFF4U, 0x7FFFFFFFU, 0x80000000U, 0xFFFFFFFEU, 0xFFFFFFFFU};

struct Entry {
    char const* name;
    char const* files; // '|'-separated substrings; the handler's file must contain one of them
    int nstates;
    // returns false if (state, mode) is not applicable; in violate mode a `true` return means the call RETURNED
    bool (*fn)(int state, u32 arg, bool violate);
};

template <typename V>
void fill(V& v, int n)
{
    for (int i = 0; i < n; ++i) { v.push_back(typename V::value_type(i + 1)); }
}
template <typename V>
auto snap(V const& v) -> std::vector<int>
{
    std::vector<int> s;
    for (auto const& x : v) { s.push_back(lt::val(x)); }
    return s;
}
#define ARM_SEQ(obj)                                                                                                   \
    auto snapshot_ = snap(obj);                                                                                        \
    g_unmodified   = [&] { return snap(obj) == snapshot_; }

// ---------------------------------------------------------------- static_vector<T,4>
template <typename T>
struct SVE {
    using V = etl::static_vector<T, 4>;
    static bool index(int s, u32 a, bool bad)
    {
        V v;
        fill(v, s);
        ARM_SEQ(v);
        if (bad) {
            (void)v[beyond(static_cast<std::size_t>(s), a)];
            return true;
        }
        if (s == 0) { return false; }
        (void)v[a % static_cast<u32>(s)];
        return true;
    }
    static bool index_const(int s, u32 a, bool bad)
    {
        V v;
        fill(v, s);
        V const& c = v;
        ARM_SEQ(v);
        if (bad) {
            (void)c[beyond(static_cast<std::size_t>(s), a)];
            return true;
        }
        if (s == 0) { return false; }
        (void)c[a % static_cast<u32>(s)];
        return true;
    }
    static bool front(int s, u32 a, bool bad)
    {
        if (bad != (s == 0)) { return false; }
        V v;
        fill(v, s);
        V const& c = v;
        ARM_SEQ(v);
        if (a % 2 == 0) {
            (void)v.front();
        } else {
            (void)c.front();
        }
        return true;
    }
    static bool back(int s, u32 a, bool bad)
    {
        if (bad != (s == 0)) { return false; }
        V v;
        fill(v, s);
        V const& c = v;
        ARM_SEQ(v);
        if (a % 2 == 0) {
            (void)v.back();
        } else {
            (void)c.back();
        }
        return true;
    }
    static bool move_insert(int s, u32 a, bool bad)
    {
        V v;
        fill(v, s);
        ARM_SEQ(v);
        T src[12]{};
        std::size_t room = 4 - static_cast<std::size_t>(s);
        if (bad) {
            auto n = std::min<std::size_t>(room + 1 + a % 7, 12);
            v.move_insert(v.begin(), src, src + n);
            return true;
        }
        v.move_insert(v.begin() + (a % static_cast<u32>(s + 1)), src, src + a % (room + 1));
        return true;
    }
    static bool pop_back(int s, u32, bool bad)
    {
        if (bad != (s == 0)) { return false; }
        V v;
        fill(v, s);
        ARM_SEQ(v);
        v.pop_back();
        return true;
    }
    static bool push_back(int s, u32, bool bad)
    {
        if (bad != (s == 4)) { return false; }
        V v;
        fill(v, s);
        ARM_SEQ(v);
        T t(9);
        v.push_back(t);
        return true;
    }
    static bool emplace_back(int s, u32, bool bad)
    {
        if (bad != (s == 4)) { return false; }
        V v;
        fill(v, s);
        ARM_SEQ(v);
        v.emplace_back(9);
        return true;
    }
    static bool insert_one(int s, u32 a, bool bad)
    {
        if (bad != (s == 4)) { return false; }
        V v;
        fill(v, s);
        ARM_SEQ(v);
        T t(9);
        switch (a % 3) {
        case 0: v.insert(v.begin() + (a % static_cast<u32>(s + 1)), t); break;
        case 1: v.insert(v.begin() + (a % static_cast<u32>(s + 1)), T(9)); break;
        default: v.emplace(v.begin() + (a % static_cast<u32>(s + 1)), 9); break;
        }
        return true;
    }
    static bool insert_n(int s, u32 a, bool bad)
    {
        V v;
        fill(v, s);
        ARM_SEQ(v);
        T t(9);
        std::size_t room = 4 - static_cast<std::size_t>(s);
        if (bad) {
            auto n = beyond(room + 1, a);
            if (n > 100000 && n < SIZE_MAX / 2) { n = 100000; } // keep a (wrongly) running loop short
            v.insert(v.begin(), n, t);
            return true;
        }
        v.insert(v.begin() + (a % static_cast<u32>(s + 1)), a % (room + 1), t);
        return true;
    }
    static bool insert_range(int s, u32 a, bool bad)
    {
        V v;
        fill(v, s);
        ARM_SEQ(v);
        T src[12]{};
        std::size_t room = 4 - static_cast<std::size_t>(s);
        T const* f       = src;
        if (bad) {
            auto n = std::min<std::size_t>(room + 1 + a % 7, 12);
            v.insert(v.begin(), f, f + n);
            return true;
        }
        v.insert(v.begin() + (a % static_cast<u32>(s + 1)), f, f + a % (room + 1));
        return true;
    }
    static bool insert_pos_past_end(int s, u32, bool bad)
    {
        // position end()+1 is still inside the inline storage when size < capacity; the violation is visible from the argument
        if (!bad || s >= 3) { return false; }
        V v;
        fill(v, s);
        ARM_SEQ(v);
        T t(9);
        v.insert(v.end() + 1, t);
        return true;
    }
    static bool erase_end(int s, u32, bool bad)
    {
        V v;
        fill(v, s);
        ARM_SEQ(v);
        if (bad) {
            v.erase(v.end());
            return true;
        }
        if (s == 0) { return false; }
        v.erase(v.begin());
        return true;
    }
    static bool erase_reversed(int s, u32 a, bool bad)
    {
        if (s < 1) { return false; }
        V v;
        fill(v, s);
        ARM_SEQ(v);
        auto i = static_cast<std::ptrdiff_t>(a % static_cast<u32>(s));
        if (bad) {
            v.erase(v.begin() + i + 1, v.begin() + i); // first > last
            return true;
        }
        v.erase(v.begin() + i, v.begin() + i + 1);
        return true;
    }
    static bool resize_val(int s, u32 a, bool bad)
    {
        V v;
        fill(v, s);
        ARM_SEQ(v);
        T t(9);
        if (bad) {
            v.resize(beyond(5, a), t);
            return true;
        }
        v.resize(a % 5, t);
        return true;
    }
    static bool resize(int s, u32 a, bool bad)
    {
        V v;
        fill(v, s);
        ARM_SEQ(v);
        if (bad) {
            v.resize(beyond(5, a));
            return true;
        }
        v.resize(a % 5);
        return true;
    }
    static bool assign_n(int s, u32 a, bool bad)
    {
        V v;
        fill(v, s);
        ARM_SEQ(v);
        T t(9);
        if (bad) {
            v.assign(beyond(5, a), t);
            return true;
        }
        v.assign(a % 5, t);
        return true;
    }
    static bool assign_range(int s, u32 a, bool bad)
    {
        V v;
        fill(v, s);
        ARM_SEQ(v);
        T src[12]{};
        T const* f = src;
        if (bad) {
            if (a % 2 == 0) {
                v.assign(f, f + std::min<std::size_t>(5 + a % 7, 12)); // too long
            } else {
                v.assign(f + 1 + a % 3, f); // reversed
            }
            return true;
        }
        v.assign(f, f + a % 5);
        return true;
    }
    static bool ctor_n(int s, u32 a, bool bad)
    {
        if (s != 0) { return false; }
        g_unmodified = [] { return true; };
        if (bad) {
            if (a % 2 == 0) {
                V v(beyond(5, a));
                (void)v;
            } else {
                T t(9);
                V v(beyond(5, a), t);
                (void)v;
            }
            return true;
        }
        V v(a % 5);
        T t(9);
        V w(a % 5, t);
        return v.size() == w.size();
    }
    static bool ctor_range(int s, u32 a, bool bad)
    {
        if (s != 0) { return false; }
        g_unmodified = [] { return true; };
        T src[12]{};
        T const* f = src;
        if (bad) {
            if (a % 2 == 0) {
                V v(f, f + std::min<std::size_t>(5 + a % 7, 12));
                (void)v;
            } else {
                V v(f + 1 + a % 3, f);
                (void)v;
            }
            return true;
        }
        V v(f, f + a % 5);
        return v.size() == a % 5;
    }
};

// ---------------------------------------------------------------- inplace_vector<T,4>
template <typename T>
struct IVE {
    using V = etl::inplace_vector<T, 4>;
    static void fillv(V& v, int n)
    {
        for (int i = 0; i < n; ++i) { v.unchecked_push_back(T(i + 1)); }
    }
    static bool index(int s, u32 a, bool bad)
    {
        V v{};
        fillv(v, s);
        ARM_SEQ(v);
        if (bad) {
            (void)v[beyond(static_cast<std::size_t>(s), a)];
            return true;
        }
        if (s == 0) { return false; }
        (void)v[a % static_cast<u32>(s)];
        return true;
    }
    static bool index_const(int s, u32 a, bool bad)
    {
        V v{};
        fillv(v, s);
        V const& c = v;
        ARM_SEQ(v);
        if (bad) {
            (void)c[beyond(static_cast<std::size_t>(s), a)];
            return true;
        }
        if (s == 0) { return false; }
        (void)c[a % static_cast<u32>(s)];
        return true;
    }
    static bool front_back(int s, u32 a, bool bad)
    {
        if (bad != (s == 0)) { return false; }
        V v{};
        fillv(v, s);
        V const& c = v;
        ARM_SEQ(v);
        switch (a % 4) {
        case 0: (void)v.front(); break;
        case 1: (void)v.back(); break;
        case 2: (void)c.front(); break;
        default: (void)c.back(); break;
        }
        return true;
    }
    static bool pop_back(int s, u32, bool bad)
    {
        if (bad != (s == 0)) { return false; }
        V v{};
        fillv(v, s);
        ARM_SEQ(v);
        v.pop_back();
        return true;
    }
    static bool unchecked_push(int s, u32 a, bool bad)
    {
        if (bad != (s == 4)) { return false; }
        V v{};
        fillv(v, s);
        ARM_SEQ(v);
        T t(9);
        switch (a % 3) {
        case 0: v.unchecked_push_back(t); break;
        case 1: v.unchecked_push_back(T(9)); break;
        default: v.unchecked_emplace_back(9); break;
        }
        return true;
    }
};

// ---------------------------------------------------------------- inplace_string<Cap>
template <std::size_t Cap>
struct STRE {
    using S = etl::inplace_string<Cap>;
    // state -> size: 0, 1, Cap/2, Cap-1, Cap
    static auto size_of(int s) -> std::size_t
    {
        std::size_t const t[] = {0, 1, Cap / 2, Cap - 1, Cap};
        return t[s];
    }
    static auto make(int s) -> S { return S(size_of(s), 'x'); }
    static auto str(S const& x) -> std::string { return std::string(x.data(), x.size()); }
#define ARM_STR(obj)                                                                                                   \
    auto snapshot_ = str(obj);                                                                                         \
    g_unmodified   = [&] { return str(obj) == snapshot_ && (obj).data()[(obj).size()] == '\0'; }
    static bool ctor_ptr_len(int s, u32 a, bool bad)
    {
        if (s != 0) { return false; }
        g_unmodified = [] { return true; };
        std::vector<char> buf(Cap + 12, 'y');
        if (bad) {
            S x(buf.data(), std::min<std::size_t>(Cap + 1 + a % 8, buf.size()));
            (void)x;
            return true;
        }
        S x(buf.data(), a % (Cap + 1));
        return x.size() == a % (Cap + 1);
    }
    static bool ctor_count_ch(int s, u32 a, bool bad)
    {
        if (s != 0) { return false; }
        g_unmodified = [] { return true; };
        if (bad) {
            S x(beyond(Cap + 1, a), 'z');
            (void)x;
            return true;
        }
        S x(a % (Cap + 1), 'z');
        return x.size() == a % (Cap + 1);
    }
    static bool assign_count(int s, u32 a, bool bad)
    {
        auto x = make(s);
        ARM_STR(x);
        if (bad) {
            x.assign(beyond(Cap + 1, a), 'z');
            return true;
        }
        x.assign(a % (Cap + 1), 'z');
        return true;
    }
    static bool assign_ptr_count(int s, u32 a, bool bad)
    {
        auto x = make(s);
        ARM_STR(x);
        std::vector<char> buf(Cap + 12, 'y');
        if (bad) {
            x.assign(buf.data(), std::min<std::size_t>(Cap + 1 + a % 8, buf.size()));
            return true;
        }
        x.assign(buf.data(), a % (Cap + 1));
        return true;
    }
    static bool assign_cstr(int s, u32 a, bool bad)
    {
        auto x = make(s);
        ARM_STR(x);
        std::vector<char> buf(Cap + 12, 'y');
        if (bad) {
            buf[std::min<std::size_t>(Cap + 1 + a % 8, buf.size() - 1)] = '\0';
            x = buf.data();
            return true;
        }
        buf[a % (Cap + 1)] = '\0';
        x                  = buf.data();
        return true;
    }
    static bool front_back(int s, u32 a, bool bad)
    {
        if (bad != (s == 0)) { return false; }
        auto x     = make(s);
        S const& c = x;
        ARM_STR(x);
        switch (a % 4) {
        case 0: (void)x.front(); break;
        case 1: (void)x.back(); break;
        case 2: (void)c.front(); break;
        default: (void)c.back(); break;
        }
        return true;
    }
    static bool pop_back(int s, u32, bool bad)
    {
        if (bad != (s == 0)) { return false; }
        auto x = make(s);
        ARM_STR(x);
        x.pop_back();
        return true;
    }
    static bool push_back(int s, u32, bool bad)
    {
        if (bad != (size_of(s) == Cap)) { return false; }
        auto x = make(s);
        ARM_STR(x);
        x.push_back('q');
        return true;
    }
    static bool index(int s, u32 a, bool bad)
    {
        auto x     = make(s);
        S const& c = x;
        ARM_STR(x);
        // operator[] admits pos == size() (the terminator), like std::string
        if (bad) {
            auto i = beyond(size_of(s) + 1, a);
            if (a % 2 == 0) {
                (void)x[i];
            } else {
                (void)c[i];
            }
            return true;
        }
        (void)x[a % (size_of(s) + 1)];
        (void)c[a % (size_of(s) + 1)];
        return true;
    }
    static bool erase_range(int s, u32 a, bool bad)
    {
        // erase(first, last): [first, last) must be a range inside [begin(), end()].  Violations: last beyond end() from
        // every start (also a start > 0 with last beyond end() by no more than start), first beyond end(), first > last.
        auto x = make(s);
        ARM_STR(x);
        auto const n = size_of(s);
        if (bad) {
            auto const i   = static_cast<std::size_t>(a % (n + 1));
            auto const far = static_cast<std::size_t>(Cap + 1 - n); // begin() + Cap + 1 is one past the storage
            switch ((a / 16) % 4) {
            case 0:
            case 1: {
                auto const j = n + 1 + static_cast<std::size_t>((a / 64) % far);
                x.erase(x.begin() + static_cast<std::ptrdiff_t>(i), x.begin() + static_cast<std::ptrdiff_t>(j));
                return true;
            }
            case 2: {
                if (i == 0) { return false; }
                x.erase(x.begin() + static_cast<std::ptrdiff_t>(i), x.begin() + static_cast<std::ptrdiff_t>((a / 64) % i)); // first > last
                return true;
            }
            default: x.erase(x.end()); return true; // erase(position) with position == end()
            }
        }
        auto const i = static_cast<std::size_t>(a % (n + 1));
        auto const j = i + static_cast<std::size_t>((a / 16) % (n - i + 1));
        x.erase(x.begin() + static_cast<std::ptrdiff_t>(i), x.begin() + static_cast<std::ptrdiff_t>(j));
        if (x.size() > 0) { x.erase(x.begin() + static_cast<std::ptrdiff_t>((a / 64) % x.size())); }
        return true;
    }
    static bool from_view(int s, u32 a, bool bad)
    {
        // growing past the capacity through a view, an iterator range or a larger string: the source is longer than Cap
        auto x = make(s);
        ARM_STR(x);
        std::vector<char> buf(Cap + 12, 'y');
        auto const len = bad ? std::min<std::size_t>(Cap + 1 + (a / 8) % 8, buf.size()) : (a / 8) % (Cap + 1);
        etl::string_view const view(buf.data(), len);
        etl::inplace_string<Cap + 12> const bigger(buf.data(), len);
        switch (a % 8) {
        case 0: {
            S y(view);
            (void)y;
            break;
        }
        case 1: {
            S y(view, 0, len);
            (void)y;
            break;
        }
        case 2: x.assign(view); break;
        case 3: x = view; break;
        case 4: x.assign(view, 0, len); break;
        case 5: {
            S y(buf.data(), buf.data() + len);
            (void)y;
            break;
        }
        case 6: x.assign(buf.data(), buf.data() + len); break;
        default: {
            S y(bigger);
            (void)y;
            break;
        }
        }
        return true;
    }
    static bool replace_pos(int s, u32 a, bool bad)
    {
        // only the violating direction: the documented preconditions (pos < size(), pos + count < size()) also reject
        // calls std::string accepts; that is C04's question.  pos > size() violates under every reading.
        if (!bad) { return false; }
        auto x = make(s);
        S other(3, 'r');
        ARM_STR(x);
        auto pos = beyond(size_of(s) + 1, a);
        switch ((a / 3) % 4) {
        case 0: x.replace(pos, 1, other); break;
        case 1: x.replace(pos, 1, "rr", 2); break; // (replace(pos,count,cstr) needs etl::strlen declared first: include-order dependent, left out)
        case 2: x.replace(pos, 1, "rrr", 2); break;
        default: x.replace(pos, 1, other, 0, 1); break;
        }
        return true;
    }
    static bool replace_pos2(int s, u32 a, bool bad)
    {
        if (!bad || s == 0) { return false; }
        auto x = make(s);
        S other(3, 'r');
        ARM_STR(x);
        x.replace(0, 1, other, beyond(4, a), 1); // pos2 > str.size()
        return true;
    }
#undef ARM_STR
};

// ---------------------------------------------------------------- string_view / span
struct SVW {
    static auto size_of(int s) -> std::size_t { return static_cast<std::size_t>(s) * 2; } // 0,2,4,6
    static bool run(int which, int s, u32 a, bool bad)
    {
        std::vector<char> buf(size_of(s) + 1, 'k');
        etl::string_view v(buf.data(), size_of(s));
        auto n       = size_of(s);
        g_unmodified = [&] { return v.data() == buf.data() && v.size() == n; };
        char dest[16];
        switch (which) {
        case 0: // operator[]
            if (bad) {
                (void)v[beyond(n, a)];
                return true;
            }
            if (n == 0) { return false; }
            (void)v[a % n];
            return true;
        case 1: // front/back
            if (bad != (n == 0)) { return false; }
            if (a % 2 == 0) {
                (void)v.front();
            } else {
                (void)v.back();
            }
            return true;
        case 2: // remove_prefix
            v.remove_prefix(bad ? beyond(n + 1, a) : a % (n + 1));
            return true;
        case 3: // remove_suffix
            v.remove_suffix(bad ? beyond(n + 1, a) : a % (n + 1));
            return true;
        case 4: // substr
            (void)v.substr(bad ? beyond(n + 1, a) : a % (n + 1), a % 3);
            return true;
        case 6: { // valid boundary calls of members WITHOUT a catalogued precondition: pos == size(), empty needles
            if (bad) { return false; }
            etl::string_view const empty{};
            etl::string_view const other("kk", 2);
            auto const pos = a % 2 == 0 ? n : a % (n + 1);
            (void)v.compare(pos, a % 4, other);
            (void)v.compare(pos, a % 4, other, 2, 0);
            (void)v.compare(pos, a % 4, "kk");
            (void)v.compare(pos, a % 4, "kk", 1);
            (void)v.compare(pos, etl::string_view::npos, empty);
            (void)v.starts_with(empty);
            (void)v.ends_with(empty);
            (void)v.ends_with("");
            (void)v.starts_with("");
            (void)v.ends_with(other);
            (void)v.contains(empty);
            (void)v.find(other, pos);
            (void)v.find(empty, pos);
            (void)v.rfind(other, pos);
            (void)v.rfind(empty, n);
            (void)v.find_first_of(other, pos);
            (void)v.find_last_of(empty, pos);
            (void)v.find_first_not_of('k', pos);
            (void)v.find_last_not_of('k', pos);
            (void)v.substr(n);
            (void)v.substr(n, 5);
            (void)(v == other);
            (void)(v < empty);
            return true;
        }
        default: // copy
            (void)v.copy(dest, a % 5, bad ? beyond(n + 1, a) : a % (n + 1));
            return true;
        }
    }
    template <int W>
    static bool f(int s, u32 a, bool bad)
    {
        return run(W, s, a, bad);
    }
};
struct SPN {
    static auto size_of(int s) -> std::size_t { return static_cast<std::size_t>(s) * 2; }
    static bool run(int which, int s, u32 a, bool bad)
    {
        std::vector<int> buf(size_of(s) + 1, 3);
        etl::span<int> v(buf.data(), size_of(s));
        auto n       = size_of(s);
        g_unmodified = [&] { return v.data() == buf.data() && v.size() == n; };
        switch (which) {
        case 0:
            if (bad) {
                (void)v[beyond(n, a)];
                return true;
            }
            if (n == 0) { return false; }
            (void)v[a % n];
            return true;
        case 1:
            if (bad != (n == 0)) { return false; }
            if (a % 2 == 0) {
                (void)v.front();
            } else {
                (void)v.back();
            }
            return true;
        case 2: (void)v.first(bad ? beyond(n + 1, a) : a % (n + 1)); return true;
        case 3: (void)v.last(bad ? beyond(n + 1, a) : a % (n + 1)); return true;
        case 4: (void)v.subspan(bad ? beyond(n + 1, a) : a % (n + 1)); return true;
        default: {
            // subspan(offset, count) with count > size - offset
            auto off = a % (n + 1);
            if (bad) {
                auto cnt = beyond((n - off) + 1, a / 7 % 2 == 0 ? a : (a / 7) % 5);
                if (a >= 0x7FFFFFF0U) { cnt = beyond((n - off) + 1, a); }
                if (cnt == etl::dynamic_extent) { cnt = SIZE_MAX - 1; } // dynamic_extent means "the rest": valid
                (void)v.subspan(off, cnt);
                return true;
            }
            (void)v.subspan(off, (a / 7) % (n - off + 1));
            return true;
        }
        }
    }
    template <int W>
    static bool f(int s, u32 a, bool bad)
    {
        return run(W, s, a, bad);
    }
};

// ---------------------------------------------------------------- optional / expected / variant
template <typename T>
bool opt_deref(int s, u32 a, bool bad)
{
    if (bad != (s == 0)) { return false; }
    etl::optional<T> o;
    if (s != 0) { o.emplace(5); }
    etl::optional<T> const& c = o;
    g_unmodified              = [&] { return o.has_value() == (s != 0); };
    switch (a % 4) {
    case 0: (void)*o; break;
    case 1: (void)*c; break;
    case 2: (void)*std::move(o); break;
    default: (void)*std::move(c); break;
    }
    return true;
}
bool optref_deref(int s, u32, bool bad)
{
    if (bad != (s == 0)) { return false; }
    int x = 5;
    etl::optional<int&> o;
    if (s != 0) { o = etl::optional<int&>(x); }
    g_unmodified = [&] { return o.has_value() == (s != 0); };
    (void)*o;
    return true;
}
template <typename T>
bool exp_access(int s, u32 a, bool bad)
{
    // s == 0: holds error, s == 1: holds value.  a%2 selects operator* / error()
    bool want_value = (a % 2 == 0);
    bool holds      = (s == 1);
    if (bad == (want_value == holds)) { return false; }
    etl::expected<T, int> e = holds ? etl::expected<T, int>(etl::in_place, 5) : etl::expected<T, int>(etl::unexpect, 7);
    auto const& c           = e;
    g_unmodified            = [&] { return e.has_value() == holds; };
    if (want_value) {
        switch ((a / 2) % 4) {
        case 0: (void)*e; break;
        case 1: (void)*c; break;
        case 2: (void)*std::move(e); break;
        default: (void)*std::move(c); break;
        }
    } else {
        switch ((a / 2) % 4) {
        case 0: (void)e.error(); break;
        case 1: (void)c.error(); break;
        case 2: (void)std::move(e).error(); break;
        default: (void)std::move(c).error(); break;
        }
    }
    return true;
}
template <typename T>
bool var_access(int s, u32 a, bool bad)
{
    // s = active index (0..2); a%3 = index asked for
    using V = etl::variant<int, T, char>;
    V v     = s == 0 ? V(etl::in_place_index<0>, 1) : s == 1 ? V(etl::in_place_index<1>, 2) : V(etl::in_place_index<2>, 'c');
    auto want = static_cast<int>(a % 3);
    if (bad == (want == s)) { return false; }
    V const& c   = v;
    g_unmodified = [&] { return static_cast<int>(v.index()) == s; };
    auto form    = (a / 3) % 8;
    auto go      = [&]<std::size_t I>(etl::index_constant<I> ic) {
        switch (form) {
        case 0: (void)v[ic]; break;
        case 1: (void)c[ic]; break;
        case 2: (void)etl::unchecked_get<I>(v); break;
        case 3: (void)etl::unchecked_get<I>(c); break;
        case 4: (void)std::move(v)[ic]; break;
        case 5: (void)std::move(c)[ic]; break;
        case 6: (void)etl::unchecked_get<I>(std::move(v)); break;
        default: (void)etl::unchecked_get<I>(std::move(c)); break;
        }
    };
    if (want == 0) {
        go(etl::index_v<0>);
    } else if (want == 1) {
        go(etl::index_v<1>);
    } else {
        go(etl::index_v<2>);
    }
    return true;
}

// ---------------------------------------------------------------- bitset / bit functions / numeric / chrono / mdspan / cstring
template <std::size_t N>
bool bitset_pos(int s, u32 a, bool bad)
{
    etl::bitset<N> b;
    if (s == 1) { b.set(); }
    if (s == 2) { b.set(0); }
    auto before              = b;
    etl::bitset<N> const& cb = b;
    g_unmodified             = [&] { return b == before; };
    auto pos                 = bad ? beyond(N, a) : a % N;
    switch ((a / 3) % 6) {
    case 0: b.set(pos); break;
    case 1: b.reset(pos); break;
    case 2: b.flip(pos); break;
    case 3: (void)b.test(pos); break;
    case 4: (void)cb[pos]; break;
    default: (void)b[pos]; break;
    }
    return true;
}
template <std::size_t N, typename W>
bool basic_bitset_pos(int s, u32 a, bool bad)
{
    etl::basic_bitset<N, W> b;
    if (s == 1) { b.set(); }
    auto before       = b;
    auto const& cb    = b;
    g_unmodified      = [&] { return b == before; };
    auto pos          = bad ? beyond(N, a) : a % N;
    switch ((a / 3) % 6) {
    case 0: b.unchecked_set(pos); break;
    case 1: b.unchecked_reset(pos); break;
    case 2: b.unchecked_flip(pos); break;
    case 3: (void)b.unchecked_test(pos); break;
    case 4: (void)cb[pos]; break;
    default: (void)b[pos]; break;
    }
    return true;
}
template <typename U>
bool bit_fn(int s, u32 a, bool bad)
{
    g_unmodified    = [] { return true; };
    constexpr int d = std::numeric_limits<U>::digits;
    U word          = s == 0 ? U(0) : static_cast<U>(~U(0));
    U pos           = bad ? static_cast<U>(std::min<std::size_t>(beyond(static_cast<std::size_t>(d), a % 1000), std::numeric_limits<U>::max())) : static_cast<U>(a % static_cast<u32>(d));
    if (bad && static_cast<int>(pos) < d) { return false; } // (8-bit wrap-around: not a violating argument)
    switch ((a / 5) % 5) {
    case 0: (void)etl::set_bit(word, pos); break;
    case 1: (void)etl::reset_bit(word, pos); break;
    case 2: (void)etl::flip_bit(word, pos); break;
    case 3: (void)etl::test_bit(word, pos); break;
    default: (void)etl::set_bit(word, pos, true); break;
    }
    return true;
}
template <typename I>
bool div_sat_zero(int s, u32 a, bool bad)
{
    g_unmodified = [] { return true; };
    I x          = s == 0 ? I(0) : s == 1 ? std::numeric_limits<I>::min() : std::numeric_limits<I>::max();
    I y          = bad ? I(0) : static_cast<I>((a % 7) + 1);
    (void)etl::div_sat(x, y);
    return true;
}
bool chrono_day_month(int s, u32 a, bool bad)
{
    g_unmodified = [] { return true; };
    unsigned v   = bad ? static_cast<unsigned>(std::min<std::size_t>(beyond(255, a), UINT_MAX)) : a % 255;
    if (s == 0) {
        (void)etl::chrono::day{v};
    } else {
        (void)etl::chrono::month{v};
    }
    return true;
}
bool mapping_stride(int s, u32 a, bool bad)
{
    g_unmodified = [] { return true; };
    using E      = etl::extents<int, 2, etl::dynamic_extent, 3>;
    E e{4};
    std::size_t r = bad ? beyond(3, a) : a % 3;
    if (s == 0) {
        etl::layout_left::mapping<E> m{e};
        (void)m.stride(r);
    } else if (s == 1) {
        etl::layout_right::mapping<E> m{e};
        (void)m.stride(r);
    } else {
        etl::layout_stride::mapping<E> m{e, etl::array<int, 3>{12, 3, 1}};
        (void)m.stride(r);
    }
    return true;
}
bool cstr_null(int s, u32 a, bool bad)
{
    g_unmodified = [] { return true; };
    char src[8]  = "abc";
    char dst[8]  = {0};
    wchar_t wsrc[8] = L"abc";
    wchar_t wdst[8] = {0};
    char* null   = nullptr;
    wchar_t* wnull = nullptr;
    bool first   = (a % 2 == 0); // which argument is null
    switch (s) {
    case 0: (void)etl::strchr(bad ? static_cast<char const*>(null) : static_cast<char const*>(src), 'b'); break;
    case 1: (void)etl::strchr(bad ? null : src, 'b'); break;
    case 2: (void)etl::strcpy(bad && first ? null : dst, bad && !first ? null : src); break;
    case 3: (void)etl::strncpy(bad && first ? null : dst, bad && !first ? null : src, 3); break;
    case 4: (void)etl::memmove(bad && first ? null : dst, bad && !first ? null : src, 3); break;
    case 5: (void)etl::wcscpy(bad && first ? wnull : wdst, bad && !first ? wnull : wsrc); break;
    default: (void)etl::wcsncpy(bad && first ? wnull : wdst, bad && !first ? wnull : wsrc, 3); break;
    }
    return true;
}
bool to_string_small(int s, u32 a, bool bad)
{
    g_unmodified = [] { return true; };
    // Capacity 3: values with more than 3 characters do not fit
    // valid mode stays at <= Capacity-1 characters: whether exactly Capacity characters "fit" is C10's question
    // (the implementation formats into char[Capacity] including a terminator), not a contract question
    long long v = bad ? 1000LL + static_cast<long long>(a % 100000) : static_cast<long long>(a % 100);
    if (bad && s == 1) { v = -100 - static_cast<long long>(a % 1000); }
    if (!bad && s == 1) { v = -static_cast<long long>(a % 10); }
    if (s == 2) {
        (void)etl::to_string<3>(static_cast<int>(v));
    } else {
        (void)etl::to_string<3>(v);
    }
    return true;
}
bool static_set_ctor(int s, u32 a, bool bad)
{
    if (s != 0) { return false; }
    g_unmodified = [] { return true; };
    int src[12]  = {1, 2, 3, 4, 5, 6, 7, 8, 9, 10, 11, 12};
    int const* f = src;
    if (bad) {
        if (a % 2 == 0) {
            etl::static_set<int, 4> x(f, f + 5 + a % 7);
            (void)x;
        } else {
            etl::static_set<int, 4> x(f + 1 + a % 3, f);
            (void)x;
        }
        return true;
    }
    etl::static_set<int, 4> x(f, f + a % 5);
    return x.size() == a % 5;
}

bool bitset_string_ctor(int s, u32 a, bool bad)
{
    g_unmodified = [] { return true; };
    char buf[32];
    for (auto& c : buf) { c = (a & 1U) ? '1' : '0'; }
    std::size_t len = bad ? 9 + a % 20 : a % 9;
    if (s == 0) {
        etl::bitset<8> b(etl::string_view(buf, len));
        (void)b;
    } else {
        // pos / n form: effective length = min(n, size - pos)
        std::size_t pos = a % 3;
        etl::bitset<8> b(etl::string_view(buf, std::min<std::size_t>(len + pos, 32)), pos, bad ? etl::string_view::npos : len);
        (void)b;
    }
    return true;
}
bool zero_capacity_vector(int s, u32 a, bool bad)
{
    if (!bad) { return false; } // every growing / shrinking call on a zero-capacity vector violates its precondition
    etl::static_vector<int, 0> v;
    g_unmodified = [&] { return v.size() == 0; };
    int x        = 1;
    (void)s;
    switch (a % 4) {
    case 0: v.push_back(x); break;
    case 1: v.emplace_back(1); break;
    case 2: v.pop_back(); break;
    default: v.insert(v.begin(), x); break;
    }
    return true;
}
bool linalg_extents(int s, u32 a, bool bad)
{
    int xs[8] = {1, 2, 3, 4, 5, 6, 7, 8};
    int ys[8] = {1, 2, 3, 4, 5, 6, 7, 8};
    int zs[8] = {0};
    std::vector<int> before(zs, zs + 8);
    g_unmodified = [&] { return std::vector<int>(zs, zs + 8) == before && xs[0] == 1 && ys[7] == 8; };
    using M      = etl::mdspan<int, etl::dextents<int, 1>>;
    int n        = 1 + static_cast<int>(a % 4);
    int m        = bad ? n + 1 + static_cast<int>(a / 4 % 3) : n;
    // s == 1: only the output differs; otherwise the second input differs
    M x(xs, n), y(ys, s == 1 ? n : m), z(zs, s == 1 ? m : n);
    switch (s) {
    case 0:
    case 1: etl::linalg::add(x, y, z); break;
    case 2: etl::linalg::copy(x, y); break;
    default: etl::linalg::swap_elements(x, y); break;
    }
    return true;
}
bool linalg_shapes(int s, u32 a, bool bad)
{
    // matrices with the same number of elements but different shapes (2x3 / 3x2 / 1x6 / 6x1, 4x3 / 2x6 / 3x4)
    int xs[12], ys[12], zs[12] = {0};
    for (int i = 0; i < 12; ++i) {
        xs[i] = i + 1;
        ys[i] = 20 + i;
    }
    std::vector<int> bz(zs, zs + 12), by(ys, ys + 12), bx(xs, xs + 12);
    g_unmodified = [&] { return std::vector<int>(zs, zs + 12) == bz && std::vector<int>(ys, ys + 12) == by && std::vector<int>(xs, xs + 12) == bx; };
    using M      = etl::mdspan<int, etl::dextents<int, 2>>;
    static int const shapes6[4][2]  = {{2, 3}, {3, 2}, {1, 6}, {6, 1}};
    static int const shapes12[4][2] = {{4, 3}, {2, 6}, {3, 4}, {12, 1}};
    auto const* sh = (a / 16) % 2 == 0 ? shapes6 : shapes12;
    int const i    = static_cast<int>(a % 4);
    int const j    = bad ? static_cast<int>((a % 4 + 1 + (a / 4) % 3) % 4) : i;
    M x(xs, sh[i][0], sh[i][1]), y(ys, sh[j][0], sh[j][1]), z(zs, sh[i][0], sh[i][1]), zj(zs, sh[j][0], sh[j][1]);
    switch (s) {
    case 0: etl::linalg::add(x, y, z); break;
    case 1: etl::linalg::add(x, x, zj); break;
    case 2: etl::linalg::copy(x, y); break;
    default: etl::linalg::swap_elements(x, y); break;
    }
    return true;
}
bool linalg_index_types(int s, u32 a, bool bad)
{
    // operands whose extents use DIFFERENT index types: the comparison must not narrow (4 elements indexed with uint8_t
    // against 260 = 256 + 4 indexed with int compare unequal), in both operand orders
    static int big[300];
    static int small_x[8], small_z[8];
    for (int i = 0; i < 300; ++i) { big[i] = i; }
    for (int i = 0; i < 8; ++i) {
        small_x[i] = 100 + i;
        small_z[i] = 0;
    }
    g_unmodified = [] {
        for (int i = 0; i < 300; ++i) {
            if (big[i] != i) { return false; }
        }
        for (int i = 0; i < 8; ++i) {
            if (small_x[i] != 100 + i || small_z[i] != 0) { return false; }
        }
        return true;
    };
    using V8  = etl::mdspan<int, etl::dextents<etl::uint8_t, 1>>;
    using V16 = etl::mdspan<int, etl::dextents<etl::uint16_t, 1>>;
    using VI  = etl::mdspan<int, etl::dextents<int, 1>>;
    int const n    = 1 + static_cast<int>(a % 4);
    int const wrap = bad ? 256 * (1 + static_cast<int>((a / 4) % 1)) + n : n; // 256 + n wraps onto n in uint8_t
    V8 x8(small_x, static_cast<etl::uint8_t>(n));
    V8 z8(small_z, static_cast<etl::uint8_t>(n));
    VI yi(big, wrap);
    V16 y16(big, static_cast<etl::uint16_t>(wrap));
    switch (s) {
    case 0: etl::linalg::copy(yi, z8); break;          // wide index type on the left
    case 1: etl::linalg::copy(x8, yi); break;          // narrow index type on the left (writes 256 + n elements if unchecked)
    case 2: etl::linalg::add(x8, yi, z8); break;
    case 3: etl::linalg::add(x8, x8, yi); break;
    case 4: etl::linalg::swap_elements(z8, y16); break;
    default: etl::linalg::swap_elements(y16, z8); break;
    }
    return true;
}
bool linalg_matvec(int s, u32 a, bool bad)
{
    // non-square shapes: rows r, cols c, x has c elements, y has r elements
    int as[16], xs[8] = {1, 2, 3, 4, 5, 6, 7, 8}, ys[8] = {0};
    for (int i = 0; i < 16; ++i) { as[i] = i; }
    std::vector<int> before(ys, ys + 8);
    g_unmodified = [&] { return std::vector<int>(ys, ys + 8) == before; };
    int r = 1 + static_cast<int>(a % 3);
    int c = 1 + static_cast<int>((a / 3) % 4);
    if (r == c) { c = r + 1; }
    using Mat = etl::mdspan<int, etl::dextents<int, 2>>;
    using Vec = etl::mdspan<int, etl::dextents<int, 1>>;
    int xn = c, yn = r;
    if (bad) {
        switch (s) {
        case 0: xn = r; yn = c; break; // transposed lengths
        case 1: xn = c + 1; break;     // x too long
        case 2: yn = r + 1; break;     // y too long
        default: xn = c - 1 > 0 ? c - 1 : c + 2; break;
        }
    } else if (s != 0) {
        return false;
    }
    etl::linalg::matrix_vector_product(Mat(as, r, c), Vec(xs, xn), Vec(ys, yn));
    return true;
}
#if defined(TETL_ENABLE_CONTRACT_CHECKS_SAFE)
bool array_index(int s, u32 a, bool bad)
{
    etl::array<int, 4> arr{1, 2, 3, 4};
    auto const& c = arr;
    auto before   = arr;
    g_unmodified  = [&] { return arr == before; };
    auto i        = bad ? beyond(4, a) : a % 4;
    if (s == 0) {
        (void)arr[i];
    } else {
        (void)c[i];
    }
    return true;
}
#endif

using TCM = lt::TCM;
#define SV_ENTRIES(T, tag)                                                                                              \
    Entry{"static_vector<" tag ",4>::operator[]", "index.hpp|static_vector.hpp", 5, &SVE<T>::index},                     \
        Entry{"static_vector<" tag ",4>::operator[] const", "index.hpp|static_vector.hpp", 5, &SVE<T>::index_const},     \
        Entry{"static_vector<" tag ",4>::front", "index.hpp|static_vector.hpp", 5, &SVE<T>::front},                      \
        Entry{"static_vector<" tag ",4>::back", "index.hpp|static_vector.hpp", 5, &SVE<T>::back},                        \
        Entry{"static_vector<" tag ",4>::pop_back", "static_vector.hpp", 5, &SVE<T>::pop_back},                          \
        Entry{"static_vector<" tag ",4>::push_back", "static_vector.hpp", 5, &SVE<T>::push_back},                        \
        Entry{"static_vector<" tag ",4>::emplace_back", "static_vector.hpp", 5, &SVE<T>::emplace_back},                  \
        Entry{"static_vector<" tag ",4>::insert/emplace(pos,x)", "static_vector.hpp", 5, &SVE<T>::insert_one},           \
        Entry{"static_vector<" tag ",4>::insert(pos,n,x)", "static_vector.hpp", 5, &SVE<T>::insert_n},                   \
        Entry{"static_vector<" tag ",4>::insert(pos,first,last)", "static_vector.hpp", 5, &SVE<T>::insert_range},        \
        Entry{"static_vector<" tag ",4>::move_insert(pos,first,last)", "static_vector.hpp", 5, &SVE<T>::move_insert},    \
        Entry{"static_vector<" tag ",4>::insert(end()+1,x)", "static_vector.hpp", 5, &SVE<T>::insert_pos_past_end},      \
        Entry{"static_vector<" tag ",4>::erase(end())", "static_vector.hpp", 5, &SVE<T>::erase_end},                     \
        Entry{"static_vector<" tag ",4>::erase(first>last)", "static_vector.hpp", 5, &SVE<T>::erase_reversed},           \
        Entry{"static_vector<" tag ",4>::resize(n,x)", "static_vector.hpp", 5, &SVE<T>::resize_val},                     \
        Entry{"static_vector<" tag ",4>::resize(n)", "static_vector.hpp", 5, &SVE<T>::resize},                           \
        Entry{"static_vector<" tag ",4>::assign(n,x)", "static_vector.hpp", 5, &SVE<T>::assign_n},                       \
        Entry{"static_vector<" tag ",4>::assign(first,last)", "static_vector.hpp", 5, &SVE<T>::assign_range},            \
        Entry{"static_vector<" tag ",4>::static_vector(n[,x])", "static_vector.hpp", 1, &SVE<T>::ctor_n},                \
        Entry{"static_vector<" tag ",4>::static_vector(first,last)", "static_vector.hpp", 1, &SVE<T>::ctor_range}
#define IV_ENTRIES(T, tag)                                                                                              \
    Entry{"inplace_vector<" tag ",4>::operator[]", "inplace_vector.hpp", 5, &IVE<T>::index},                             \
        Entry{"inplace_vector<" tag ",4>::operator[] const", "inplace_vector.hpp", 5, &IVE<T>::index_const},             \
        Entry{"inplace_vector<" tag ",4>::front/back", "inplace_vector.hpp", 5, &IVE<T>::front_back},                    \
        Entry{"inplace_vector<" tag ",4>::pop_back", "inplace_vector.hpp", 5, &IVE<T>::pop_back},                        \
        Entry{"inplace_vector<" tag ",4>::unchecked_push/emplace_back", "inplace_vector.hpp", 5, &IVE<T>::unchecked_push}
#define STR_ENTRIES(N, tag)                                                                                             \
    Entry{"inplace_string<" tag ">(ptr,len)", "basic_inplace_string.hpp", 1, &STRE<N>::ctor_ptr_len},                   \
        Entry{"inplace_string<" tag ">(count,ch)", "basic_inplace_string.hpp", 1, &STRE<N>::ctor_count_ch},             \
        Entry{"inplace_string<" tag ">::assign(count,ch)", "basic_inplace_string.hpp", 5, &STRE<N>::assign_count},      \
        Entry{"inplace_string<" tag ">::assign(ptr,count)", "basic_inplace_string.hpp", 5, &STRE<N>::assign_ptr_count}, \
        Entry{"inplace_string<" tag ">::operator=(cstr)", "basic_inplace_string.hpp", 5, &STRE<N>::assign_cstr},        \
        Entry{"inplace_string<" tag ">::front/back", "basic_inplace_string.hpp", 5, &STRE<N>::front_back},              \
        Entry{"inplace_string<" tag ">::pop_back", "basic_inplace_string.hpp", 5, &STRE<N>::pop_back},                  \
        Entry{"inplace_string<" tag ">::push_back", "basic_inplace_string.hpp", 5, &STRE<N>::push_back},                \
        Entry{"inplace_string<" tag ">::operator[]", "basic_inplace_string.hpp", 5, &STRE<N>::index},                   \
        Entry{"inplace_string<" tag ">::erase(first,last)/erase(position)", "basic_inplace_string.hpp", 5, &STRE<N>::erase_range}, \
        Entry{"inplace_string<" tag "> from a longer view / iterator range / larger string", "basic_inplace_string.hpp", 5, &STRE<N>::from_view}, \
        Entry{"inplace_string<" tag ">::replace(pos>size)", "basic_inplace_string.hpp", 5, &STRE<N>::replace_pos},      \
        Entry{"inplace_string<" tag ">::replace(pos2>str.size())", "basic_inplace_string.hpp", 5, &STRE<N>::replace_pos2}

Entry const catalogue[] = {
    SV_ENTRIES(int, "int"),
    SV_ENTRIES(TCM, "Tracked"),
    IV_ENTRIES(int, "int"),
    IV_ENTRIES(TCM, "Tracked"),
    STR_ENTRIES(15, "15"),
    STR_ENTRIES(31, "31"),
    Entry{"string_view::operator[]", "basic_string_view.hpp", 4, &SVW::f<0>},
    Entry{"string_view::front/back", "basic_string_view.hpp", 4, &SVW::f<1>},
    Entry{"string_view::remove_prefix", "basic_string_view.hpp", 4, &SVW::f<2>},
    Entry{"string_view::remove_suffix", "basic_string_view.hpp", 4, &SVW::f<3>},
    Entry{"string_view::substr", "basic_string_view.hpp", 4, &SVW::f<4>},
    Entry{"string_view::copy", "basic_string_view.hpp", 4, &SVW::f<5>},
    Entry{"string_view compare/search/starts_with/ends_with at pos == size() and with empty needles (valid only)", "basic_string_view.hpp", 4, &SVW::f<6>},
    Entry{"span::operator[]", "span.hpp", 4, &SPN::f<0>},
    Entry{"span::front/back", "span.hpp", 4, &SPN::f<1>},
    Entry{"span::first", "span.hpp", 4, &SPN::f<2>},
    Entry{"span::last", "span.hpp", 4, &SPN::f<3>},
    Entry{"span::subspan(offset)", "span.hpp", 4, &SPN::f<4>},
    Entry{"span::subspan(offset,count)", "span.hpp", 4, &SPN::f<5>},
    Entry{"optional<int>::operator*", "optional.hpp", 2, &opt_deref<int>},
    Entry{"optional<Tracked>::operator*", "optional.hpp", 2, &opt_deref<TCM>},
    Entry{"optional<int&>::operator*", "optional.hpp", 2, &optref_deref},
    Entry{"expected<int,int>::operator*/error", "expected.hpp", 2, &exp_access<int>},
    Entry{"expected<Tracked,int>::operator*/error", "expected.hpp", 2, &exp_access<TCM>},
    Entry{"variant<int,long,char>::operator[]/unchecked_get", "variant.hpp", 3, &var_access<long>},
    Entry{"variant<int,Tracked,char>::operator[]/unchecked_get", "variant.hpp", 3, &var_access<TCM>},
    Entry{"bitset<8> positional", "bitset.hpp", 3, &bitset_pos<8>},
    Entry{"bitset<33> positional", "bitset.hpp", 3, &bitset_pos<33>},
    Entry{"bitset<64> positional", "bitset.hpp", 3, &bitset_pos<64>},
    Entry{"basic_bitset<9,u8> positional", "basic_bitset.hpp", 2, &basic_bitset_pos<9, std::uint8_t>},
    Entry{"basic_bitset<64,u32> positional", "basic_bitset.hpp", 2, &basic_bitset_pos<64, std::uint32_t>},
    Entry{"set/reset/flip/test_bit<u8>", "_bit.hpp", 2, &bit_fn<std::uint8_t>},
    Entry{"set/reset/flip/test_bit<u16>", "_bit.hpp", 2, &bit_fn<std::uint16_t>},
    Entry{"set/reset/flip/test_bit<u32>", "_bit.hpp", 2, &bit_fn<std::uint32_t>},
    Entry{"set/reset/flip/test_bit<u64>", "_bit.hpp", 2, &bit_fn<std::uint64_t>},
    Entry{"div_sat<int>(x,0)", "div_sat.hpp", 3, &div_sat_zero<int>},
    Entry{"div_sat<i8>(x,0)", "div_sat.hpp", 3, &div_sat_zero<std::int8_t>},
    Entry{"div_sat<u64>(x,0)", "div_sat.hpp", 3, &div_sat_zero<std::uint64_t>},
    Entry{"chrono::day/month(unsigned)", "day.hpp|month.hpp", 2, &chrono_day_month},
    Entry{"layout mapping::stride(r)", "layout_left.hpp|layout_right.hpp|layout_stride.hpp", 3, &mapping_stride},
    Entry{"strchr/strcpy/strncpy/memmove/wcscpy/wcsncpy(nullptr)", "strchr.hpp|strcpy.hpp|strncpy.hpp|memmove.hpp|wcscpy.hpp|wcsncpy.hpp", 7, &cstr_null},
    Entry{"to_string<3>(too many digits)", "to_string.hpp", 3, &to_string_small},
    Entry{"static_set<int,4>(first,last)", "static_set.hpp", 1, &static_set_ctor},
    Entry{"bitset<8>(string_view longer than the bitset)", "bitset.hpp", 2, &bitset_string_ctor},
    Entry{"static_vector<int,0> push_back/emplace_back/pop_back/insert", "static_vector.hpp", 1, &zero_capacity_vector},
    Entry{"linalg::matrix_vector_product with mismatched extents", "blas2_matrix_vector_product.hpp", 4, &linalg_matvec},
    Entry{"linalg add/copy/swap_elements with mismatched extents", "blas1_add.hpp|blas1_copy.hpp|blas1_swap_elements.hpp", 4, &linalg_extents},
    Entry{"linalg add/copy/swap_elements between operands with different index types (extent 256 + n against n)", "blas1_add.hpp|blas1_copy.hpp|blas1_swap_elements.hpp", 6, &linalg_index_types},
    Entry{"linalg add/copy/swap_elements with equal element counts but different shapes", "blas1_add.hpp|blas1_copy.hpp|blas1_swap_elements.hpp", 4, &linalg_shapes},
#if defined(TETL_ENABLE_CONTRACT_CHECKS_SAFE)
    Entry{"array<int,4>::operator[] (SAFE)", "array.hpp", 2, &array_index},
#endif
};
constexpr int nentries = sizeof(catalogue) / sizeof(catalogue[0]);

// ---------------------------------------------------------------- constant evaluation
// A violating call inside a constant expression cannot "invoke the handler"; what the user relies on is that it is NOT
// accepted (the handler call makes it a non-constant expression => compile error), while the valid twin is accepted.
// is_ce(lambda): can the call operator of the (captureless, default-constructible) lambda be constant-evaluated?
template <typename F, int = (F{}(), 0)>
constexpr auto is_ce(F) -> bool
{
    return true;
}
constexpr auto is_ce(...) -> bool { return false; }
struct CeProbe {
    char const* name;
    bool violating_accepted;
    bool valid_accepted;
};
#define CE_PAIR(NAME, BAD, GOOD) CeProbe{NAME, is_ce([] { BAD; return 0; }), is_ce([] { GOOD; return 0; })}
using CeSV4 = etl::static_vector<int, 4>;
using CeSV2 = etl::static_vector<int, 2>;
using CeIV4 = etl::inplace_vector<int, 4>;
using CeA4  = etl::array<int, 4>;
CeProbe const ce_probes[] = {
    CE_PAIR("static_vector<int,4>::pop_back on empty", CeSV4 v; v.pop_back(), CeSV4 v; v.push_back(1); v.pop_back()),
    CE_PAIR("static_vector<int,4>::operator[](3) with one element", CeSV4 v; v.push_back(1); (void)v[3], CeSV4 v; v.push_back(1); (void)v[0]),
    CE_PAIR("static_vector<int,4>::push_back when full", CeSV2 v; v.push_back(1); v.push_back(2); v.push_back(3), CeSV2 v; v.push_back(1); v.push_back(2)),
    CE_PAIR("static_vector<int,4>::front on empty", CeSV4 v; (void)v.front(), CeSV4 v; v.push_back(1); (void)v.front()),
    CE_PAIR("inplace_vector<int,4>::pop_back on empty", CeIV4 v; v.pop_back(), CeIV4 v; v.unchecked_push_back(1); v.pop_back()),
    CE_PAIR("bitset<8>::set(12)", etl::bitset<8> b; b.set(12), etl::bitset<8> b; b.set(3)),
    CE_PAIR("bitset<8>::test(8)", etl::bitset<8> b; (void)b.test(8), etl::bitset<8> b; (void)b.test(7)),
    CE_PAIR("span<int>::first(9) of 4", int a[4] = {}; etl::span<int> s(a); (void)s.first(9), int a[4] = {}; etl::span<int> s(a); (void)s.first(2)),
    CE_PAIR("span<int>::operator[](4) of 4", int a[4] = {}; etl::span<int> s(a); (void)s[4], int a[4] = {}; etl::span<int> s(a); (void)s[3]),
    CE_PAIR("string_view::remove_prefix(5) of 3", etl::string_view s("abc", 3); s.remove_prefix(5), etl::string_view s("abc", 3); s.remove_prefix(3)),
    CE_PAIR("string_view::operator[](7) of 3", etl::string_view s("abc", 3); (void)s[7], etl::string_view s("abc", 3); (void)s[2]),
    CE_PAIR("inplace_string<7>::push_back when full", etl::inplace_string<3> s(3, 'x'); s.push_back('y'), etl::inplace_string<3> s(2, 'x'); s.push_back('y')),
    CE_PAIR("inplace_string<7>(count > capacity, ch)", etl::inplace_string<7> s(9, 'x'); (void)s, etl::inplace_string<7> s(7, 'x'); (void)s),
    CE_PAIR("optional<int>::operator* when empty", etl::optional<int> o; (void)*o, etl::optional<int> o(3); (void)*o),
    CE_PAIR("chrono::day{300}", etl::chrono::day d{300}; (void)d, etl::chrono::day d{30}; (void)d),
    CE_PAIR("div_sat(1, 0)", (void)etl::div_sat(1, 0), (void)etl::div_sat(1, 1)),
    CE_PAIR("set_bit<u8>(x, 9)", (void)etl::set_bit(std::uint8_t{1}, std::uint8_t{9}), (void)etl::set_bit(std::uint8_t{1}, std::uint8_t{7})),
#if defined(TETL_ENABLE_CONTRACT_CHECKS_SAFE)
    CE_PAIR("array<int,4>::operator[](4) (SAFE)", CeA4 a{}; (void)a[4], CeA4 a{}; (void)a[3]),
#endif
};
constexpr int nce = sizeof(ce_probes) / sizeof(ce_probes[0]);
struct CeCase {
    int index;
};
auto show_case(CeCase const& k) -> std::string { return "CE;" + std::to_string(k.index) + ";0;" + ce_probes[k.index].name; }
auto run_ce(CeCase const& k, bool* applicable) -> std::string
{
    auto const& p = ce_probes[k.index];
    *applicable   = p.valid_accepted; // an operation that is not usable in constant expressions at all has no compile-time contract
    if (!p.valid_accepted) { return ""; }
    if (p.violating_accepted) { return std::string(p.name) + ": the violating call is accepted as a constant expression (no diagnostic, the constant is built from garbage) while the check is enabled"; }
    return "";
}

struct Case {
    int entry;
    int state;
    u32 arg;
    bool violate;
};
auto show_case(Case const& k) -> std::string
{
    return std::string(k.violate ? "V" : "OK") + ";" + std::to_string(k.state) + ";" + std::to_string(k.arg) + ";" + catalogue[k.entry].name;
}

bool g_replay_verbose = false;

// does file:line (or one of the 10 lines above it: multi-line invocations) hold a contract check?  Unreadable file: yes.
auto names_a_check(std::string const& file, int line) -> bool
{
    static std::map<std::string, std::vector<std::string>> cache;
    auto it = cache.find(file);
    if (it == cache.end()) {
        std::vector<std::string> lines;
        std::ifstream in(file);
        std::string l;
        while (std::getline(in, l)) {
            for (auto& ch : l) { ch = static_cast<char>(std::tolower(static_cast<unsigned char>(ch))); }
            lines.push_back(l);
        }
        it = cache.emplace(file, std::move(lines)).first;
    }
    auto const& lines = it->second;
    if (lines.empty()) {
        vf::count("location file unreadable (line not examined)");
        return true;
    }
    for (int l = std::max(1, line - 10); l <= line + 1 && l <= static_cast<int>(lines.size()); ++l) {
        auto const& t = lines[static_cast<std::size_t>(l - 1)];
        for (char const* kw : {"precondition", "postcondition", "assert", "contract", "expects", "ensures"}) {
            if (t.find(kw) != std::string::npos) { return true; }
        }
    }
    return false;
}

// returns "" / detail; sets *applicable
auto run_violating(Case const& k, bool* applicable) -> std::string
{
    auto const& e = catalogue[k.entry];
    std::memset(g_shm, 0, sizeof(Shared));
    std::fflush(nullptr);
    pid_t pid = fork();
    if (pid == 0) {
        g_in_child = true;
        if (!g_replay_verbose) {
            int fd = open("/dev/null", O_WRONLY);
            if (fd >= 0) {
                dup2(fd, 2);
                dup2(fd, 1);
            }
        }
        ::signal(SIGABRT, SIG_DFL);
        ::signal(SIGILL, SIG_DFL);
        ::signal(SIGTRAP, SIG_DFL);
        lt::reset();
        bool ran = e.fn(k.state, k.arg, true);
        _exit(ran ? 0 : 50);
    }
    int status = 0;
    waitpid(pid, &status, 0);
    *applicable = true;
    if (WIFEXITED(status)) {
        int code = WEXITSTATUS(status);
        if (code == 50) {
            *applicable = false;
            return "";
        }
        if (code == 77 || code == 78) {
            std::string file = g_shm->file;
            auto slash       = file.rfind("/include/etl/");
            std::string rel  = slash == std::string::npos ? file : file.substr(slash + 13);
            vf::count(("site fired: " + rel + ":" + std::to_string(g_shm->line)).c_str());
            // file must be one of the operation's precondition files
            bool okfile = false;
            std::stringstream ss(e.files);
            std::string f;
            while (std::getline(ss, f, '|')) {
                if (f == "_bit.hpp") {
                    okfile |= file.find("/_bit/") != std::string::npos;
                } else {
                    okfile |= file.find(f) != std::string::npos;
                }
            }
            // The expected header names are informational (evidence: which sites fired).  The property only demands
            // that the handler runs, with a location inside the library, before damage - a precondition that moves to
            // another header in a refactoring must not raise an alarm.
            if (!okfile) { vf::count(("site outside the catalogued headers: " + rel).c_str()); }
            if (file.find("/etl/") == std::string::npos) { return "handler fired with a location outside the library: " + file; }
            // "with the failing location": the location must name the violated check, not the reporting machinery itself,
            // and the named source line (or the lines of the same statement just above it) must hold a check.
            if (file.find("/_contracts/") != std::string::npos || file.find("/_cassert/") != std::string::npos) {
                return "handler fired with the location of the contract machinery itself (" + rel + ":" + std::to_string(g_shm->line) + "), not of the failing check";
            }
            if (!names_a_check(file, g_shm->line)) { return "handler fired with a location that holds no check: " + rel + ":" + std::to_string(g_shm->line); }
            if (code == 78) { return "handler fired (" + rel + " " + g_shm->expr + ") but the object had already been modified"; }
            return "";
        }
        if (code == 0) { return "precondition violation was not detected: the call returned without invoking the assertion handler"; }
        return "memory error or sanitizer report before the assertion handler ran (child exit code " + std::to_string(code) + ")";
    }
    if (WIFSIGNALED(status)) { return "child killed by signal " + std::to_string(WTERMSIG(status)) + " before the assertion handler ran"; }
    return "child ended abnormally";
}

auto run_case(Case const& k, bool* applicable) -> std::string
{
    if (k.violate) { return run_violating(k, applicable); }
    lt::reset();
    *applicable = catalogue[k.entry].fn(k.state, k.arg, false); // a firing contract ends the process via the engine's default handler
    g_unmodified = nullptr;
    return "";
}

} // namespace

void vf_run(vf::Ctx& c)
{
    g_shm               = static_cast<Shared*>(mmap(nullptr, sizeof(Shared), PROT_READ | PROT_WRITE, MAP_SHARED | MAP_ANONYMOUS, -1, 0));
    vf::g_contract_hook = &child_hook;
    std::uint64_t item  = 0;
    vf::Rng rng(c.seed);
    if (c.shard == 0) {
        for (int i = 0; i < nce; ++i) {
            CeCase k{i};
            vf::Flight<CeCase> fl("consteval", k);
            bool applicable = false;
            auto d          = run_ce(k, &applicable);
            vf::label("consteval.valid_twin_is_a_constant_expression", applicable);
            if (!applicable) { continue; }
            vf::eval("consteval");
            if (!d.empty()) {
                vf::mismatch("consteval", k, d);
                return;
            }
            vf::nontrivial(vf::fnv(show_case(k)));
            if (i % 5 == 0) { vf::sample("consteval", [&] { return show_case(k) + "  -> violating call rejected in a constant expression, valid twin accepted"; }); }
        }
    }
    int extra = c.thorough() ? 200 : 12; // random arguments per (entry, state, mode) on top of the boundary list
    for (int ei = 0; ei < nentries; ++ei) {
        auto const& e = catalogue[ei];
        for (int s = 0; s < e.nstates; ++s) {
            for (int mode = 0; mode < 2; ++mode) {
                bool violate = mode == 0;
                std::vector<u32> args(std::begin(violating_args), std::end(violating_args));
                for (int i = 0; i < extra; ++i) {
                    auto r = rng.next(); // drawn for every item so that shards see the same stream
                    args.push_back(static_cast<u32>(r % 3 == 0 ? r >> 32 : (r >> 8) % 4096));
                }
                for (u32 a : args) {
                    if (!c.mine(item++)) { continue; }
                    Case k{ei, s, a, violate};
                    vf::Flight<Case> fl(violate ? "violating" : "valid", k);
                    bool applicable = false;
                    auto d          = run_case(k, &applicable);
                    if (!applicable) { continue; }
                    vf::eval(violate ? "violating" : "valid");
                    if (!d.empty()) {
                        vf::mismatch(violate ? "violating" : "valid", k, std::string(e.name) + ": " + d);
                        return;
                    }
                    bool boundary = a == 0 || a >= 0x7FFFFFFFU;
                    vf::label("violating.arg_exactly_at_boundary", violate && a == 0);
                    vf::label("violating.wraparound_argument", violate && a >= 0x7FFFFFFFU);
                    vf::label("object_state_non_empty", s > 0);
                    if (boundary || s > 0) { vf::nontrivial(vf::fnv(show_case(k))); }
                    if (violate && (a == 0 || a == 0xFFFFFFFFU) && s == e.nstates - 1) {
                        vf::sample("violating", [&] { return show_case(k) + "  -> handler at " + std::string(g_shm->file).substr(std::string(g_shm->file).rfind('/') + 1) + ":" + std::to_string(g_shm->line) + " (" + g_shm->expr + "), object unmodified"; });
                    }
                    if (!violate && a == 3) {
                        vf::sample("valid", [&] { return show_case(k) + "  -> no handler invocation"; });
                    }
                }
            }
        }
    }
}

std::string vf_replay(std::string const&, std::string const& cs)
{
    g_shm               = static_cast<Shared*>(mmap(nullptr, sizeof(Shared), PROT_READ | PROT_WRITE, MAP_SHARED | MAP_ANONYMOUS, -1, 0));
    vf::g_contract_hook = &child_hook;
    g_replay_verbose    = true;
    // "V;state;arg;name"
    std::stringstream ss(cs);
    std::string mode, st, ar, name;
    std::getline(ss, mode, ';');
    std::getline(ss, st, ';');
    std::getline(ss, ar, ';');
    std::getline(ss, name);
    if (mode == "CE") {
        for (int i = 0; i < nce; ++i) {
            if (name == ce_probes[i].name) {
                CeCase k{i};
                bool applicable = false;
                auto d          = run_ce(k, &applicable);
                return applicable ? d : std::string("case not applicable (the valid twin is not a constant expression)");
            }
        }
        return "unknown constant-evaluation probe: " + name;
    }
    for (int ei = 0; ei < nentries; ++ei) {
        if (name == catalogue[ei].name) {
            Case k{ei, std::atoi(st.c_str()), static_cast<u32>(std::strtoul(ar.c_str(), nullptr, 10)), mode == "V"};
            vf::Flight<Case> fl("replay", k);
            bool applicable = false;
            auto d          = run_case(k, &applicable);
            if (!applicable) { return "case not applicable (state/mode combination does not exist)"; }
            return d.empty() ? d : std::string(catalogue[ei].name) + ": " + d;
        }
    }
    return "unknown catalogue entry: " + name;
}
