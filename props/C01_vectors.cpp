// C01 — static_vector / inplace_vector / stack behave like std::vector within capacity.
// Engines: E1 rapidcheck histories (shrinking), E2 exhaustive short histories for tiny capacities.
// Oracle: std::vector<int> driven by the same decoded ops; lifetime registry for the non-trivial element type.
#include <etl/inplace_vector.hpp>
#include <etl/stack.hpp>
#include <etl/vector.hpp>

#include "rc.hpp"
#include "tracked.hpp"

#include <initializer_list>
#include <vector>

namespace {

using vf::OpsCase;
using vf::RawOp;
using Model = std::vector<int>;
namespace lt = vf::lt;

template <typename T>
constexpr bool is_tracked = !std::is_same_v<T, int>;

struct Even {
    template <typename T>
    auto operator()(T const& x) const -> bool
    {
        return lt::val(x) % 2 == 0;
    }
};

// bulk count biased to the boundaries of the remaining room
inline auto pick(std::uint32_t raw, std::size_t room) -> std::size_t
{
    switch (raw % 8) {
    case 0: return 0;
    case 1: return room >= 1 ? 1 : 0;
    case 2: return room;
    case 3: return room >= 1 ? room - 1 : 0;
    default: return (raw / 8) % (room + 1);
    }
}

enum Code : std::uint32_t {
    PUSH_CREF, PUSH_RREF, EMPLACE_BACK, POP_BACK, INSERT_CREF, INSERT_RREF, INSERT_N, INSERT_RANGE, EMPLACE_POS, ERASE_POS, ERASE_RANGE,
    RESIZE, RESIZE_VAL, ASSIGN_N, ASSIGN_RANGE, CLEAR, SWAP_MEMBER, SWAP_FREE, COPY_CTOR_MUTATE, COPY_ASSIGN, MOVE_ASSIGN, MOVE_CTOR,
    FREE_ERASE, FREE_ERASE_IF, COMPARE, OBSERVE, SELF_COPY_ASSIGN, CTOR_N, CTOR_N_VAL, CTOR_RANGE,
    PUSH_ALIAS, INSERT_ALIAS, INSERT_N_ALIAS, EMPLACE_ALIAS,
    NCODES
};
char const* const code_names[] = {"push_back(const&)", "push_back(&&)", "emplace_back", "pop_back", "insert(pos,const&)", "insert(pos,&&)", "insert(pos,n,x)", "insert(pos,first,last)",
    "emplace(pos,x)", "erase(pos)", "erase(first,last)", "resize(n)", "resize(n,x)", "assign(n,x)", "assign(first,last)", "clear", "swap(member)", "swap(free)", "copy-ctor+mutate copy",
    "copy-assign", "move-assign", "move-ctor", "erase(c,v)", "erase_if(c,even)", "compare", "observe", "self copy-assign", "ctor(n)", "ctor(n,x)", "ctor(first,last)",
    "push_back(v[i])", "insert(pos,v[i])", "insert(pos,n,v[i])", "emplace(pos,v[i])"};

template <typename T, std::size_t N>
struct SV {
    using V = etl::static_vector<T, N>;
    static constexpr char const* kind = "static_vector";

    static auto compare(char const* name, V const& v, Model const& m) -> std::string
    {
        if (v.size() != m.size()) { return std::string(name) + ": size " + std::to_string(v.size()) + " model " + std::to_string(m.size()); }
        if (v.empty() != m.empty()) { return std::string(name) + ": empty() wrong"; }
        if (v.full() != (m.size() == N)) { return std::string(name) + ": full() wrong"; }
        if (v.capacity() != N || v.max_size() != N) { return std::string(name) + ": capacity()/max_size() != N"; }
        if (static_cast<std::size_t>(v.end() - v.begin()) != m.size()) { return std::string(name) + ": end()-begin() != size"; }
        if (v.size() != 0 && v.data() != v.begin()) { return std::string(name) + ": data() != begin()"; }
        for (std::size_t i = 0; i < m.size(); ++i) {
            if (lt::val(v[i]) != m[i]) { return std::string(name) + ": element " + std::to_string(i) + " is " + std::to_string(lt::val(v[i])) + " model " + std::to_string(m[i]); }
            if (lt::val(v.begin()[i]) != m[i]) { return std::string(name) + ": begin()[i] differs from operator[]"; }
        }
        if (!m.empty()) {
            if (lt::val(v.front()) != m.front() || lt::val(v.back()) != m.back()) { return std::string(name) + ": front()/back() wrong"; }
            std::size_t i = m.size();
            for (auto r = v.rbegin(); r != v.rend(); ++r) {
                --i;
                if (lt::val(*r) != m[i]) { return std::string(name) + ": reverse iteration differs at " + std::to_string(i); }
            }
            if (i != 0) { return std::string(name) + ": reverse iteration length wrong"; }
            if (&*v.cbegin() != &v[0] || v.cend() != v.end()) { return std::string(name) + ": cbegin/cend wrong"; }
        } else {
            if (v.rbegin() != v.rend()) { return std::string(name) + ": rbegin != rend on empty"; }
        }
        return "";
    }

    static auto run(OpsCase const& k, int stats) -> std::string
    {
        lt::reset();
        std::string err;
        bool nt_middle = false, nt_full = false, nt_copy_mut = false;
        {
            struct Sandwich {
                std::uint64_t pre{0xA5A5A5A5A5A5A5A5ULL};
                V a;
                std::uint64_t mid{0x5A5A5A5A5A5A5A5AULL};
                V b;
                std::uint64_t post{0xC3C3C3C3C3C3C3C3ULL};
            } sw;
            Model ma, mb;
            for (auto const& op : k.ops) {
                bool tb   = (op.c & 1U) != 0;
                V& x      = tb ? sw.b : sw.a;
                V& y      = tb ? sw.a : sw.b;
                Model& mx = tb ? mb : ma;
                Model& my = tb ? ma : mb;
                int val   = static_cast<int>((op.c >> 1) % 7) + 1;
                auto pos  = static_cast<std::ptrdiff_t>(op.a % (mx.size() + 1));
                std::size_t room = N - mx.size();
                int src_vals[8]  = {val, val + 1, val + 2, val + 3, val + 4, val + 5, val + 6, val + 7};
                auto code = op.code % NCODES;
                // re-map ops that are impossible in the current state
                if (room == 0 && (code == PUSH_CREF || code == PUSH_RREF || code == EMPLACE_BACK || code == INSERT_CREF || code == INSERT_RREF || code == EMPLACE_POS || code == PUSH_ALIAS || code == INSERT_ALIAS || code == EMPLACE_ALIAS)) { code = mx.empty() ? OBSERVE : POP_BACK; }
                if (mx.empty() && (code == PUSH_ALIAS || code == INSERT_ALIAS || code == INSERT_N_ALIAS || code == EMPLACE_ALIAS)) { code = room != 0 ? PUSH_CREF : OBSERVE; }
                if (mx.empty() && (code == POP_BACK || code == ERASE_POS)) { code = room != 0 ? PUSH_CREF : OBSERVE; }
                if (stats > 1) { vf::count((std::string("op.") + code_names[code]).c_str()); }
                switch (code) {
                case PUSH_CREF: {
                    T t(val);
                    x.push_back(t);
                    mx.push_back(val);
                    if (lt::val(t) != val) { err = "push_back(lvalue) modified its argument (moved from an lvalue)"; }
                    break;
                }
                case PUSH_RREF: {
                    x.push_back(T(val));
                    mx.push_back(val);
                    break;
                }
                case EMPLACE_BACK: {
                    x.emplace_back(val);
                    mx.push_back(val);
                    break;
                }
                case POP_BACK: {
                    x.pop_back();
                    mx.pop_back();
                    break;
                }
                case INSERT_CREF: {
                    T t(val);
                    auto it = x.insert(x.begin() + pos, t);
                    mx.insert(mx.begin() + pos, val);
                    if (it - x.begin() != pos) { err = "insert(pos,const&) returned iterator offset " + std::to_string(it - x.begin()) + " expected " + std::to_string(pos); }
                    if (lt::val(t) != val) { err = "insert(pos,lvalue) modified its argument (moved from an lvalue)"; }
                    nt_middle |= (pos > 0 && static_cast<std::size_t>(pos) + 1 < mx.size());
                    break;
                }
                case INSERT_RREF: {
                    auto it = x.insert(x.begin() + pos, T(val));
                    mx.insert(mx.begin() + pos, val);
                    if (it - x.begin() != pos) { err = "insert(pos,&&) returned iterator offset " + std::to_string(it - x.begin()) + " expected " + std::to_string(pos); }
                    nt_middle |= (pos > 0 && static_cast<std::size_t>(pos) + 1 < mx.size());
                    break;
                }
                case INSERT_N: {
                    auto n = pick(op.b, room);
                    T t(val);
                    auto it = x.insert(x.begin() + pos, n, t);
                    mx.insert(mx.begin() + pos, n, val);
                    if (it - x.begin() != pos) { err = "insert(pos,n,x) returned iterator offset " + std::to_string(it - x.begin()) + " expected " + std::to_string(pos); }
                    if (lt::val(t) != val) { err = "insert(pos,n,lvalue) modified its argument"; }
                    nt_middle |= (n > 0 && pos > 0 && static_cast<std::size_t>(pos) + n < mx.size());
                    break;
                }
                case INSERT_RANGE: {
                    auto n = std::min<std::size_t>(pick(op.b, room), 8);
                    T src[8]{T(src_vals[0]), T(src_vals[1]), T(src_vals[2]), T(src_vals[3]), T(src_vals[4]), T(src_vals[5]), T(src_vals[6]), T(src_vals[7])};
                    T const* f = src;
                    auto it    = x.insert(x.begin() + pos, f, f + n);
                    mx.insert(mx.begin() + pos, src_vals, src_vals + n);
                    if (it - x.begin() != pos) { err = "insert(pos,first,last) returned iterator offset " + std::to_string(it - x.begin()) + " expected " + std::to_string(pos); }
                    for (std::size_t i = 0; i < 8; ++i) {
                        if (lt::val(src[i]) != src_vals[i]) { err = "insert(pos,first,last) modified its const source range"; }
                    }
                    nt_middle |= (n > 0 && pos > 0 && static_cast<std::size_t>(pos) + n < mx.size());
                    break;
                }
                case EMPLACE_POS: {
                    auto it = x.emplace(x.begin() + pos, val);
                    mx.insert(mx.begin() + pos, val);
                    if (it - x.begin() != pos) { err = "emplace(pos,x) returned iterator offset " + std::to_string(it - x.begin()) + " expected " + std::to_string(pos); }
                    nt_middle |= (pos > 0 && static_cast<std::size_t>(pos) + 1 < mx.size());
                    break;
                }
                case ERASE_POS: {
                    auto p  = static_cast<std::ptrdiff_t>(op.a % mx.size());
                    nt_middle |= (p > 0 && static_cast<std::size_t>(p) + 1 < mx.size());
                    auto it = x.erase(x.begin() + p);
                    mx.erase(mx.begin() + p);
                    if (it - x.begin() != p) { err = "erase(pos) returned iterator offset " + std::to_string(it - x.begin()) + " expected " + std::to_string(p); }
                    break;
                }
                case ERASE_RANGE: {
                    auto f = static_cast<std::ptrdiff_t>(op.a % (mx.size() + 1));
                    auto l = f + static_cast<std::ptrdiff_t>(pick(op.b, mx.size() - static_cast<std::size_t>(f)));
                    nt_middle |= (f > 0 && l > f && static_cast<std::size_t>(l) < mx.size());
                    auto it = x.erase(x.begin() + f, x.begin() + l);
                    mx.erase(mx.begin() + f, mx.begin() + l);
                    if (it - x.begin() != f) { err = "erase(first,last) returned iterator offset " + std::to_string(it - x.begin()) + " expected " + std::to_string(f); }
                    break;
                }
                case RESIZE: {
                    auto n = pick(op.b, N);
                    x.resize(n);
                    mx.resize(n);
                    break;
                }
                case RESIZE_VAL: {
                    auto n = pick(op.b, N);
                    T t(val);
                    x.resize(n, t);
                    mx.resize(n, val);
                    if (lt::val(t) != val) { err = "resize(n,lvalue) modified its argument"; }
                    break;
                }
                case ASSIGN_N: {
                    auto n = pick(op.b, N);
                    T t(val);
                    x.assign(n, t);
                    mx.assign(n, val);
                    if (lt::val(t) != val) { err = "assign(n,lvalue) modified its argument"; }
                    break;
                }
                case ASSIGN_RANGE: {
                    auto n = std::min<std::size_t>(pick(op.b, N), 8);
                    T src[8]{T(src_vals[0]), T(src_vals[1]), T(src_vals[2]), T(src_vals[3]), T(src_vals[4]), T(src_vals[5]), T(src_vals[6]), T(src_vals[7])};
                    T const* f = src;
                    x.assign(f, f + n);
                    mx.assign(src_vals, src_vals + n);
                    break;
                }
                case CLEAR: {
                    x.clear();
                    mx.clear();
                    break;
                }
                case SWAP_MEMBER: {
                    x.swap(y);
                    mx.swap(my);
                    break;
                }
                case SWAP_FREE: {
                    using etl::swap;
                    swap(x, y);
                    mx.swap(my);
                    break;
                }
                case COPY_CTOR_MUTATE: {
                    V c(x);
                    Model mc(mx);
                    if (auto e = compare("copy", c, mc); !e.empty()) { err = "copy constructor: " + e; }
                    // mutate the copy: the source must not change
                    if (!mc.empty()) {
                        c[0] = T(99);
                        mc[0] = 99;
                        c.pop_back();
                        mc.pop_back();
                        nt_copy_mut = true;
                    }
                    if (mc.size() < N) {
                        c.push_back(T(98));
                        mc.push_back(98);
                    }
                    if (auto e = compare("mutated copy", c, mc); !e.empty() && err.empty()) { err = e; }
                    if (auto e = compare("source after mutating its copy", x, mx); !e.empty() && err.empty()) { err = e; }
                    break;
                }
                case COPY_ASSIGN: {
                    y  = x;
                    my = mx;
                    break;
                }
                case MOVE_ASSIGN: {
                    y  = std::move(x);
                    my = mx;
                    // moved-from source: only re-assigned / cleared, never read
                    x.clear();
                    mx.clear();
                    break;
                }
                case MOVE_CTOR: {
                    V c(std::move(x));
                    if (auto e = compare("move-constructed", c, mx); !e.empty()) { err = "move constructor: " + e; }
                    x.assign(std::size_t{0}, T(0)); // moved-from object must accept a fresh assignment
                    x = std::move(c);
                    break;
                }
                // arguments that refer to an element of the vector itself: std::vector must cope with them (only assign
                // has the precondition "not a reference into *this")
                case PUSH_ALIAS: {
                    auto i = op.b % mx.size();
                    int v  = mx[i];
                    x.push_back(x[i]);
                    mx.push_back(v);
                    break;
                }
                case INSERT_ALIAS: {
                    auto i  = op.b % mx.size();
                    int v   = mx[i];
                    auto it = x.insert(x.begin() + pos, x[i]);
                    mx.insert(mx.begin() + pos, v);
                    if (it - x.begin() != pos) { err = "insert(pos,v[i]) returned iterator offset " + std::to_string(it - x.begin()) + " expected " + std::to_string(pos); }
                    nt_middle |= (pos > 0 && static_cast<std::size_t>(pos) + 1 < mx.size());
                    break;
                }
                case INSERT_N_ALIAS: {
                    auto i  = op.b % mx.size();
                    int v   = mx[i];
                    auto n  = pick(op.b / 16, room);
                    auto it = x.insert(x.begin() + pos, n, x[i]);
                    mx.insert(mx.begin() + pos, n, v);
                    if (it - x.begin() != pos) { err = "insert(pos,n,v[i]) returned iterator offset " + std::to_string(it - x.begin()) + " expected " + std::to_string(pos); }
                    break;
                }
                case EMPLACE_ALIAS: {
                    auto i  = op.b % mx.size();
                    int v   = mx[i];
                    auto it = x.emplace(x.begin() + pos, x[i]);
                    mx.insert(mx.begin() + pos, v);
                    if (it - x.begin() != pos) { err = "emplace(pos,v[i]) returned iterator offset " + std::to_string(it - x.begin()) + " expected " + std::to_string(pos); }
                    break;
                }
                case FREE_ERASE: {
                    auto n = etl::erase(x, T(val));
                    auto e = std::erase(mx, val);
                    if (static_cast<std::size_t>(n) != e) { err = "erase(c,v) returned " + std::to_string(n) + " expected " + std::to_string(e); }
                    break;
                }
                case FREE_ERASE_IF: {
                    auto n = etl::erase_if(x, Even{});
                    auto e = std::erase_if(mx, [](int v) { return v % 2 == 0; });
                    if (static_cast<std::size_t>(n) != e) { err = "erase_if(c,pred) returned " + std::to_string(n) + " expected " + std::to_string(e); }
                    break;
                }
                case COMPARE: {
                    V const& cx = x;
                    V const& cy = y;
                    if ((cx == cy) != (mx == my) || (cx != cy) != (mx != my) || (cx < cy) != (mx < my) || (cx <= cy) != (mx <= my) || (cx > cy) != (mx > my) || (cx >= cy) != (mx >= my)) {
                        err = "relational operators differ from std::vector";
                    }
                    if (!(cx == cx) || (cx != cx) || (cx < cx) || !(cx <= cx)) { err = "relational operators not reflexive"; }
                    break;
                }
                case OBSERVE: break;
                case SELF_COPY_ASSIGN: {
                    V& alias = x;
                    x        = alias;
                    break;
                }
                case CTOR_N: {
                    auto n = pick(op.b, N);
                    V c(n);
                    Model mc(n);
                    if (auto e = compare("ctor(n)", c, mc); !e.empty()) { err = e; }
                    y  = c;
                    my = mc;
                    break;
                }
                case CTOR_N_VAL: {
                    auto n = pick(op.b, N);
                    T t(val);
                    V c(n, t);
                    Model mc(n, val);
                    if (auto e = compare("ctor(n,x)", c, mc); !e.empty()) { err = e; }
                    y  = std::move(c);
                    my = mc;
                    break;
                }
                case CTOR_RANGE: {
                    auto n = std::min<std::size_t>(pick(op.b, N), 8);
                    T src[8]{T(src_vals[0]), T(src_vals[1]), T(src_vals[2]), T(src_vals[3]), T(src_vals[4]), T(src_vals[5]), T(src_vals[6]), T(src_vals[7])};
                    T const* f = src;
                    V c(f, f + n);
                    Model mc(src_vals, src_vals + n);
                    if (auto e = compare("ctor(first,last)", c, mc); !e.empty()) { err = e; }
                    y  = c;
                    my = mc;
                    break;
                }
                default: break;
                }
                nt_full |= (mx.size() == N || my.size() == N);
                if (err.empty()) { err = compare(tb ? "B" : "A", x, mx); }
                if (err.empty()) { err = compare(tb ? "A" : "B", y, my); }
                if (err.empty() && (sw.pre != 0xA5A5A5A5A5A5A5A5ULL || sw.mid != 0x5A5A5A5A5A5A5A5AULL || sw.post != 0xC3C3C3C3C3C3C3C3ULL)) { err = "canary next to the container was overwritten"; }
                if (err.empty() && is_tracked<T> && !lt::violation().empty()) { err = "lifetime: " + lt::violation(); }
                if (!err.empty()) {
                    err = std::string("after ") + code_names[code] + ": " + err;
                    break;
                }
            }
        }
        if (err.empty() && is_tracked<T>) { err = lt::check_empty(); }
        if (stats > 1) {
            vf::label("static_vector.hist.middle_insert_or_erase", nt_middle);
            vf::label("static_vector.hist.reached_full", nt_full);
            vf::label("static_vector.hist.copy_mutated", nt_copy_mut);
        }
        if (stats > 0) {
            if (nt_middle || nt_full || nt_copy_mut) { vf::nontrivial(vf::digest(k)); }
        }
        return err;
    }
};

// ------------------------------------------------------------------ inplace_vector
enum ICode : std::uint32_t { I_TRY_PUSH_CREF, I_TRY_PUSH_RREF, I_TRY_EMPLACE, I_UNCHECKED_PUSH_CREF, I_UNCHECKED_PUSH_RREF, I_UNCHECKED_EMPLACE, I_POP, I_CLEAR, I_COPY_CTOR_MUTATE, I_MOVE_CTOR, I_OBSERVE, I_WRITE, I_FILL, I_NCODES };
char const* const icode_names[] = {"try_push_back(const&)", "try_push_back(&&)", "try_emplace_back", "unchecked_push_back(const&)", "unchecked_push_back(&&)", "unchecked_emplace_back", "pop_back", "clear",
    "copy-ctor+mutate copy", "move-ctor", "observe", "write through operator[]", "fill to capacity (try_emplace_back until full)"};

template <typename T, std::size_t N>
struct IV {
    using V = etl::inplace_vector<T, N>;
    static constexpr char const* kind = "inplace_vector";

    static auto compare(char const* name, V const& v, Model const& m) -> std::string
    {
        if (v.size() != m.size()) { return std::string(name) + ": size " + std::to_string(v.size()) + " model " + std::to_string(m.size()); }
        if (v.empty() != m.empty()) { return std::string(name) + ": empty() wrong"; }
        if (V::capacity() != N || V::max_size() != N) { return std::string(name) + ": capacity()/max_size() != N"; }
        if (static_cast<std::size_t>(v.end() - v.begin()) != m.size()) { return std::string(name) + ": end()-begin() != size"; }
        if constexpr (N > 0) {
            for (std::size_t i = 0; i < m.size(); ++i) {
                if (lt::val(v[i]) != m[i]) { return std::string(name) + ": element " + std::to_string(i) + " is " + std::to_string(lt::val(v[i])) + " model " + std::to_string(m[i]); }
                if (lt::val(v.data()[i]) != m[i]) { return std::string(name) + ": data()[i] differs"; }
            }
            if (!m.empty() && (lt::val(v.front()) != m.front() || lt::val(v.back()) != m.back())) { return std::string(name) + ": front()/back() wrong"; }
        }
        return "";
    }

    static auto run(OpsCase const& k, int stats) -> std::string
    {
        lt::reset();
        std::string err;
        bool nt_full = false, nt_copy_mut = false, nt_try_full = false;
        {
            struct Sandwich {
                std::uint64_t pre{0xA5A5A5A5A5A5A5A5ULL};
                V a{};
                std::uint64_t mid{0x5A5A5A5A5A5A5A5AULL};
                V b{};
                std::uint64_t post{0xC3C3C3C3C3C3C3C3ULL};
            } sw;
            Model ma, mb;
            for (auto const& op : k.ops) {
                bool tb   = (op.c & 1U) != 0;
                V& x      = tb ? sw.b : sw.a;
                Model& mx = tb ? mb : ma;
                int val   = static_cast<int>((op.c >> 1) % 7) + 1;
                auto code = op.code % I_NCODES;
                bool full = mx.size() == N;
                if (full && (code == I_UNCHECKED_PUSH_CREF || code == I_UNCHECKED_PUSH_RREF || code == I_UNCHECKED_EMPLACE)) { code = I_TRY_PUSH_CREF + (code - I_UNCHECKED_PUSH_CREF); }
                if (mx.empty() && (code == I_POP || code == I_WRITE)) { code = I_TRY_EMPLACE; }
                if (stats > 1) { vf::count((std::string("iop.") + icode_names[code]).c_str()); }
                auto check_ptr = [&](T* p, char const* what) {
                    if (full) {
                        nt_try_full = true;
                        if (p != nullptr) { err = std::string(what) + " on a full vector returned non-null"; }
                    } else {
                        mx.push_back(val);
                        if (p == nullptr) {
                            err = std::string(what) + " returned null although not full";
                        } else if (p != x.data() + (mx.size() - 1)) {
                            err = std::string(what) + " returned a pointer that is not the new last element";
                        } else if (lt::val(*p) != val) {
                            err = std::string(what) + " new element has wrong value";
                        }
                    }
                };
                switch (code) {
                case I_TRY_PUSH_CREF: {
                    T t(val);
                    check_ptr(x.try_push_back(t), "try_push_back(const&)");
                    if (lt::val(t) != val) { err = "try_push_back(lvalue) modified its argument"; }
                    break;
                }
                case I_TRY_PUSH_RREF: {
                    if ((op.c & 2U) != 0) {
                        // a named object offered as rvalue: when the push is refused (null) the caller keeps its object
                        T t(val);
                        bool const was_full = mx.size() == N;
                        check_ptr(x.try_push_back(std::move(t)), "try_push_back(&&)");
                        if (was_full && err.empty() && lt::val(t) != val) { err = "try_push_back(&&) on a full vector returned null but consumed (moved from) the offered object"; }
                    } else {
                        check_ptr(x.try_push_back(T(val)), "try_push_back(&&)");
                    }
                    break;
                }
                case I_TRY_EMPLACE: check_ptr(x.try_emplace_back(val), "try_emplace_back"); break;
                case I_UNCHECKED_PUSH_CREF: {
                    if constexpr (N > 0) {
                        T t(val);
                        T& r = x.unchecked_push_back(t);
                        mx.push_back(val);
                        if (lt::val(t) != val) { err = "unchecked_push_back(lvalue) modified its argument"; }
                        if (&r != x.data() + (mx.size() - 1)) { err = "unchecked_push_back(const&) returned a reference that is not the new last element"; }
                    }
                    break;
                }
                case I_UNCHECKED_PUSH_RREF: {
                    if constexpr (N > 0) {
                        T& r = x.unchecked_push_back(T(val));
                        mx.push_back(val);
                        if (&r != x.data() + (mx.size() - 1)) { err = "unchecked_push_back(&&) returned a reference that is not the new last element"; }
                    }
                    break;
                }
                case I_UNCHECKED_EMPLACE: {
                    if constexpr (N > 0) {
                        T& r = x.unchecked_emplace_back(val);
                        mx.push_back(val);
                        if (&r != x.data() + (mx.size() - 1)) { err = "unchecked_emplace_back returned a reference that is not the new last element"; }
                    }
                    break;
                }
                case I_POP: {
                    if constexpr (N > 0) {
                        x.pop_back();
                        mx.pop_back();
                    }
                    break;
                }
                case I_CLEAR: {
                    x.clear();
                    mx.clear();
                    break;
                }
                case I_FILL: {
                    // histories are short: without this op the large capacities (255 / 256: the size-type boundary) are never full
                    while (mx.size() < N && err.empty()) {
                        T* p = x.try_emplace_back(val);
                        mx.push_back(val);
                        if (p != x.data() + (mx.size() - 1)) { err = "try_emplace_back (fill to capacity) did not return the new last element"; }
                    }
                    break;
                }
                case I_COPY_CTOR_MUTATE: {
                    if constexpr (N > 0) {
                        V c(x);
                        Model mc(mx);
                        if (auto e = compare("copy", c, mc); !e.empty()) { err = "copy constructor: " + e; }
                        if (!mc.empty()) {
                            c[0]  = T(99);
                            mc[0] = 99;
                            c.pop_back();
                            mc.pop_back();
                            nt_copy_mut = true;
                        }
                        if (mc.size() < N) {
                            c.unchecked_push_back(T(98));
                            mc.push_back(98);
                        }
                        if (auto e = compare("mutated copy", c, mc); !e.empty() && err.empty()) { err = e; }
                        if (auto e = compare("source after mutating its copy", x, mx); !e.empty() && err.empty()) { err = e; }
                    }
                    break;
                }
                case I_MOVE_CTOR: {
                    if constexpr (N > 0) {
                        V c(std::move(x));
                        if (auto e = compare("move-constructed", c, mx); !e.empty()) { err = "move constructor: " + e; }
                        // the moved-from source stays a valid object: clear it, then refill from the moved-to object
                        x.clear();
                        for (std::size_t i = 0; i < mx.size(); ++i) { x.unchecked_push_back(T(lt::val(c[i]))); }
                    }
                    break;
                }
                case I_WRITE: {
                    if constexpr (N > 0) {
                        auto i = op.a % mx.size();
                        x[i]   = T(val);
                        mx[i]  = val;
                    }
                    break;
                }
                default: break;
                }
                nt_full |= (mx.size() == N);
                if (err.empty()) { err = compare(tb ? "B" : "A", x, mx); }
                if (err.empty()) { err = compare(tb ? "A" : "B", tb ? sw.a : sw.b, tb ? ma : mb); }
                if (err.empty() && (sw.pre != 0xA5A5A5A5A5A5A5A5ULL || sw.mid != 0x5A5A5A5A5A5A5A5AULL || sw.post != 0xC3C3C3C3C3C3C3C3ULL)) { err = "canary next to the container was overwritten"; }
                if (err.empty() && is_tracked<T> && !lt::violation().empty()) { err = "lifetime: " + lt::violation(); }
                if (!err.empty()) {
                    err = std::string("after ") + icode_names[code] + ": " + err;
                    break;
                }
            }
        }
        if (err.empty() && is_tracked<T>) { err = lt::check_empty(); }
        if (stats > 1) {
            vf::label("inplace_vector.hist.reached_full", nt_full);
            vf::label("inplace_vector.hist.try_on_full", nt_try_full);
        }
        if (stats > 0) {
            if (nt_full || nt_copy_mut || nt_try_full) { vf::nontrivial(vf::digest(k)); }
        }
        return err;
    }
};

// ------------------------------------------------------------------ stack<T, static_vector<T,N>>
enum SCode : std::uint32_t { S_PUSH_CREF, S_PUSH_RREF, S_EMPLACE, S_POP, S_SWAP_MEMBER, S_SWAP_FREE, S_COPY, S_COMPARE, S_CTOR_FROM_CONT, S_NCODES };
char const* const scode_names[] = {"push(const&)", "push(&&)", "emplace", "pop", "swap(member)", "swap(free)", "copy+assign", "compare", "ctor(container)"};

template <typename T, std::size_t N>
struct STK {
    using C = etl::static_vector<T, N>;
    using V = etl::stack<T, C>;
    static constexpr char const* kind = "stack";
    static auto compare(char const* name, V const& v, Model const& m) -> std::string
    {
        if (v.size() != m.size()) { return std::string(name) + ": size " + std::to_string(v.size()) + " model " + std::to_string(m.size()); }
        if (v.empty() != m.empty()) { return std::string(name) + ": empty() wrong"; }
        if (!m.empty() && lt::val(v.top()) != m.back()) { return std::string(name) + ": top() is " + std::to_string(lt::val(v.top())) + " model " + std::to_string(m.back()); }
        // drain a copy to compare every element
        V c(v);
        for (std::size_t i = m.size(); i > 0; --i) {
            if (lt::val(c.top()) != m[i - 1]) { return std::string(name) + ": element " + std::to_string(i - 1) + " differs"; }
            c.pop();
        }
        if (!c.empty()) { return std::string(name) + ": drained copy not empty"; }
        return "";
    }
    static auto run(OpsCase const& k, int stats) -> std::string
    {
        lt::reset();
        std::string err;
        bool nt_full = false;
        {
            V a, b;
            Model ma, mb;
            for (auto const& op : k.ops) {
                bool tb   = (op.c & 1U) != 0;
                V& x      = tb ? b : a;
                V& y      = tb ? a : b;
                Model& mx = tb ? mb : ma;
                Model& my = tb ? ma : mb;
                int val   = static_cast<int>((op.c >> 1) % 7) + 1;
                auto code = op.code % S_NCODES;
                if (mx.size() == N && code <= S_EMPLACE) { code = mx.empty() ? S_COMPARE : S_POP; }
                if (mx.empty() && code == S_POP) { code = N > 0 ? S_PUSH_CREF : S_COMPARE; }
                if (stats > 1) { vf::count((std::string("sop.") + scode_names[code]).c_str()); }
                switch (code) {
                case S_PUSH_CREF: {
                    T t(val);
                    x.push(t);
                    mx.push_back(val);
                    if (lt::val(t) != val) { err = "push(lvalue) modified its argument"; }
                    break;
                }
                case S_PUSH_RREF: x.push(T(val)); mx.push_back(val); break;
                case S_EMPLACE: x.emplace(val); mx.push_back(val); break;
                case S_POP: x.pop(); mx.pop_back(); break;
                case S_SWAP_MEMBER: x.swap(y); mx.swap(my); break;
                case S_SWAP_FREE: {
                    using etl::swap;
                    swap(x, y);
                    mx.swap(my);
                    break;
                }
                case S_COPY: {
                    V c(x);
                    if (auto e = compare("copy", c, mx); !e.empty()) { err = e; }
                    y.swap(c); // (stack declares a move constructor and no assignment operators: not assignable on this tree)
                    my = mx;
                    break;
                }
                case S_COMPARE: {
                    V const& cx = x;
                    V const& cy = y;
                    if ((cx == cy) != (mx == my) || (cx != cy) != (mx != my) || (cx < cy) != (mx < my) || (cx <= cy) != (mx <= my) || (cx > cy) != (mx > my) || (cx >= cy) != (mx >= my)) {
                        err = "relational operators differ from std::vector";
                    }
                    break;
                }
                case S_CTOR_FROM_CONT: {
                    auto n = pick(op.b, N);
                    C cont;
                    Model mc;
                    for (std::size_t i = 0; i < n; ++i) {
                        cont.push_back(T(val + static_cast<int>(i)));
                        mc.push_back(val + static_cast<int>(i));
                    }
                    V s1(cont);
                    V s2(std::move(cont));
                    if (auto e = compare("stack(cont const&)", s1, mc); !e.empty()) { err = e; }
                    if (auto e = compare("stack(cont&&)", s2, mc); !e.empty() && err.empty()) { err = e; }
                    y.swap(s2);
                    my = mc;
                    break;
                }
                default: break;
                }
                nt_full |= mx.size() == N;
                if (err.empty()) { err = compare(tb ? "B" : "A", x, mx); }
                if (err.empty()) { err = compare(tb ? "A" : "B", y, my); }
                if (err.empty() && is_tracked<T> && !lt::violation().empty()) { err = "lifetime: " + lt::violation(); }
                if (!err.empty()) {
                    err = std::string("after ") + scode_names[code] + ": " + err;
                    break;
                }
            }
        }
        if (err.empty() && is_tracked<T>) { err = lt::check_empty(); }
        if (stats > 1) { vf::label("stack.hist.reached_full", nt_full); }
        if (stats > 0) {
            if (nt_full) { vf::nontrivial(vf::digest(k)); }
        }
        return err;
    }
};


// ------------------------------------------------------------------ emplace forwards its arguments to a constructor call T(args...)
// (not to list-initialisation): an element type for which T(a, b) and T{a, b} differ
struct IL {
    int v{0};
    IL() = default;
    IL(int a, int b) : v{a * 10 + b} { }
    IL(std::initializer_list<int> l) : v{-static_cast<int>(l.size())} { }
};
struct EmpCase {
    int which;
    int a, b;
};
auto show_case(EmpCase const& k) -> std::string { return std::to_string(k.which) + " " + std::to_string(k.a) + " " + std::to_string(k.b); }
auto run_emplace(EmpCase const& k) -> std::string
{
    std::vector<IL> m;
    m.emplace_back(k.a, k.b);
    int expect = m.back().v;
    int got    = 0;
    char const* what = "";
    switch (k.which) {
    case 0: {
        etl::static_vector<IL, 4> v;
        v.emplace_back(k.a, k.b);
        got  = v.back().v;
        what = "static_vector::emplace_back(a,b)";
        break;
    }
    case 1: {
        etl::static_vector<IL, 4> v;
        v.emplace_back(0, 0);
        auto it = v.emplace(v.begin(), k.a, k.b);
        got     = it->v;
        what    = "static_vector::emplace(pos,a,b)";
        break;
    }
    case 2: {
        etl::inplace_vector<IL, 4> v{};
        auto* p = v.try_emplace_back(k.a, k.b);
        got     = p != nullptr ? p->v : -99;
        what    = "inplace_vector::try_emplace_back(a,b)";
        break;
    }
    case 3: {
        etl::inplace_vector<IL, 4> v{};
        got  = v.unchecked_emplace_back(k.a, k.b).v;
        what = "inplace_vector::unchecked_emplace_back(a,b)";
        break;
    }
    default: {
        etl::stack<IL, etl::static_vector<IL, 4>> st;
        st.emplace(k.a, k.b);
        got  = st.top().v;
        what = "stack::emplace(a,b)";
        break;
    }
    }
    if (got != expect) { return std::string(what) + " constructed the element with value " + std::to_string(got) + ", std::vector::emplace_back(a,b) gives " + std::to_string(expect) + " (constructor call vs list-initialisation)"; }
    return "";
}

// ------------------------------------------------------------------ configuration table
struct Config {
    char const* name;
    std::string (*run)(OpsCase const&, int);
    std::uint32_t ncodes;
    int kind; // 0 static_vector, 1 inplace_vector, 2 stack
    std::size_t cap;
};
// The configuration table (and with it the cfg ids in case strings) is the same in every build; -DC01_PART=k compiles
// only one third of the instantiations (run == nullptr for the others) so that the three parts build in parallel.
#if !defined(C01_PART)
    #define C01_PART (-1)
#endif
#define IN_PART(k) (C01_PART == -1 || C01_PART == (k))
template <typename R, bool On>
constexpr auto pick_run() -> std::string (*)(OpsCase const&, int)
{
    if constexpr (On) {
        return &R::run;
    } else {
        return nullptr;
    }
}
#define SVC(T, N, part) Config{"static_vector<" #T "," #N ">", IN_PART(part) ? pick_run<SV<T, N>, IN_PART(part)>() : nullptr, NCODES, 0, N}
#define IVC(T, N, part) Config{"inplace_vector<" #T "," #N ">", IN_PART(part) ? pick_run<IV<T, N>, IN_PART(part)>() : nullptr, I_NCODES, 1, N}
#define STC(T, N, part) Config{"stack<" #T ",static_vector<" #T "," #N ">>", IN_PART(part) ? pick_run<STK<T, N>, IN_PART(part)>() : nullptr, S_NCODES, 2, N}
using TCM = lt::TCM;
Config const configs[] = {
    SVC(int, 0, 0), SVC(int, 1, 0), SVC(int, 2, 0), SVC(int, 4, 0), SVC(int, 16, 0), SVC(int, 255, 0), SVC(int, 256, 0),
    SVC(TCM, 0, 1), SVC(TCM, 1, 1), SVC(TCM, 2, 1), SVC(TCM, 4, 1), SVC(TCM, 16, 1), SVC(TCM, 255, 1), SVC(TCM, 256, 1),
    IVC(int, 0, 2), IVC(int, 1, 2), IVC(int, 2, 2), IVC(int, 4, 2), IVC(int, 255, 2), IVC(int, 256, 2),
    IVC(TCM, 0, 2), IVC(TCM, 1, 2), IVC(TCM, 2, 2), IVC(TCM, 4, 2), IVC(TCM, 255, 2), IVC(TCM, 256, 2),
    STC(int, 1, 2), STC(int, 4, 2), STC(TCM, 1, 2), STC(TCM, 4, 2), STC(int, 0, 2),
};
constexpr std::uint32_t nconfigs = sizeof(configs) / sizeof(configs[0]);

auto run_case(OpsCase const& k, int stats) -> std::string
{
    auto const& cfg = configs[k.cfg % nconfigs];
    if (cfg.run == nullptr) { return "configuration is not part of this build (wrong C01_PART for this replay)"; }
    auto d          = cfg.run(k, stats);
    return d.empty() ? d : std::string(cfg.name) + ": " + d;
}

auto describe(OpsCase const& k) -> std::string
{
    auto const& cfg = configs[k.cfg % nconfigs];
    std::string s   = std::string(cfg.name) + " :";
    for (auto const& o : k.ops) {
        char const* n = cfg.kind == 0 ? code_names[o.code % NCODES] : cfg.kind == 1 ? icode_names[o.code % I_NCODES] : scode_names[o.code % S_NCODES];
        s += " " + std::string(n) + "[" + std::to_string(o.a) + "," + std::to_string(o.b) + "," + std::to_string(o.c) + "]";
    }
    return s;
}

} // namespace

void vf_run(vf::Ctx& c)
{
    // E2: all histories of depth 3 (thorough 4) over a concrete alphabet, capacities 0,1,2 (both element types, all kinds)
    {
        int depth = c.thorough() ? 4 : 3;
        for (std::uint32_t ci = 0; ci < nconfigs; ++ci) {
            auto const& cfg = configs[ci];
            if (cfg.cap > 2 || cfg.run == nullptr) { continue; }
            std::vector<RawOp> alpha;
            for (std::uint32_t code = 0; code < cfg.ncodes; ++code) {
                // two argument shapes per op: (pos 0 / n small / target A) and (pos end / n max / target B)
                alpha.push_back(RawOp{code, 0, 1, 2});
                alpha.push_back(RawOp{code, 1, 2, 5});
            }
            vf::enum_histories(ci, alpha, depth, [&](OpsCase const& k) {
                vf::Flight<OpsCase> fl("enum_histories", k);
                vf::eval("enum_histories");
                auto d = run_case(k, 1);
                if (!d.empty()) { vf::mismatch("enum_histories", k, d); }
            });
        }
    }
    if (IN_PART(2) && c.shard == 0) {
        for (int which = 0; which < 5; ++which) {
            for (int a = 0; a < 4; ++a) {
                for (int b = 0; b < 4; ++b) {
                    EmpCase k{which, a, b};
                    vf::Flight<EmpCase> fl("emplace_forwarding", k);
                    vf::eval("emplace_forwarding");
                    auto d = run_emplace(k);
                    if (!d.empty()) {
                        vf::mismatch("emplace_forwarding", k, d);
                        return;
                    }
                    vf::nontrivial(vf::mix(vf::mix(vf::mix(991ULL, which), a), b));
                }
            }
        }
    }
    // E1: random histories, every configuration
    int per_cfg = c.thorough() ? 8000 : 1200;
    for (std::uint32_t ci = 0; ci < nconfigs; ++ci) {
        auto const& cfg = configs[ci];
        if (cfg.run == nullptr) { continue; }
        auto gen        = rc::gen::map(vf::gen_history(1, cfg.ncodes, 40), [ci](OpsCase k) {
            k.cfg = ci;
            return k;
        });
        // keep the shrinker: map() preserves shrinks of the inner generator
        std::string sub = std::string("histories/") + cfg.name;
        vf::rc_check<OpsCase>(sub.c_str(), gen, per_cfg, 100, [&](OpsCase const& k) {
            vf::eval("histories");
            auto d = run_case(k, 2);
            if (k.ops.size() >= 6) { vf::sample("histories", [&] { return describe(k); }); }
            return d;
        });
    }
}

std::string vf_replay(std::string const& sub, std::string const& cs)
{
    if (sub == "emplace_forwarding") {
        EmpCase k{0, 0, 0};
        std::sscanf(cs.c_str(), "%d %d %d", &k.which, &k.a, &k.b);
        vf::Flight<EmpCase> fl("emplace_forwarding", k);
        return run_emplace(k);
    }
    auto k = vf::parse_ops(cs);
    vf::Flight<OpsCase> fl("replay", k);
    std::fprintf(stderr, "replaying: %s\n", describe(k).c_str());
    return run_case(k, 0);
}
