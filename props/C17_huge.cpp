// C17 (thorough tier only) — etl::bitset with more than 2^31 bits: count() / all() / any() / none() after whole-set
// operations must not overflow a narrower accumulator.  One object of 2^31 + 1 bits (256 MiB) on the heap; the expected
// values are known exactly (set() -> N, then one bit cleared -> N - 1 = 2^31, ...), so no second 256 MiB oracle object
// is needed.  Built `fast` (-O2, UBSan, no ASan): the loops run over 33.5 M words.
#include <etl/bitset.hpp>

#include "verif.hpp"

#include <memory>

namespace {

struct Case {
    int step;
};
auto show_case(Case const& k) -> std::string { return std::to_string(k.step); }

constexpr std::size_t N = (std::size_t{1} << 31) + 1;
using Huge              = etl::bitset<N>;

auto expect(Huge const& b, std::size_t count, char const* what) -> std::string
{
    bool const all = count == N, any = count != 0;
    char buf[256];
    if (b.count() != count) {
        std::snprintf(buf, sizeof buf, "bitset<2^31+1> %s: count() is %zu, expected %zu", what, b.count(), count);
        return buf;
    }
    if (b.all() != all || b.any() != any || b.none() != !any) {
        std::snprintf(buf, sizeof buf, "bitset<2^31+1> %s: all/any/none are %d/%d/%d, expected %d/%d/%d", what, b.all() ? 1 : 0, b.any() ? 1 : 0, b.none() ? 1 : 0, all ? 1 : 0, any ? 1 : 0, any ? 0 : 1);
        return buf;
    }
    if (b.size() != N) { return "bitset<2^31+1>: size() wrong"; }
    return "";
}

auto run_steps(int upto) -> std::string
{
    auto p  = std::make_unique<Huge>();
    Huge& b = *p;
    std::string e;
    auto step = [&](int i, auto&& f, std::size_t count, char const* what) {
        if (!e.empty() || i > upto) { return; }
        f();
        e = expect(b, count, what);
        if (!e.empty()) { e = "step " + std::to_string(i) + ": " + e; }
    };
    step(0, [] {}, 0, "default-constructed");
    step(1, [&] { b.flip(); }, N, "after flip()");
    step(2, [&] { b.reset(N - 1); }, N - 1, "after flip(), reset(N-1)  (exactly 2^31 bits set)");
    step(3, [&] { b.reset(0).reset(64).reset(N - 2); }, N - 4, "after three more single-bit resets");
    step(4, [&] { b.set(); }, N, "after set()");
    step(5, [&] { b.flip(); }, 0, "after set(), flip()");
    step(6, [&] { b.set(N - 1).set(0); }, 2, "after set(N-1), set(0)");
    step(7, [&] { b.flip(); }, N - 2, "after flip()"); // (operator~ returns by value: a 256 MiB temporary on the stack is not a valid use)
    step(8, [&] { b |= b; b &= b; }, N - 2, "after b |= b, b &= b");
    step(9, [&] { b ^= b; }, 0, "after b ^= b");
    return e;
}

} // namespace

void vf_run(vf::Ctx& c)
{
    if (!c.thorough() || c.shard != 0) { return; }
    Case k{9};
    vf::Flight<Case> fl("huge", k);
    vf::eval("huge", 10);
    vf::nontrivial_count(10);
    auto d = run_steps(9);
    if (!d.empty()) { vf::mismatch("huge", k, d); }
}

std::string vf_replay(std::string const&, std::string const& cs)
{
    Case k{std::atoi(cs.c_str())};
    vf::Flight<Case> fl("replay", k);
    return run_steps(k.step);
}
