// C07 (variant part) — etl::variant tracks the same active index / value as std::variant driven by the same history.
// Engines: E2 exhaustive (from-state, to-state) x op x query enumeration, E1 rapidcheck histories (<= 25 ops, shrinking).
// Oracle: std::variant<...> stepped in lock-step (index() and value after every op, result of every query); the visitor
// logs (index..., value...) and must be called exactly once with the active alternative(s).
// Masked as unspecified: the *value* of a moved-from alternative (the index of a moved-from variant is specified: unchanged).
//
// Catalogue (probed with small test compiles against this tree, g++ 12 -std=c++20):
//   exist + checked here : variant(), variant(T&&) [exact alternative types, lvalue/rvalue; short->int for <int,char>],
//                          variant(in_place_index<I>, v), variant(in_place_type<T>, v), copy/move ctor, copy/move assignment,
//                          self copy-assignment, operator=(T&&), v = get<index>(v), construction / assignment from types that
//                          are no alternative (short, signed/unsigned char, bool, unscoped enum, char, long, unsigned, double;
//                          compared only where etl and std both accept the type), emplace<I>(v), emplace<T>(v), emplace<I>() [value-init],
//                          etl::swap / ADL swap (generic 3-move swap), index(), holds_alternative<T>, get_if<I>/get_if<T>
//                          (const and non-const), unchecked_get<I> (&, const&, &&, const&&), operator[](index_v<I>) (same 4),
//                          visit(f) without variants, visit(f, v) (lvalue / const / rvalue / const rvalue), visit(f, v, w), visit(f, v, w, u), visit_with_index,
//                          operator== != < <= > >= (!= through the C++20 rewrite of ==), also over variant<int,double> with NaN.
//   do NOT exist / do not compile on this tree (not part of the check): variant::swap member, get<I>/get<T> (throwing
//                          accessors), unchecked_get<T>, visit<R>, valueless_by_exception, variant_npos, hash<variant>,
//                          source types for which etl finds no unique alternative (e.g. variant<int,char>(1L)) - a source type is
//                          compared only where both libraries accept it.
//   visit / visit_with_index over variant lists of different sizes ((2,3) (3,2) (2,3,2) (1,4) (4,1) (3,4)), every index tuple,
//                          lvalue / const / rvalue variants, void and reference-returning visitors (visit<R> does not exist);
//   a class publicly derived from variant driven through visit / visit_with_index / get_if / holds_alternative / unchecked_get /
//                          operator[] / assignment / emplace / swap (std::visit supports derived variants: P2162);
//   further configurations: variant<NonTriv,int,NonTriv,int> (duplicated alternative types, index-based operations only),
//                          converting construction / assignment from non-arithmetic sources into variants holding bool.
// Exclusion tags understood by the generator (for known findings, none recorded at the time of writing):
//   variant.assign_own_alternative (v = get<index>(v)), variant.converting_narrowing (long / unsigned / double sources).
#include <etl/string.hpp>
#include <etl/string_view.hpp>
#include <etl/utility.hpp>
#include <etl/variant.hpp>

#include "rc.hpp"
#include "tracked.hpp"

#include <array>
#include <functional>
#include <limits>
#include <tuple>
#include <utility>
#include <variant>

namespace {

using vf::OpsCase;
using vf::RawOp;
namespace lt = vf::lt;
using TCM   = lt::TCM;

// ------------------------------------------------------------------ alternative types
struct Small { // trivially copyable, 1 byte
    signed char v{0};
    Small() = default;
    explicit Small(int x) noexcept : v(static_cast<signed char>(x)) { }
    friend auto operator==(Small a, Small b) noexcept -> bool { return a.v == b.v; }
    friend auto operator!=(Small a, Small b) noexcept -> bool { return a.v != b.v; }
    friend auto operator<(Small a, Small b) noexcept -> bool { return a.v < b.v; }
    friend auto operator<=(Small a, Small b) noexcept -> bool { return a.v <= b.v; }
    friend auto operator>(Small a, Small b) noexcept -> bool { return a.v > b.v; }
    friend auto operator>=(Small a, Small b) noexcept -> bool { return a.v >= b.v; }
};
struct Mt { // stands for TCM inside the std::variant model (same implicit conversion from int, same ordering)
    int v{0};
    Mt() = default;
    Mt(int x) noexcept : v(x) { } // NOLINT implicit like TCM
    friend auto operator==(Mt a, Mt b) noexcept -> bool { return a.v == b.v; }
    friend auto operator!=(Mt a, Mt b) noexcept -> bool { return a.v != b.v; }
    friend auto operator<(Mt a, Mt b) noexcept -> bool { return a.v < b.v; }
    friend auto operator<=(Mt a, Mt b) noexcept -> bool { return a.v <= b.v; }
    friend auto operator>(Mt a, Mt b) noexcept -> bool { return a.v > b.v; }
    friend auto operator>=(Mt a, Mt b) noexcept -> bool { return a.v >= b.v; }
};
inline auto val(int x) -> int { return x; }
inline auto val(short x) -> int { return x; }
inline auto val(char x) -> int { return static_cast<int>(x); }
inline auto val(Small x) -> int { return x.v; }
inline auto val(Mt const& x) -> int { return x.v; }
inline auto val(TCM const& x) -> int { return x.get(); }

template <typename A>
using model_t = std::conditional_t<std::is_same_v<A, TCM>, Mt, A>;

template <typename... Ts>
struct TL { };
template <typename A, typename... Ts>
constexpr auto idx_in(TL<Ts...> /*l*/) -> int
{
    using D = std::remove_cvref_t<A>;
    int r = -1, i = 0;
    ((std::is_same_v<model_t<D>, model_t<Ts>> ? (r = i, ++i) : ++i), ...);
    return r;
}

template <std::size_t N, typename F>
void with_index(std::size_t k, F&& f)
{
    [&]<std::size_t... I>(std::index_sequence<I...>) { ((k == I ? (f(std::integral_constant<std::size_t, I>{}), 0) : 0), ...); }(std::make_index_sequence<N>{});
}

template <typename O>
struct Slot { // in-place storage so that constructor forms build X / Y directly (no extra assignment)
    alignas(O) unsigned char buf[sizeof(O)];
    O* p{nullptr};
    template <typename... A>
    auto make(A&&... a) -> O&
    {
        if (p != nullptr) { p->~O(); }
        p = ::new (static_cast<void*>(buf)) O(std::forward<A>(a)...);
        return *p;
    }
    Slot() = default;
    Slot(Slot const&)                    = delete;
    auto operator=(Slot const&) -> Slot& = delete;
    ~Slot()
    {
        if (p != nullptr) { p->~O(); }
    }
};

struct Log { // what a visitor saw
    int calls{0};
    std::array<int, 3> idx{-1, -1, -1};
    std::array<int, 3> v{0, 0, 0};
    auto str() const -> std::string
    {
        return "calls=" + std::to_string(calls) + " idx=(" + std::to_string(idx[0]) + "," + std::to_string(idx[1]) + "," + std::to_string(idx[2]) + ") val=(" + std::to_string(v[0]) + ","
             + std::to_string(v[1]) + "," + std::to_string(v[2]) + ")";
    }
};

enum Code : std::uint32_t {
    C_DEFAULT, C_CONV_L, C_CONV_R, C_INPLACE_INDEX, C_INPLACE_TYPE, C_COPY, C_MOVE, C_CONV_PROMOTE,
    A_COPY, A_MOVE, A_SELF, A_CONV_L, A_CONV_R, A_CONV_ALIAS, C_CONV_OTHER, A_CONV_OTHER, EMPLACE_INDEX, EMPLACE_TYPE, EMPLACE_DEFAULT, SWAP_FREE, SWAP_SELF, WRITE_THROUGH,
    Q_HOLDS, Q_GET_IF, Q_UNCHECKED_GET, Q_SUBSCRIPT, Q_VISIT1, Q_VISIT2, Q_VISIT2_Z, Q_VISIT3, Q_VISIT_INDEX, Q_REL, OBSERVE,
    NCODES
};
constexpr std::uint32_t FIRST_QUERY = Q_HOLDS;
char const* const code_names[] = {"variant()", "variant(T const&)", "variant(T&&)", "variant(in_place_index<I>,v)", "variant(in_place_type<T>,v)", "variant(variant const&)", "variant(variant&&)",
    "variant(short)", "copy-assign", "move-assign", "self copy-assign", "operator=(T const&)", "operator=(T&&)", "x = get<index>(x)", "variant(S) S not an alternative", "operator=(S) S not an alternative", "emplace<I>(v)", "emplace<T>(v)", "emplace<I>()", "swap(x,y)", "swap(x,x)",
    "write through accessor", "holds_alternative", "get_if", "unchecked_get", "operator[]", "visit(f,x)", "visit(f,x,y)", "visit(f,x,z)/(f,z,x)", "visit(f,x,y,z)", "visit_with_index", "relational",
    "observe"};

constexpr int NVAL = 4; // value domain of random histories {0,1,2,3}; the enumeration uses {0,1,2}

template <typename... As>
struct Cfg {
    using EV = etl::variant<As...>;
    using MV = std::variant<model_t<As>...>;
    using XL = TL<As...>;
    static constexpr std::size_t N = sizeof...(As);
    template <std::size_t I>
    using alt = std::tuple_element_t<I, std::tuple<As...>>;
    static constexpr bool has_tracked = (std::is_same_v<As, TCM> || ...);

    // the third, differently-shaped variant for visit(f, x, z)
    using ZV = etl::variant<Small, int, char>;
    using ZM = std::variant<Small, int, char>;
    using ZL = TL<Small, int, char>;

    struct M {
        MV v;
        bool masked{false}; // value of the active alternative is unspecified (a moved-from NonTriv)
    };
    // moving from a trivially copyable alternative cannot change it ([variant.ctor]/[variant.assign] move get<j>(rhs));
    // only the value of a moved-from NonTriv is unspecified
    static auto holds_nontriv(MV const& m) -> bool
    {
        if constexpr (has_tracked) {
            return std::holds_alternative<Mt>(m);
        } else {
            return false;
        }
    }
    struct St {
        int count{0};
        std::size_t idx{0};
        int v{0};
    };
    static auto read(EV const& x) -> St
    {
        St s;
        [&]<std::size_t... I>(std::index_sequence<I...>) { ((etl::get_if<I>(&x) != nullptr ? (++s.count, s.idx = I, s.v = val(*etl::get_if<I>(&x)), 0) : 0), ...); }(std::make_index_sequence<N>{});
        return s;
    }
    static auto mval(MV const& m) -> int
    {
        return std::visit([](auto const& a) { return val(a); }, m);
    }
    static auto compare(char const* name, EV const& x, M const& m) -> std::string
    {
        if (x.index() != m.v.index()) { return std::string(name) + ": index() is " + std::to_string(x.index()) + ", std::variant has " + std::to_string(m.v.index()); }
        auto s = read(x);
        if (s.count != 1) { return std::string(name) + ": get_if<I> is non-null for " + std::to_string(s.count) + " alternatives"; }
        if (s.idx != x.index()) { return std::string(name) + ": get_if<" + std::to_string(s.idx) + "> is non-null while index() is " + std::to_string(x.index()); }
        if (!m.masked && s.v != mval(m.v)) { return std::string(name) + ": alternative " + std::to_string(s.idx) + " holds " + std::to_string(s.v) + ", std::variant holds " + std::to_string(mval(m.v)); }
        return "";
    }

    static auto run(OpsCase const& k, int stats) -> std::string
    {
        lt::reset();
        std::string err;
        bool nt = false, transitioned = false, q_masked = false, cmp_same_index = false, cmp_diff_index = false, visit2_diff = false;
        {
            struct Sandwich {
                std::uint64_t pre{0xA5A5A5A5A5A5A5A5ULL};
                Slot<EV> a;
                std::uint64_t mid{0x5A5A5A5A5A5A5A5AULL};
                Slot<EV> b;
                std::uint64_t post{0xC3C3C3C3C3C3C3C3ULL};
            } sw;
            sw.a.make();
            sw.b.make();
            M ma{}, mb{};
            for (auto const& op : k.ops) {
                bool tb = (op.c & 1U) != 0;
                Slot<EV>& sx = tb ? sw.b : sw.a;
                Slot<EV>& sy = tb ? sw.a : sw.b;
                M& mx      = tb ? mb : ma;
                M& my      = tb ? ma : mb;
                int v      = static_cast<int>((op.c >> 1) % NVAL);
                auto kalt  = static_cast<std::size_t>(op.a % N);
                auto code  = op.code % NCODES;
                auto xi0 = mx.v.index(), yi0 = my.v.index();
                // re-map what is impossible here
                if (code == C_CONV_PROMOTE && !std::is_same_v<EV, etl::variant<int, char>>) { code = C_CONV_R; }
                // exclusion tags (only used if one of the two defects found here is recorded as a known finding instead of
                // being repaired): narrow the generator to exactly the defective class
                auto conv_src = op.a % 9;
                if (code == A_CONV_ALIAS && vf::ctx().excluded("variant.assign_own_alternative")) {
                    vf::excluded_known("variant.assign_own_alternative");
                    code = A_SELF;
                }
                if ((code == C_CONV_OTHER || code == A_CONV_OTHER) && conv_src >= 6 && vf::ctx().excluded("variant.converting_narrowing")) {
                    vf::excluded_known("variant.converting_narrowing");
                    conv_src -= 6;
                }
                if (stats > 1) { vf::count((std::string("op.") + code_names[code]).c_str()); }
                bool is_query = code >= FIRST_QUERY && code != OBSERVE;
                if (is_query && (mx.masked || ((code == Q_VISIT2 || code == Q_VISIT3 || code == Q_REL) && my.masked))) { q_masked = true; }
                EV& x = *sx.p;
                EV& y = *sy.p;
                auto set_model = [&](auto I, int value) {
                    mx.v.template emplace<decltype(I)::value>(model_t<alt<decltype(I)::value>>(value));
                    mx.masked = false;
                };
                switch (code) {
                case C_DEFAULT: {
                    sx.make();
                    mx = M{};
                    break;
                }
                case C_CONV_L: {
                    with_index<N>(kalt, [&](auto I) {
                        using A = alt<decltype(I)::value>;
                        A t(v);
                        sx.make(std::as_const(t));
                        mx.v      = MV(model_t<A>(v));
                        mx.masked = false;
                        if (val(t) != v) { err = "variant(T const&) modified its argument"; }
                    });
                    break;
                }
                case C_CONV_R: {
                    with_index<N>(kalt, [&](auto I) {
                        using A = alt<decltype(I)::value>;
                        sx.make(A(v));
                        mx.v      = MV(model_t<A>(v));
                        mx.masked = false;
                    });
                    break;
                }
                case C_CONV_PROMOTE: {
                    if constexpr (std::is_same_v<EV, etl::variant<int, char>>) {
                        short s = static_cast<short>(v);
                        sx.make(s);
                        mx.v      = MV(s);
                        mx.masked = false;
                    }
                    break;
                }
                case C_INPLACE_INDEX: {
                    with_index<N>(kalt, [&](auto I) {
                        sx.make(etl::in_place_index<decltype(I)::value>, v);
                        mx.v      = MV(std::in_place_index<decltype(I)::value>, v);
                        mx.masked = false;
                    });
                    break;
                }
                case C_INPLACE_TYPE: {
                    with_index<N>(kalt, [&](auto I) {
                        using A = alt<decltype(I)::value>;
                        sx.make(etl::in_place_type<A>, v);
                        mx.v      = MV(std::in_place_type<model_t<A>>, v);
                        mx.masked = false;
                    });
                    break;
                }
                case C_COPY: {
                    if ((op.b & 1U) != 0) {
                        sx.make(y); // non-const lvalue: must not be captured by variant(T&&)
                    } else {
                        sx.make(std::as_const(y));
                    }
                    mx = my;
                    break;
                }
                case C_MOVE: {
                    sx.make(std::move(y));
                    mx        = my;
                    my.masked = holds_nontriv(my.v); // index of the source is specified (unchanged), a NonTriv value is not
                    break;
                }
                case A_COPY: {
                    if ((op.b & 1U) != 0) {
                        x = y; // non-const lvalue: must not be captured by operator=(T&&)
                    } else {
                        x = std::as_const(y);
                    }
                    mx = my;
                    break;
                }
                case A_MOVE: {
                    x         = std::move(y);
                    mx        = my;
                    my.masked = holds_nontriv(my.v);
                    break;
                }
                case A_SELF: {
                    EV const& alias = x;
                    x               = alias;
                    break;
                }
                case A_CONV_L: {
                    with_index<N>(kalt, [&](auto I) {
                        using A = alt<decltype(I)::value>;
                        A t(v);
                        x = std::as_const(t);
                        set_model(I, v);
                        if (val(t) != v) { err = "operator=(T const&) modified its argument"; }
                    });
                    break;
                }
                case A_CONV_R: {
                    with_index<N>(kalt, [&](auto I) {
                        using A = alt<decltype(I)::value>;
                        x       = A(v);
                        set_model(I, v);
                    });
                    break;
                }
                case A_CONV_ALIAS: {
                    // v = get<i>(v) with i == index(): [variant.assign] assigns the value to itself, the state is unchanged
                    with_index<N>(mx.v.index(), [&](auto I) {
                        constexpr auto i = decltype(I)::value;
                        x                = std::as_const(etl::unchecked_get<i>(x));
                        auto copy        = std::get<i>(mx.v);
                        mx.v             = std::as_const(copy);
                    });
                    break;
                }
                case C_CONV_OTHER:
                case A_CONV_OTHER: {
                    // source types that are no alternative: the alternative is chosen by overload resolution; compared only
                    // where both etl and std accept the type (std adds the P0608 narrowing rule)
                    auto one = [&](auto s) {
                        using S = decltype(s);
                        if constexpr (std::is_constructible_v<EV, S> && std::is_constructible_v<MV, S> && std::is_assignable_v<EV&, S> && std::is_assignable_v<MV&, S>) {
                            if (code == C_CONV_OTHER) {
                                sx.make(S(s));
                                mx.v = MV(S(s));
                            } else {
                                x    = S(s);
                                mx.v = S(s);
                            }
                            mx.masked = false;
                        }
                    };
                    enum Plain { plain_zero, plain_one, plain_two, plain_three }; // unscoped: promotes to int
                    switch (conv_src) {
                    case 0: one(static_cast<short>(v)); break;
                    case 1: one(static_cast<signed char>(v)); break;
                    case 2: one(static_cast<unsigned char>(v)); break;
                    case 3: one(v != 0); break;
                    case 4: one(static_cast<Plain>(v)); break;
                    case 5: one(static_cast<char>(v)); break;
                    case 6: one(static_cast<long>(v)); break;     // long -> int is narrowing: std never picks int (P0608)
                    case 7: one(static_cast<unsigned>(v)); break; // unsigned -> int is narrowing
                    default: one(static_cast<double>(v)); break;  // double -> int is narrowing
                    }
                    break;
                }
                case EMPLACE_INDEX: {
                    with_index<N>(kalt, [&](auto I) {
                        constexpr auto i = decltype(I)::value;
                        auto& r          = x.template emplace<i>(v);
                        static_assert(std::is_same_v<decltype(r), alt<i>&>);
                        set_model(I, v);
                        if (static_cast<void const*>(&r) != static_cast<void const*>(etl::get_if<i>(&x))) { err = "emplace<I> returned a reference that is not the new alternative"; }
                    });
                    break;
                }
                case EMPLACE_TYPE: {
                    with_index<N>(kalt, [&](auto I) {
                        constexpr auto i = decltype(I)::value;
                        using A          = alt<i>;
                        A& r             = x.template emplace<A>(v);
                        set_model(I, v);
                        if (static_cast<void const*>(&r) != static_cast<void const*>(etl::get_if<i>(&x))) { err = "emplace<T> returned a reference that is not the new alternative"; }
                    });
                    break;
                }
                case EMPLACE_DEFAULT: {
                    with_index<N>(kalt, [&](auto I) {
                        constexpr auto i = decltype(I)::value;
                        x.template emplace<i>();
                        mx.v.template emplace<i>();
                        mx.masked = false;
                    });
                    break;
                }
                case SWAP_FREE: {
                    if ((op.b & 1U) != 0) {
                        etl::swap(x, y);
                    } else {
                        using etl::swap;
                        swap(x, y);
                    }
                    mx.v.swap(my.v);
                    std::swap(mx.masked, my.masked);
                    break;
                }
                case SWAP_SELF: {
                    etl::swap(x, x); // std::swap(v, v) leaves v unchanged
                    break;
                }
                case WRITE_THROUGH: {
                    with_index<N>(mx.v.index(), [&](auto I) {
                        constexpr auto i = decltype(I)::value;
                        using A          = alt<i>;
                        switch (op.b % 3) {
                        case 0: etl::unchecked_get<i>(x) = A(v); break;
                        case 1: *etl::get_if<i>(&x) = A(v); break;
                        default: x[etl::index_v<i>] = A(v); break;
                        }
                        set_model(I, v);
                    });
                    break;
                }
                case Q_HOLDS: {
                    bool ok = true;
                    ((ok = ok && (etl::holds_alternative<As>(std::as_const(x)) == std::holds_alternative<model_t<As>>(mx.v))), ...);
                    if (!ok) { err = "holds_alternative<T> differs from std::holds_alternative"; }
                    break;
                }
                case Q_GET_IF: {
                    [&]<std::size_t... I>(std::index_sequence<I...>) {
                        auto one = [&](auto J) {
                            constexpr auto i = decltype(J)::value;
                            using A          = alt<i>;
                            A* p             = etl::get_if<i>(&x);
                            A const* cp      = etl::get_if<i>(&std::as_const(x));
                            A* tp            = etl::get_if<A>(&x);
                            A const* ctp     = etl::get_if<A>(&std::as_const(x));
                            auto const* mp   = std::get_if<i>(&mx.v);
                            if ((p != nullptr) != (mp != nullptr)) {
                                err = "get_if<" + std::to_string(i) + "> is " + (p != nullptr ? "non-null" : "null") + ", std::get_if is " + (mp != nullptr ? "non-null" : "null");
                                return;
                            }
                            if (cp != p || tp != p || ctp != p) {
                                err = "get_if<I>/get_if<T>, const/non-const disagree for alternative " + std::to_string(i);
                                return;
                            }
                            if (p != nullptr && !mx.masked && val(*p) != val(*mp)) { err = "*get_if<" + std::to_string(i) + "> is " + std::to_string(val(*p)) + ", std has " + std::to_string(val(*mp)); }
                        };
                        (one(std::integral_constant<std::size_t, I>{}), ...);
                    }(std::make_index_sequence<N>{});
                    if (etl::get_if<0>(static_cast<EV*>(nullptr)) != nullptr) { err = "get_if(nullptr) is not null"; }
                    break;
                }
                case Q_UNCHECKED_GET:
                case Q_SUBSCRIPT: {
                    with_index<N>(mx.v.index(), [&](auto I) {
                        constexpr auto i = decltype(I)::value;
                        using A          = alt<i>;
                        A const* ref     = etl::get_if<i>(&std::as_const(x));
                        A const *p1 = nullptr, *p2 = nullptr, *p3 = nullptr, *p4 = nullptr;
                        if (code == Q_UNCHECKED_GET) {
                            A& r1        = etl::unchecked_get<i>(x);
                            A const& r2  = etl::unchecked_get<i>(std::as_const(x));
                            A&& r3       = etl::unchecked_get<i>(std::move(x)); // binds only: nothing is moved
                            A const&& r4 = etl::unchecked_get<i>(std::move(std::as_const(x)));
                            p1 = &r1, p2 = &r2, p3 = &r3, p4 = &r4;
                        } else {
                            A& r1        = x[etl::index_v<i>];
                            A const& r2  = std::as_const(x)[etl::index_v<i>];
                            A&& r3       = std::move(x)[etl::index_v<i>];
                            A const&& r4 = std::move(std::as_const(x))[etl::index_v<i>];
                            p1 = &r1, p2 = &r2, p3 = &r3, p4 = &r4;
                        }
                        if (ref == nullptr || p1 != ref || p2 != ref || p3 != ref || p4 != ref) {
                            err = std::string(code == Q_UNCHECKED_GET ? "unchecked_get<" : "operator[]<") + std::to_string(i) + "> does not refer to the active alternative";
                        } else if (!mx.masked && val(*p1) != mval(mx.v)) {
                            err = std::string(code == Q_UNCHECKED_GET ? "unchecked_get<" : "operator[]<") + std::to_string(i) + "> is " + std::to_string(val(*p1)) + ", std::get is " + std::to_string(mval(mx.v));
                        }
                    });
                    break;
                }
                case Q_VISIT1: {
                    Log le, lm;
                    auto fe = [&](auto&& a) -> int {
                        ++le.calls;
                        le.idx[0] = idx_in<decltype(a)>(XL{});
                        le.v[0]   = val(a);
                        return le.idx[0] * 100 + 7;
                    };
                    auto fm = [&](auto&& a) -> int {
                        ++lm.calls;
                        lm.idx[0] = idx_in<decltype(a)>(XL{});
                        lm.v[0]   = val(a);
                        return lm.idx[0] * 100 + 7;
                    };
                    int re = 0;
                    switch (op.b % 4) {
                    case 0: re = etl::visit(fe, x); break;
                    case 1: re = etl::visit(fe, std::as_const(x)); break;
                    case 2: re = etl::visit(fe, std::move(x)); break; // the visitor takes auto&&: nothing is moved
                    default: re = etl::visit(fe, std::move(std::as_const(x))); break;
                    }
                    int rm = std::visit(fm, mx.v);
                    if (etl::visit([] { return 41; }) != std::visit([] { return 41; })) { err = "visit(f) without variants did not call f"; }
                    if (mx.masked) { le.v[0] = lm.v[0] = 0; }
                    if (le.calls != 1 || le.idx != lm.idx || le.v != lm.v) {
                        err = "visit(f,x): visitor saw " + le.str() + ", std::visit " + lm.str();
                    } else if (re != rm) {
                        err = "visit(f,x) returned " + std::to_string(re) + ", std::visit " + std::to_string(rm);
                    }
                    break;
                }
                case Q_VISIT2: {
                    Log le, lm;
                    auto mk = [](Log& l) {
                        return [&l](auto const& a, auto const& b) -> int {
                            ++l.calls;
                            l.idx[0] = idx_in<decltype(a)>(XL{});
                            l.idx[1] = idx_in<decltype(b)>(XL{});
                            l.v[0]   = val(a);
                            l.v[1]   = val(b);
                            return l.idx[0] * 10 + l.idx[1];
                        };
                    };
                    int re = etl::visit(mk(le), x, std::as_const(y));
                    int rm = std::visit(mk(lm), mx.v, my.v);
                    if (mx.masked) { le.v[0] = lm.v[0] = 0; }
                    if (my.masked) { le.v[1] = lm.v[1] = 0; }
                    if (mx.v.index() != my.v.index()) { visit2_diff = true; }
                    if (le.calls != 1 || le.idx != lm.idx || le.v != lm.v) {
                        err = "visit(f,x,y): visitor saw " + le.str() + ", std::visit " + lm.str();
                    } else if (re != rm) {
                        err = "visit(f,x,y) returned " + std::to_string(re) + ", std::visit " + std::to_string(rm);
                    }
                    break;
                }
                case Q_VISIT2_Z:
                case Q_VISIT3: {
                    // z: a differently shaped variant whose state comes from the raw argument b
                    ZV z;
                    ZM mz;
                    int zv = static_cast<int>((op.b / 3) % 3);
                    switch (op.b % 3) {
                    case 0: z.template emplace<0>(zv), mz.template emplace<0>(zv); break;
                    case 1: z.template emplace<1>(zv), mz.template emplace<1>(zv); break;
                    default: z.template emplace<2>(static_cast<char>(zv)), mz.template emplace<2>(static_cast<char>(zv)); break;
                    }
                    Log le, lm, le2, lm2;
                    if (code == Q_VISIT2_Z) {
                        auto mk = [](Log& l) {
                            return [&l](auto const& a, auto const& b) {
                                ++l.calls;
                                l.idx[0] = idx_in<decltype(a)>(XL{});
                                l.idx[1] = idx_in<decltype(b)>(ZL{});
                                l.v[0]   = val(a);
                                l.v[1]   = val(b);
                            };
                        };
                        auto mkr = [](Log& l) {
                            return [&l](auto const& b, auto const& a) {
                                ++l.calls;
                                l.idx[0] = idx_in<decltype(a)>(XL{});
                                l.idx[1] = idx_in<decltype(b)>(ZL{});
                                l.v[0]   = val(a);
                                l.v[1]   = val(b);
                            };
                        };
                        etl::visit(mk(le), std::as_const(x), z);
                        std::visit(mk(lm), mx.v, mz);
                        etl::visit(mkr(le2), z, x);
                        std::visit(mkr(lm2), mz, mx.v);
                        if (mx.masked) { le.v[0] = lm.v[0] = le2.v[0] = lm2.v[0] = 0; }
                        if (le.calls != 1 || le.idx != lm.idx || le.v != lm.v) {
                            err = "visit(f,x,z): visitor saw " + le.str() + ", std::visit " + lm.str();
                        } else if (le2.calls != 1 || le2.idx != lm2.idx || le2.v != lm2.v) {
                            err = "visit(f,z,x): visitor saw " + le2.str() + ", std::visit " + lm2.str();
                        }
                    } else {
                        auto mk = [](Log& l) {
                            return [&l](auto const& a, auto const& b, auto const& c) {
                                ++l.calls;
                                l.idx[0] = idx_in<decltype(a)>(XL{});
                                l.idx[1] = idx_in<decltype(b)>(XL{});
                                l.idx[2] = idx_in<decltype(c)>(ZL{});
                                l.v[0]   = val(a);
                                l.v[1]   = val(b);
                                l.v[2]   = val(c);
                            };
                        };
                        etl::visit(mk(le), x, y, std::as_const(z));
                        std::visit(mk(lm), mx.v, my.v, mz);
                        if (mx.masked) { le.v[0] = lm.v[0] = 0; }
                        if (my.masked) { le.v[1] = lm.v[1] = 0; }
                        if (le.calls != 1 || le.idx != lm.idx || le.v != lm.v) { err = "visit(f,x,y,z): visitor saw " + le.str() + ", std::visit " + lm.str(); }
                    }
                    break;
                }
                case Q_VISIT_INDEX: {
                    // etl-only: the indexed visitor must report index() and the active alternative
                    Log le;
                    etl::visit_with_index([&](auto p) {
                        ++le.calls;
                        le.idx[0] = static_cast<int>(p.index.value);
                        le.idx[1] = idx_in<decltype(p.value())>(XL{});
                        le.v[0]   = val(p.value());
                    }, std::as_const(x));
                    int want = mx.masked ? le.v[0] : mval(mx.v);
                    if (le.calls != 1 || le.idx[0] != static_cast<int>(mx.v.index()) || le.idx[1] != le.idx[0] || le.v[0] != want) {
                        err = "visit_with_index(f,x): visitor saw " + le.str() + ", expected index " + std::to_string(mx.v.index()) + " value " + std::to_string(want);
                    }
                    break;
                }
                case Q_REL: {
                    EV const& cx = x;
                    EV const& cy = y;
                    MV const& a  = mx.v;
                    MV const& b  = my.v;
                    bool value_dependent = a.index() == b.index();
                    if (value_dependent) { cmp_same_index = true; } else { cmp_diff_index = true; }
                    bool e[12] = {cx == cy, cx != cy, cx < cy, cx <= cy, cx > cy, cx >= cy, cy == cx, cy != cx, cy < cx, cy <= cx, cy > cx, cy >= cx};
                    bool m[12] = {a == b, a != b, a < b, a <= b, a > b, a >= b, b == a, b != a, b < a, b <= a, b > a, b >= a};
                    static char const* const nm[12] = {"x==y", "x!=y", "x<y", "x<=y", "x>y", "x>=y", "y==x", "y!=x", "y<x", "y<=x", "y>x", "y>=x"};
                    if (!(value_dependent && (mx.masked || my.masked))) {
                        for (int i = 0; i < 12 && err.empty(); ++i) {
                            if (e[i] != m[i]) { err = std::string("(") + nm[i] + ") is " + (e[i] ? "true" : "false") + ", std::variant says " + (m[i] ? "true" : "false"); }
                        }
                    }
                    if (err.empty() && !mx.masked && (!(cx == cx) || (cx != cx) || (cx < cx) || !(cx <= cx) || (cx > cx) || !(cx >= cx))) { err = "relational operators are not reflexive on x"; }
                    break;
                }
                case OBSERVE:
                default: break;
                }
                if (mx.v.index() != xi0 || my.v.index() != yi0) { transitioned = true; }
                if (is_query && transitioned) { nt = true; }
                if (err.empty()) { err = compare(tb ? "B" : "A", *sx.p, mx); }
                if (err.empty()) { err = compare(tb ? "A" : "B", *sy.p, my); }
                if (err.empty() && (sw.pre != 0xA5A5A5A5A5A5A5A5ULL || sw.mid != 0x5A5A5A5A5A5A5A5AULL || sw.post != 0xC3C3C3C3C3C3C3C3ULL)) { err = "canary next to the variant was overwritten"; }
                if (err.empty() && has_tracked && !lt::violation().empty()) { err = "lifetime: " + lt::violation(); }
                if (!err.empty()) {
                    err = std::string("after ") + code_names[code] + ": " + err;
                    break;
                }
            }
        }
        if (err.empty() && has_tracked) { err = lt::check_empty(); }
        if (stats > 1) {
            vf::label("variant.hist.transition_then_query", nt);
            vf::label("variant.hist.query_touches_moved_from", q_masked);
            vf::label("variant.hist.relational_same_index", cmp_same_index);
            vf::label("variant.hist.relational_different_index", cmp_diff_index);
            vf::label("variant.hist.visit2_different_indices", visit2_diff);
        }
        if (stats > 0 && nt) {
            if (stats > 1) {
                vf::nontrivial(vf::digest(k));
            } else {
                vf::nontrivial_count();
            }
        }
        return err;
    }
};

// ================================================================== relational operators over partially ordered values
// variant<int,double> with states {int -1,0,1; double -1,0,1,2,NaN}: for equal indices every operator must forward to the
// *same* operator of the alternatives ([variant.relops]: v <= w is get<i>(v) <= get<i>(w), not !(get<i>(w) < get<i>(v))).
// Stateless: one op = the twelve comparisons of the operand states selected by a and b.
struct FloatRel {
    using EV = etl::variant<int, double>;
    using MV = std::variant<int, double>;
    static constexpr std::uint32_t NDOM = 8;
    static auto name(std::uint32_t i) -> std::string
    {
        static char const* const nm[NDOM] = {"int -1", "int 0", "int 1", "double -1", "double 0", "double 1", "double 2", "double nan"};
        return nm[i % NDOM];
    }
    template <typename V>
    static auto make(std::uint32_t i) -> V
    {
        i %= NDOM;
        if (i < 3) { return V(static_cast<int>(i) - 1); }
        if (i < 7) { return V(static_cast<double>(i) - 4.0); }
        return V(std::numeric_limits<double>::quiet_NaN());
    }
    static auto run(OpsCase const& k, int stats) -> std::string
    {
        for (auto const& op : k.ops) {
            EV const x = make<EV>(op.a), y = make<EV>(op.b);
            MV const a = make<MV>(op.a), b = make<MV>(op.b);
            if (x.index() != a.index() || y.index() != b.index()) { return "l=" + name(op.a) + " r=" + name(op.b) + ": converting constructor chose another alternative than std::variant"; }
            bool e[12] = {x == y, x != y, x < y, x <= y, x > y, x >= y, y == x, y != x, y < x, y <= x, y > x, y >= x};
            bool m[12] = {a == b, a != b, a < b, a <= b, a > b, a >= b, b == a, b != a, b < a, b <= a, b > a, b >= a};
            static char const* const nm[12] = {"l==r", "l!=r", "l<r", "l<=r", "l>r", "l>=r", "r==l", "r!=l", "r<l", "r<=l", "r>l", "r>=l"};
            if (stats > 0 && ((op.a % NDOM) == 7 || (op.b % NDOM) == 7) && a.index() == b.index()) { vf::nontrivial_count(); }
            for (int i = 0; i < 12; ++i) {
                if (e[i] != m[i]) { return "l=" + name(op.a) + " r=" + name(op.b) + ": (" + nm[i] + ") is " + (e[i] ? "true" : "false") + ", std::variant says " + (m[i] ? "true" : "false"); }
            }
        }
        return "";
    }
};

// ================================================================== duplicated alternative types
// variant<NonTriv,int,NonTriv,int>: only index-based operations exist for such a variant.  Assignment and swap between the
// two indices of one type must change index() (same type is not same alternative).  Oracle: std::variant<Mt,int,Mt,int>.
enum DCode : std::uint32_t {
    D_C_INPLACE, D_C_COPY, D_C_MOVE, D_A_COPY, D_A_MOVE, D_A_SELF, D_EMPLACE, D_SWAP, D_SWAP_SELF, D_WRITE,
    D_Q_GET, D_Q_VISIT_INDEX, D_Q_VISIT2, D_Q_REL, D_OBSERVE,
    D_NCODES
};
constexpr std::uint32_t D_FIRST_QUERY = D_Q_GET;
char const* const dcode_names[] = {"variant(in_place_index<I>,v)", "variant(variant const&)", "variant(variant&&)", "copy-assign", "move-assign", "self copy-assign", "emplace<I>(v)", "swap(x,y)", "swap(x,x)",
    "write through accessor", "get_if/unchecked_get/operator[]", "visit_with_index", "visit(f,x,y)", "relational", "observe"};

struct Dup {
    using B  = Cfg<TCM, int, TCM, int>; // only its index-based helpers are instantiated
    using EV = B::EV;
    using MV = B::MV;
    using M  = B::M;
    static constexpr std::size_t N = 4;
    static auto nontriv(MV const& m) -> bool { return m.index() % 2 == 0; }

    static auto run(OpsCase const& k, int stats) -> std::string
    {
        lt::reset();
        std::string err;
        bool nt = false, transitioned = false, twin_transfer = false;
        {
            struct Sandwich {
                std::uint64_t pre{0xA5A5A5A5A5A5A5A5ULL};
                Slot<EV> a;
                std::uint64_t mid{0x5A5A5A5A5A5A5A5AULL};
                Slot<EV> b;
                std::uint64_t post{0xC3C3C3C3C3C3C3C3ULL};
            } sw;
            sw.a.make();
            sw.b.make();
            M ma{}, mb{};
            for (auto const& op : k.ops) {
                bool tb = (op.c & 1U) != 0;
                Slot<EV>& sx = tb ? sw.b : sw.a;
                Slot<EV>& sy = tb ? sw.a : sw.b;
                M& mx      = tb ? mb : ma;
                M& my      = tb ? ma : mb;
                int v      = static_cast<int>((op.c >> 1) % NVAL);
                auto kalt  = static_cast<std::size_t>(op.a % N);
                auto code  = op.code % D_NCODES;
                auto xi0 = mx.v.index(), yi0 = my.v.index();
                if (stats > 1) { vf::count((std::string("dop.") + dcode_names[code]).c_str()); }
                bool is_query = code >= D_FIRST_QUERY && code != D_OBSERVE;
                EV& x = *sx.p;
                EV& y = *sy.p;
                // a transfer between the two indices of one type (0 <-> 2, 1 <-> 3)
                bool twins = xi0 != yi0 && xi0 % 2 == yi0 % 2;
                switch (code) {
                case D_C_INPLACE: {
                    with_index<N>(kalt, [&](auto I) {
                        sx.make(etl::in_place_index<decltype(I)::value>, v);
                        mx.v      = MV(std::in_place_index<decltype(I)::value>, v);
                        mx.masked = false;
                    });
                    break;
                }
                case D_C_COPY: ((op.b & 1U) != 0 ? sx.make(y) : sx.make(std::as_const(y))), mx = my; break;
                case D_C_MOVE: sx.make(std::move(y)), mx = my, my.masked = nontriv(my.v); break;
                case D_A_COPY: ((op.b & 1U) != 0 ? (x = y) : (x = std::as_const(y))), mx = my, twin_transfer |= twins; break;
                case D_A_MOVE: x = std::move(y), mx = my, my.masked = nontriv(my.v), twin_transfer |= twins; break;
                case D_A_SELF: {
                    EV const& alias = x;
                    x               = alias;
                    break;
                }
                case D_EMPLACE: {
                    with_index<N>(kalt, [&](auto I) {
                        constexpr auto i = decltype(I)::value;
                        auto& r          = x.template emplace<i>(v);
                        mx.v.template emplace<i>(v);
                        mx.masked = false;
                        if (static_cast<void const*>(&r) != static_cast<void const*>(etl::get_if<i>(&x))) { err = "emplace<I> returned a reference that is not the new alternative"; }
                    });
                    break;
                }
                case D_SWAP: {
                    if ((op.b & 1U) != 0) {
                        etl::swap(x, y);
                    } else {
                        using etl::swap;
                        swap(x, y);
                    }
                    mx.v.swap(my.v);
                    std::swap(mx.masked, my.masked);
                    twin_transfer |= twins;
                    break;
                }
                case D_SWAP_SELF: etl::swap(x, x); break;
                case D_WRITE: {
                    with_index<N>(mx.v.index(), [&](auto I) {
                        constexpr auto i = decltype(I)::value;
                        using A          = B::alt<i>;
                        switch (op.b % 3) {
                        case 0: etl::unchecked_get<i>(x) = A(v); break;
                        case 1: *etl::get_if<i>(&x) = A(v); break;
                        default: x[etl::index_v<i>] = A(v); break;
                        }
                        mx.v.template emplace<i>(v);
                        mx.masked = false;
                    });
                    break;
                }
                case D_Q_GET: {
                    with_index<N>(mx.v.index(), [&](auto I) {
                        constexpr auto i = decltype(I)::value;
                        using A          = B::alt<i>;
                        A const* ref     = etl::get_if<i>(&std::as_const(x));
                        A& r1            = etl::unchecked_get<i>(x);
                        A const& r2      = std::as_const(x)[etl::index_v<i>];
                        if (ref == nullptr || &r1 != ref || &r2 != ref) {
                            err = "get_if / unchecked_get / operator[] <" + std::to_string(i) + "> do not refer to the active alternative";
                        } else if (!mx.masked && val(r1) != B::mval(mx.v)) {
                            err = "unchecked_get<" + std::to_string(i) + "> is " + std::to_string(val(r1)) + ", std::get is " + std::to_string(B::mval(mx.v));
                        }
                    });
                    break;
                }
                case D_Q_VISIT_INDEX: {
                    Log le;
                    etl::visit_with_index([&](auto p, auto q) {
                        ++le.calls;
                        le.idx[0] = static_cast<int>(p.index.value);
                        le.idx[1] = static_cast<int>(q.index.value);
                        le.v[0]   = val(p.value());
                        le.v[1]   = val(q.value());
                    }, std::as_const(x), std::as_const(y));
                    int wx = mx.masked ? le.v[0] : B::mval(mx.v);
                    int wy = my.masked ? le.v[1] : B::mval(my.v);
                    if (le.calls != 1 || le.idx[0] != static_cast<int>(mx.v.index()) || le.idx[1] != static_cast<int>(my.v.index()) || le.v[0] != wx || le.v[1] != wy) {
                        err = "visit_with_index(f,x,y): visitor saw " + le.str() + ", expected indices (" + std::to_string(mx.v.index()) + "," + std::to_string(my.v.index()) + ") values (" + std::to_string(wx) + "," + std::to_string(wy) + ")";
                    }
                    break;
                }
                case D_Q_VISIT2: {
                    // the alternative types are duplicated: the visitor can only tell the type (0 NonTriv, 1 int) and the value
                    Log le, lm;
                    auto mk = [](Log& l) {
                        return [&l](auto const& a, auto const& b) {
                            ++l.calls;
                            l.idx[0] = std::is_same_v<std::remove_cvref_t<decltype(a)>, int> ? 1 : 0;
                            l.idx[1] = std::is_same_v<std::remove_cvref_t<decltype(b)>, int> ? 1 : 0;
                            l.v[0]   = val(a);
                            l.v[1]   = val(b);
                        };
                    };
                    etl::visit(mk(le), x, std::as_const(y));
                    std::visit(mk(lm), mx.v, my.v);
                    if (mx.masked) { le.v[0] = lm.v[0] = 0; }
                    if (my.masked) { le.v[1] = lm.v[1] = 0; }
                    if (le.calls != 1 || le.idx != lm.idx || le.v != lm.v) { err = "visit(f,x,y): visitor saw " + le.str() + ", std::visit " + lm.str(); }
                    break;
                }
                case D_Q_REL: {
                    EV const& cx = x;
                    EV const& cy = y;
                    MV const& a  = mx.v;
                    MV const& b  = my.v;
                    bool e[12] = {cx == cy, cx != cy, cx < cy, cx <= cy, cx > cy, cx >= cy, cy == cx, cy != cx, cy < cx, cy <= cx, cy > cx, cy >= cx};
                    bool m[12] = {a == b, a != b, a < b, a <= b, a > b, a >= b, b == a, b != a, b < a, b <= a, b > a, b >= a};
                    static char const* const nm[12] = {"x==y", "x!=y", "x<y", "x<=y", "x>y", "x>=y", "y==x", "y!=x", "y<x", "y<=x", "y>x", "y>=x"};
                    if (!(a.index() == b.index() && (mx.masked || my.masked))) {
                        for (int i = 0; i < 12 && err.empty(); ++i) {
                            if (e[i] != m[i]) { err = std::string("(") + nm[i] + ") is " + (e[i] ? "true" : "false") + ", std::variant says " + (m[i] ? "true" : "false"); }
                        }
                    }
                    break;
                }
                case D_OBSERVE:
                default: break;
                }
                if (mx.v.index() != xi0 || my.v.index() != yi0) { transitioned = true; }
                if (is_query && transitioned) { nt = true; }
                if (err.empty()) { err = B::compare(tb ? "B" : "A", *sx.p, mx); }
                if (err.empty()) { err = B::compare(tb ? "A" : "B", *sy.p, my); }
                if (err.empty() && (sw.pre != 0xA5A5A5A5A5A5A5A5ULL || sw.mid != 0x5A5A5A5A5A5A5A5AULL || sw.post != 0xC3C3C3C3C3C3C3C3ULL)) { err = "canary next to the variant was overwritten"; }
                if (err.empty() && !lt::violation().empty()) { err = "lifetime: " + lt::violation(); }
                if (!err.empty()) {
                    err = std::string("after ") + dcode_names[code] + ": " + err;
                    break;
                }
            }
        }
        if (err.empty()) { err = lt::check_empty(); }
        if (stats > 1) {
            vf::label("variant_dup.hist.transition_then_query", nt);
            vf::label("variant_dup.hist.assign_or_swap_between_twin_indices", twin_transfer);
        }
        if (stats > 0 && nt) {
            if (stats > 1) {
                vf::nontrivial(vf::digest(k));
            } else {
                vf::nontrivial_count();
            }
        }
        return err;
    }
};

// ================================================================== converting construction / assignment from non-arithmetic sources
// The alternative is selected by overload resolution over the alternatives whose initialisation from the source is not
// narrowing; pointer -> bool IS narrowing (P1957), so variant<bool,Name>{"abc"} must hold Name.  Compared with std::variant
// over the same alternative types, only for sources both libraries accept.  Stateless: a selects the variant, b the source,
// c construction (0) or assignment (1).
struct Name { // implicitly constructible from char const* and nullptr
    char const* s;
    Name(char const* p) noexcept : s(p) { } // NOLINT
};
struct PtrLike {
    PtrLike(decltype(nullptr) /*p*/) noexcept { } // NOLINT
};
enum PlainEnum { plain_e0, plain_e1 };
enum class ScopedEnum { a, b };
struct ToInt { operator int() const noexcept { return 1; } };       // NOLINT
struct ToDouble { operator double() const noexcept { return 1.0; } }; // NOLINT
struct ToBool { operator bool() const noexcept { return true; } };  // NOLINT
struct ToPtr { operator char const*() const noexcept { return "x"; } }; // NOLINT

struct Sel {
    static constexpr std::uint32_t NVAR = 7, NSRC = 13;
    static auto var_name(std::uint32_t a) -> char const*
    {
        static char const* const nm[NVAR] = {"variant<bool,Name>", "variant<bool,string_view>", "variant<bool,inplace_string<16>>", "variant<bool,int,Name>", "variant<int,double>", "variant<bool,PtrLike>", "variant<bool,char const*>"};
        return nm[a % NVAR];
    }
    static auto src_name(std::uint32_t b) -> char const*
    {
        static char const* const nm[NSRC] = {"char const*", "string literal", "nullptr", "unscoped enum", "scoped enum", "class with operator int", "class with operator double", "class with operator bool",
            "class with operator char const*", "reference_wrapper<int>", "int*", "bool", "int"};
        return nm[b % NSRC];
    }
    template <typename EV, typename MV, typename S>
    static auto one(std::uint32_t a, std::uint32_t b, bool assign, S s, bool& compared) -> std::string
    {
        if constexpr (std::is_constructible_v<EV, S> && std::is_constructible_v<MV, S> && std::is_assignable_v<EV&, S> && std::is_assignable_v<MV&, S>) {
            std::size_t ei = 0, mi = 0;
            if (!assign) {
                EV x(static_cast<S>(s));
                MV m(static_cast<S>(s));
                ei = x.index(), mi = m.index();
            } else {
                EV x;
                MV m;
                x  = static_cast<S>(s);
                m  = static_cast<S>(s);
                ei = x.index(), mi = m.index();
            }
            compared = true;
            if (ei != mi) { return std::string(var_name(a)) + (assign ? " = " : " constructed from ") + src_name(b) + ": etl selects alternative " + std::to_string(ei) + ", std::variant " + std::to_string(mi); }
        }
        return "";
    }
    template <typename EV, typename MV>
    static auto all(std::uint32_t a, std::uint32_t b, bool assign, bool& compared) -> std::string
    {
        static int target    = 1;
        char const* const cp = "abc";
        switch (b % NSRC) {
        case 0: return one<EV, MV, char const*>(a, b, assign, cp, compared);
        case 1: return one<EV, MV, char const(&)[4]>(a, b, assign, "abc", compared);
        case 2: return one<EV, MV, decltype(nullptr)>(a, b, assign, nullptr, compared);
        case 3: return one<EV, MV, PlainEnum>(a, b, assign, plain_e1, compared);
        case 4: return one<EV, MV, ScopedEnum>(a, b, assign, ScopedEnum::b, compared);
        case 5: return one<EV, MV, ToInt>(a, b, assign, ToInt{}, compared);
        case 6: return one<EV, MV, ToDouble>(a, b, assign, ToDouble{}, compared);
        case 7: return one<EV, MV, ToBool>(a, b, assign, ToBool{}, compared);
        case 8: return one<EV, MV, ToPtr>(a, b, assign, ToPtr{}, compared);
        case 9: return one<EV, MV, std::reference_wrapper<int>>(a, b, assign, std::ref(target), compared);
        case 10: return one<EV, MV, int*>(a, b, assign, &target, compared);
        case 11: return one<EV, MV, bool>(a, b, assign, true, compared);
        default: return one<EV, MV, int>(a, b, assign, 1, compared);
        }
    }
    static auto run(OpsCase const& k, int stats) -> std::string
    {
        using SV = etl::string_view;
        using IS = etl::inplace_string<16>;
        for (auto const& op : k.ops) {
            bool compared = false, assign = (op.c & 1U) != 0;
            std::string d;
            switch (op.a % NVAR) {
            case 0: d = all<etl::variant<bool, Name>, std::variant<bool, Name>>(op.a, op.b, assign, compared); break;
            case 1: d = all<etl::variant<bool, SV>, std::variant<bool, SV>>(op.a, op.b, assign, compared); break;
            case 2: d = all<etl::variant<bool, IS>, std::variant<bool, IS>>(op.a, op.b, assign, compared); break;
            case 3: d = all<etl::variant<bool, int, Name>, std::variant<bool, int, Name>>(op.a, op.b, assign, compared); break;
            case 4: d = all<etl::variant<int, double>, std::variant<int, double>>(op.a, op.b, assign, compared); break;
            case 5: d = all<etl::variant<bool, PtrLike>, std::variant<bool, PtrLike>>(op.a, op.b, assign, compared); break;
            default: d = all<etl::variant<bool, char const*>, std::variant<bool, char const*>>(op.a, op.b, assign, compared); break;
            }
            if (stats > 0) {
                vf::label("variant_sel.source_accepted_by_both", compared);
                if (compared) { vf::nontrivial_count(); }
            }
            if (!d.empty()) { return d; }
        }
        return "";
    }
};

// ================================================================== visit over variants with DIFFERENT numbers of alternatives
// Every index tuple of the variant lists (2,3) (3,2) (2,3,2) (1,4) (4,1) (3,4) is visited; the alternatives are distinct tag
// types, so the visitor records exactly which alternative of which variant it received (family, index, value).  Compared with
// std::visit over std::variant of the same tag types; visit_with_index must additionally report the active indices.
// Forms: 0 lvalues, 1 const lvalues, 2 rvalues, 3 visit_with_index, 4 visitor returning void, 5 visitor returning a reference
// (etl::visit returns by value: the referenced value is compared).  Stateless: a = list, b = flat tuple index, c = form.
template <int F, int I>
struct Tag {
    static constexpr int fam = F, idx = I;
    int v{0};
};
template <template <typename...> class V, int F, typename Seq>
struct MkVar;
template <template <typename...> class V, int F, std::size_t... I>
struct MkVar<V, F, std::index_sequence<I...>> {
    using type = V<Tag<F, static_cast<int>(I)>...>;
};
template <template <typename...> class V, int F, std::size_t N>
using tag_variant = typename MkVar<V, F, std::make_index_sequence<N>>::type;

struct VisitMix {
    static constexpr std::uint32_t NLIST = 6, NFORM = 6;
    static constexpr std::uint32_t list_size[NLIST] = {6, 6, 12, 4, 4, 12};
    static auto list_name(std::uint32_t a) -> char const*
    {
        static char const* const nm[NLIST] = {"(2,3)", "(3,2)", "(2,3,2)", "(1,4)", "(4,1)", "(3,4)"};
        return nm[a % NLIST];
    }
    struct Enc { // which alternatives (family, index) and values the visitor received, in argument order
        template <typename... Ts>
        auto operator()(Ts const&... xs) const -> long
        {
            long r = 0;
            ((r = r * 1000 + Ts::fam * 100 + Ts::idx * 10 + xs.v), ...);
            return r;
        }
    };
    template <template <typename...> class V, int F, std::size_t N>
    static auto make(std::size_t k, int value) -> tag_variant<V, F, N>
    {
        tag_variant<V, F, N> v;
        with_index<N>(k, [&](auto I) { v.template emplace<decltype(I)::value>(Tag<F, static_cast<int>(decltype(I)::value)>{value}); });
        return v;
    }
    static long g_sink; // target of the reference-returning visitor

    // Full: all six forms; otherwise only visit on lvalues and visit_with_index (the other forms share the dispatch code)
    template <bool Full, std::size_t... Ns>
    static auto list(std::uint32_t a, std::uint32_t flat, std::uint32_t form) -> std::string
    {
        constexpr std::size_t sizes[] = {Ns...};
        std::size_t idx[sizeof...(Ns)]{};
        {
            auto f = static_cast<std::size_t>(flat);
            for (std::size_t p = 0; p < sizeof...(Ns); ++p) { // first variant is the least significant digit
                idx[p] = f % sizes[p];
                f /= sizes[p];
            }
        }
        return [&]<std::size_t... P>(std::index_sequence<P...>) -> std::string {
            auto et = std::make_tuple(make<etl::variant, static_cast<int>(P) + 1, Ns>(idx[P], static_cast<int>(1 + P + 2 * idx[P]))...);
            auto st = std::make_tuple(make<std::variant, static_cast<int>(P) + 1, Ns>(idx[P], static_cast<int>(1 + P + 2 * idx[P]))...);
            long want = std::apply([](auto&... vs) { return std::visit(Enc{}, vs...); }, st);
            long got  = -1;
            std::string what = "visit";
            if constexpr (!Full) { form = (form % 2) * 3; }
            switch (Full ? form % NFORM : form) {
            case 0: got = std::apply([](auto&... vs) { return etl::visit(Enc{}, vs...); }, et); break;
            case 1:
                if constexpr (Full) { got = std::apply([](auto const&... vs) { return etl::visit(Enc{}, vs...); }, std::as_const(et)), what = "visit (const variants)"; }
                break;
            case 2:
                if constexpr (Full) { got = std::apply([](auto&... vs) { return etl::visit(Enc{}, std::move(vs)...); }, et), what = "visit (rvalue variants)"; } // Enc takes const&: nothing is moved
                break;
            case 3: {
                what       = "visit_with_index";
                bool idxok = true;
                got        = std::apply([&](auto&... vs) {
                    return etl::visit_with_index([&](auto... ps) {
                        std::size_t seen[] = {static_cast<std::size_t>(ps.index.value)...};
                        for (std::size_t p = 0; p < sizeof...(Ns); ++p) { idxok = idxok && seen[p] == idx[p]; }
                        return Enc{}(ps.value()...);
                    }, vs...);
                }, et);
                if (!idxok) { got = -2; }
                break;
            }
            case 4: {
                if constexpr (Full) {
                    what  = "visit (void visitor)";
                    int n = 0;
                    std::apply([&](auto&... vs) { etl::visit([&](auto const&... xs) { ++n, got = Enc{}(xs...); }, vs...); }, et);
                    if (n != 1) { got = -3; }
                }
                break;
            }
            default: {
                if constexpr (Full) {
                    what = "visit (visitor returning a reference)";
                    got  = std::apply([](auto&... vs) { return etl::visit([](auto const&... xs) -> long& { return g_sink = Enc{}(xs...); }, vs...); }, et);
                }
                break;
            }
            }
            if (got == want) { return ""; }
            std::string at = "(";
            for (std::size_t p = 0; p < sizeof...(Ns); ++p) { at += (p != 0 ? "," : "") + std::to_string(idx[p]); }
            return std::string(what) + " over variants with " + list_name(a) + " alternatives holding " + at + "): visitor saw " + std::to_string(got) + ", std::visit " + std::to_string(want)
                 + " (3 digits per argument: family, index, value; negative: wrong indices / call count)";
        }(std::make_index_sequence<sizeof...(Ns)>{});
    }
    static auto run(OpsCase const& k, int stats) -> std::string
    {
        for (auto const& op : k.ops) {
            auto a    = op.a % NLIST;
            auto flat = op.b % list_size[a];
            std::string d;
            switch (a) {
            case 0: d = list<true, 2, 3>(a, flat, op.c); break;
            case 1: d = list<false, 3, 2>(a, flat, op.c); break;
            case 2: d = list<true, 2, 3, 2>(a, flat, op.c); break;
            case 3: d = list<false, 1, 4>(a, flat, op.c); break;
            case 4: d = list<false, 4, 1>(a, flat, op.c); break;
            default: d = list<false, 3, 4>(a, flat, op.c); break;
            }
            if (stats > 0) { vf::nontrivial_count(); }
            if (!d.empty()) { return d; }
        }
        return "";
    }
};
long VisitMix::g_sink = 0;

// ================================================================== a class publicly derived from variant
// struct Shape : etl::variant<...> (the "strong typedef with helpers" pattern).  The whole free-function surface must treat
// it as the variant it is: visit / visit_with_index dispatch on the active alternative of the base (libstdc++ implements
// P2162 for std::visit in C++20 mode), get_if / holds_alternative / unchecked_get, relational operators, swap.  The visitor
// has a catch-all branch that records "received something that is not an alternative".
// Stateless: a = state of the first object, b = state of the second, c = form.
struct DerivedVar {
    using T0 = Tag<9, 0>;
    using T1 = Tag<9, 1>;
    using T2 = Tag<9, 2>;
    struct EShape : etl::variant<T0, T1, T2> {
        using variant::variant;
        [[nodiscard]] auto is_first() const -> bool { return index() == 0; }
    };
    struct SShape : std::variant<T0, T1, T2> {
        using variant::variant;
        [[nodiscard]] auto is_first() const -> bool { return index() == 0; }
    };
    using EPlain = etl::variant<Tag<8, 0>, Tag<8, 1>>;
    using SPlain = std::variant<Tag<8, 0>, Tag<8, 1>>;
    static constexpr std::uint32_t NSTATE = 3, NFORM = 9;

    struct Rec { // per argument: family, index, value of the alternative received; 999 if the argument is no alternative at all
        template <typename... Ts>
        auto operator()(Ts const&... xs) const -> long
        {
            long r   = 0;
            auto one = [&](auto const& x) {
                if constexpr (requires { x.fam; x.idx; x.v; }) {
                    r = r * 1000 + x.fam * 100 + x.idx * 10 + x.v;
                } else {
                    r = r * 1000 + 999;
                }
            };
            (one(xs), ...);
            return r;
        }
    };
    template <typename Shape>
    static auto make(std::uint32_t st) -> Shape
    {
        switch (st % NSTATE) {
        case 0: return Shape(T0{1});
        case 1: return Shape(T1{2});
        default: return Shape(T2{3});
        }
    }
    static auto run(OpsCase const& k, int stats) -> std::string
    {
        for (auto const& op : k.ops) {
            auto e1 = make<EShape>(op.a), e2 = make<EShape>(op.b);
            auto s1 = make<SShape>(op.a), s2 = make<SShape>(op.b);
            EPlain ep = (op.b & 1U) != 0 ? EPlain(Tag<8, 1>{4}) : EPlain(Tag<8, 0>{5});
            SPlain sp = (op.b & 1U) != 0 ? SPlain(Tag<8, 1>{4}) : SPlain(Tag<8, 0>{5});
            std::string te, ts, what;
            auto num = [](long x) { return std::to_string(x); };
            switch (op.c % NFORM) {
            case 0: what = "visit(f, derived)", te = num(etl::visit(Rec{}, e1)), ts = num(std::visit(Rec{}, s1)); break;
            case 1: what = "visit(f, const derived)", te = num(etl::visit(Rec{}, std::as_const(e1))), ts = num(std::visit(Rec{}, std::as_const(s1))); break;
            case 2: what = "visit(f, rvalue derived)", te = num(etl::visit(Rec{}, std::move(e1))), ts = num(std::visit(Rec{}, std::move(s1))); break; // Rec takes const&
            case 3: what = "visit(f, derived, derived)", te = num(etl::visit(Rec{}, e1, e2)), ts = num(std::visit(Rec{}, s1, s2)); break;
            case 4:
                what = "visit(f, derived, variant) / (variant, derived)";
                te   = num(etl::visit(Rec{}, e1, ep)) + "/" + num(etl::visit(Rec{}, ep, e1));
                ts   = num(std::visit(Rec{}, s1, sp)) + "/" + num(std::visit(Rec{}, sp, s1));
                break;
            case 5: {
                what = "visit_with_index(f, derived[, derived])";
                te   = num(etl::visit_with_index([](auto p) { return static_cast<long>(p.index.value) * 1000000 + Rec{}(p.value()); }, e1)) + "/"
                   + num(etl::visit_with_index([](auto p, auto q) { return static_cast<long>(p.index.value * 10 + q.index.value) * 1000000 + Rec{}(p.value(), q.value()); }, std::as_const(e1), e2));
                ts = num(static_cast<long>(s1.index()) * 1000000 + std::visit(Rec{}, s1)) + "/" + num(static_cast<long>(s1.index() * 10 + s2.index()) * 1000000 + std::visit(Rec{}, s1, s2));
                break;
            }
            case 6: {
                what = "index / holds_alternative / get_if / unchecked_get on a derived object";
                te   = num(static_cast<long>(e1.index())) + (e1.is_first() ? "f" : "-") + (etl::holds_alternative<T0>(e1) ? "1" : "0") + (etl::holds_alternative<T1>(e1) ? "1" : "0") + (etl::holds_alternative<T2>(e1) ? "1" : "0")
                   + (etl::get_if<0>(&e1) != nullptr ? "p" : "n") + (etl::get_if<1>(&std::as_const(e1)) != nullptr ? "p" : "n") + (etl::get_if<T2>(&e1) != nullptr ? "p" : "n");
                ts = num(static_cast<long>(s1.index())) + (s1.is_first() ? "f" : "-") + (std::holds_alternative<T0>(s1) ? "1" : "0") + (std::holds_alternative<T1>(s1) ? "1" : "0") + (std::holds_alternative<T2>(s1) ? "1" : "0")
                   + (std::get_if<0>(&s1) != nullptr ? "p" : "n") + (std::get_if<1>(&std::as_const(s1)) != nullptr ? "p" : "n") + (std::get_if<T2>(&s1) != nullptr ? "p" : "n");
                switch (op.a % NSTATE) {
                case 0: te += num(etl::unchecked_get<0>(e1).v), ts += num(std::get<0>(s1).v); break;
                case 1: te += num(etl::unchecked_get<1>(std::as_const(e1)).v), ts += num(std::get<1>(std::as_const(s1)).v); break;
                default: te += num(e1[etl::index_v<2>].v), ts += num(std::get<2>(s1).v); break;
                }
                break;
            }
            case 7: {
                what = "assignment / emplace / swap through the inherited interface, then visit";
                e1   = T2{7}, s1 = T2{7};
                e2.emplace<0>(T0{8}), s2.emplace<0>(T0{8});
                etl::swap(e1, e2);
                std::swap(s1, s2);
                EShape e3(e1);
                SShape s3(s1);
                e3 = e2, s3 = s2;
                te = num(etl::visit(Rec{}, e1, e2)) + "/" + num(etl::visit(Rec{}, e3));
                ts = num(std::visit(Rec{}, s1, s2)) + "/" + num(std::visit(Rec{}, s3));
                break;
            }
            default: {
                // distinct tag types are not comparable: compare the positions only (index order is all that matters here)
                what = "visit after move construction of a derived object";
                EShape e3(std::move(e1));
                SShape s3(std::move(s1));
                te = num(etl::visit(Rec{}, e3)) + "/" + num(static_cast<long>(e3.index()));
                ts = num(std::visit(Rec{}, s3)) + "/" + num(static_cast<long>(s3.index()));
                break;
            }
            }
            if (stats > 0) { vf::nontrivial_count(); }
            if (te != ts) {
                return std::string(what) + " with the derived objects holding alternatives " + std::to_string(op.a % NSTATE) + " and " + std::to_string(op.b % NSTATE) + ": etl " + te + ", std " + ts
                     + " (3 digits per argument: family, index, value; 999 = the visitor did not receive an alternative)";
            }
        }
        return "";
    }
};

// ------------------------------------------------------------------ configuration table
struct Config {
    char const* name;
    std::string (*run)(OpsCase const&, int);
    std::size_t nalt;
    int kind{0}; // 0 history configuration of Cfg<...>, 1 stateless NaN comparisons, 2 duplicated alternatives (Dup), 3 stateless source selection (Sel), 4 stateless multi-variant visit (VisitMix), 5 stateless derived-from-variant surface (DerivedVar)
};
// One source, several executables: -DC07_ONLY=<i> builds only configuration i (the registry lists one harness per
// configuration so that they compile in parallel); configuration ids in case strings are the same in every build.
#if !defined(C07_ONLY) || C07_ONLY == 0
    #define C07_RUN0 &Cfg<int, char>::run
#else
    #define C07_RUN0 nullptr
#endif
#if !defined(C07_ONLY) || C07_ONLY == 1
    #define C07_RUN1 &Cfg<int, TCM, Small>::run
#else
    #define C07_RUN1 nullptr
#endif
#if !defined(C07_ONLY) || C07_ONLY == 2
    #define C07_RUN2 &Cfg<TCM, int, char, Small>::run
#else
    #define C07_RUN2 nullptr
#endif
#if !defined(C07_ONLY) || C07_ONLY == 0
    #define C07_RUN3 &FloatRel::run
#else
    #define C07_RUN3 nullptr
#endif
#if !defined(C07_ONLY) || C07_ONLY == 0
    #define C07_RUN4 &Dup::run
#else
    #define C07_RUN4 nullptr
#endif
#if !defined(C07_ONLY) || C07_ONLY == 1
    #define C07_RUN5 &Sel::run
#else
    #define C07_RUN5 nullptr
#endif
#if !defined(C07_ONLY) || C07_ONLY == 0
    #define C07_RUN6 &VisitMix::run
#else
    #define C07_RUN6 nullptr
#endif
#if !defined(C07_ONLY) || C07_ONLY == 1
    #define C07_RUN7 &DerivedVar::run
#else
    #define C07_RUN7 nullptr
#endif
Config const configs[] = {
    {"variant<int,char>", C07_RUN0, 2},
    {"variant<int,NonTriv,Small>", C07_RUN1, 3},
    {"variant<NonTriv,int,char,Small>", C07_RUN2, 4},
    {"variant<int,double> relational incl. NaN", C07_RUN3, 0, 1},
    {"variant<NonTriv,int,NonTriv,int>", C07_RUN4, 4, 2},
    {"variant converting construction / assignment from non-arithmetic sources", C07_RUN5, 0, 3},
    {"visit over variants of different sizes", C07_RUN6, 0, 4},
    {"class publicly derived from variant", C07_RUN7, 0, 5},
};
constexpr std::uint32_t nconfigs = sizeof(configs) / sizeof(configs[0]);

auto run_case(OpsCase const& k, int stats) -> std::string
{
    auto const& cfg = configs[k.cfg % nconfigs];
    if (cfg.run == nullptr) { return ""; } // configuration not built into this executable
    auto d = cfg.run(k, stats);
    return d.empty() ? d : std::string(cfg.name) + ": " + d;
}

auto describe(OpsCase const& k) -> std::string
{
    auto const& cfg = configs[k.cfg % nconfigs];
    std::string s   = std::string(cfg.name) + " :";
    for (auto const& o : k.ops) {
        char const* opname = cfg.kind == 2 ? dcode_names[o.code % D_NCODES] : cfg.kind == 0 ? code_names[o.code % NCODES] : "compare";
        s += " " + std::string((o.c & 1U) != 0 ? "B." : "A.") + opname + "[alt " + std::to_string(cfg.nalt != 0 ? o.a % cfg.nalt : o.a) + ",b " + std::to_string(o.b) + ",v " + std::to_string((o.c >> 1) % NVAL) + "]";
    }
    return s;
}

// Concrete argument shapes of one op code for the enumeration (target is always A; the state pair is enumerated, so
// the symmetric case is covered by swapping the states).
auto shapes(std::uint32_t code, std::size_t nalt, bool small) -> std::vector<RawOp>
{
    std::vector<RawOp> out;
    auto vals = small ? std::vector<std::uint32_t>{1} : std::vector<std::uint32_t>{0, 1, 2};
    switch (code) {
    case C_CONV_L:
    case C_CONV_R:
    case C_INPLACE_INDEX:
    case C_INPLACE_TYPE:
    case A_CONV_L:
    case A_CONV_R:
    case EMPLACE_INDEX:
    case EMPLACE_TYPE:
        for (std::uint32_t a = 0; a < nalt; ++a) {
            for (auto v : vals) { out.push_back(RawOp{code, a, 0, v << 1}); }
        }
        break;
    case EMPLACE_DEFAULT:
        for (std::uint32_t a = 0; a < nalt; ++a) { out.push_back(RawOp{code, a, 0, 0}); }
        break;
    case C_CONV_OTHER:
    case A_CONV_OTHER:
        for (std::uint32_t a = 0; a < 9; ++a) { out.push_back(RawOp{code, a, 0, 1U << 1}); }
        break;
    case C_CONV_PROMOTE:
        if (nalt == 2) {
            for (auto v : vals) { out.push_back(RawOp{code, 0, 0, v << 1}); }
        }
        break;
    case WRITE_THROUGH:
        for (std::uint32_t b = 0; b < 3; ++b) {
            for (auto v : vals) { out.push_back(RawOp{code, 0, b, v << 1}); }
        }
        break;
    case SWAP_FREE:
    case C_COPY:
    case A_COPY: out.push_back(RawOp{code, 0, 0, 0}), out.push_back(RawOp{code, 0, 1, 0}); break;
    case Q_VISIT1:
        for (std::uint32_t b = 0; b < 4; ++b) { out.push_back(RawOp{code, 0, b, 0}); }
        break;
    case Q_VISIT2_Z:
    case Q_VISIT3:
        for (std::uint32_t b = 0; b < (small ? 3U : 9U); ++b) { out.push_back(RawOp{code, 0, b, 0}); }
        break;
    case OBSERVE: break;
    default: out.push_back(RawOp{code, 0, 0, 0}); break;
    }
    return out;
}

} // namespace

void vf_run(vf::Ctx& c)
{
    // E2: every (state of A, state of B) x op (every argument shape) x query; thorough additionally x second op.
    // A state is (active index, value in {0,1,2}); it is established with emplace<I>(v) or in_place_index construction.
    {
        std::uint64_t n = 0;
        for (std::uint32_t ci = 0; ci < nconfigs; ++ci) {
            if (configs[ci].run == nullptr) { continue; }
            if (configs[ci].kind == 1 || configs[ci].kind == 3) {
                // stateless: every (lhs state, rhs state) of variant<int,double> incl. NaN / every (variant, source, ctor|assign)
                bool sel        = configs[ci].kind == 3;
                char const* sub = sel ? "enum_source_selection" : "enum_float_relational";
                for (std::uint32_t a = 0; a < (sel ? Sel::NVAR : FloatRel::NDOM); ++a) {
                    for (std::uint32_t b = 0; b < (sel ? Sel::NSRC : FloatRel::NDOM); ++b) {
                        for (std::uint32_t cc = 0; cc < (sel ? 2U : 1U); ++cc) {
                            if (!c.mine(n++)) { continue; }
                            OpsCase k;
                            k.cfg = ci;
                            k.ops.push_back(RawOp{Q_REL, a, b, cc});
                            vf::Flight<OpsCase> fl(sub, k);
                            vf::eval(sub);
                            auto d = run_case(k, 1);
                            if (!d.empty()) { vf::mismatch(sub, k, d); }
                        }
                    }
                }
                continue;
            }
            if (configs[ci].kind == 4) {
                // every index tuple of every variant list x every visit form
                for (std::uint32_t a = 0; a < VisitMix::NLIST; ++a) {
                    for (std::uint32_t b = 0; b < VisitMix::list_size[a]; ++b) {
                        for (std::uint32_t f = 0; f < VisitMix::NFORM; ++f) {
                            if (!c.mine(n++)) { continue; }
                            OpsCase k;
                            k.cfg = ci;
                            k.ops.push_back(RawOp{Q_VISIT2, a, b, f});
                            vf::Flight<OpsCase> fl("enum_visit_mixed_sizes", k);
                            vf::eval("enum_visit_mixed_sizes");
                            auto d = run_case(k, 1);
                            if (!d.empty()) { vf::mismatch("enum_visit_mixed_sizes", k, d); }
                        }
                    }
                }
                continue;
            }
            if (configs[ci].kind == 5) {
                // every (state, state, form) of the derived-from-variant surface
                for (std::uint32_t a = 0; a < DerivedVar::NSTATE; ++a) {
                    for (std::uint32_t b = 0; b < DerivedVar::NSTATE; ++b) {
                        for (std::uint32_t f = 0; f < DerivedVar::NFORM; ++f) {
                            if (!c.mine(n++)) { continue; }
                            OpsCase k;
                            k.cfg = ci;
                            k.ops.push_back(RawOp{Q_VISIT1, a, b, f});
                            vf::Flight<OpsCase> fl("enum_derived_variant", k);
                            vf::eval("enum_derived_variant");
                            auto d = run_case(k, 1);
                            if (!d.empty()) { vf::mismatch("enum_derived_variant", k, d); }
                        }
                    }
                }
                continue;
            }
            if (configs[ci].kind == 2) {
                // duplicated alternatives: every (state A, state B) x op x query over the index-based operations
                std::vector<RawOp> ops, queries;
                for (std::uint32_t code = 0; code < D_NCODES; ++code) {
                    auto& dst = code < D_FIRST_QUERY ? ops : queries;
                    switch (code) {
                    case D_C_INPLACE:
                    case D_EMPLACE:
                        for (std::uint32_t a = 0; a < 4; ++a) {
                            for (std::uint32_t v = 0; v < 3; ++v) { dst.push_back(RawOp{code, a, 0, v << 1}); }
                        }
                        break;
                    case D_C_COPY:
                    case D_A_COPY:
                    case D_SWAP: dst.push_back(RawOp{code, 0, 0, 0}), dst.push_back(RawOp{code, 0, 1, 0}); break;
                    case D_WRITE:
                        for (std::uint32_t b = 0; b < 3; ++b) { dst.push_back(RawOp{code, 0, b, 2U << 1}); }
                        break;
                    case D_OBSERVE: break;
                    default: dst.push_back(RawOp{code, 0, 0, 0}); break;
                    }
                }
                for (std::uint32_t how = 0; how < 2; ++how) {
                    std::uint32_t setter = how == 0 ? D_EMPLACE : D_C_INPLACE;
                    for (std::uint32_t sa = 0; sa < 12; ++sa) {
                        for (std::uint32_t sb = 0; sb < 12; ++sb) {
                            OpsCase k;
                            k.cfg = ci;
                            k.ops.push_back(RawOp{setter, sa / 3, 0, (sa % 3) << 1});
                            k.ops.push_back(RawOp{setter, sb / 3, 0, ((sb % 3) << 1) | 1U});
                            for (auto const& o : ops) {
                                k.ops.push_back(o);
                                for (auto const& q : queries) {
                                    k.ops.push_back(q);
                                    if (c.mine(n++)) {
                                        vf::Flight<OpsCase> fl("enum_transitions", k);
                                        vf::eval("enum_transitions");
                                        auto d = run_case(k, 1);
                                        if (!d.empty()) { vf::mismatch("enum_transitions", k, d); }
                                    }
                                    k.ops.pop_back();
                                }
                                k.ops.pop_back();
                            }
                        }
                    }
                }
                continue;
            }
            auto nalt = configs[ci].nalt;
            std::vector<RawOp> ops, ops_small, queries;
            for (std::uint32_t code = 0; code < FIRST_QUERY; ++code) {
                for (auto const& o : shapes(code, nalt, false)) { ops.push_back(o); }
                for (auto const& o : shapes(code, nalt, true)) { ops_small.push_back(o); }
            }
            for (std::uint32_t code = FIRST_QUERY; code < NCODES; ++code) {
                for (auto const& o : shapes(code, nalt, true)) { queries.push_back(o); }
            }
            auto nstates = static_cast<std::uint32_t>(nalt * 3);
            auto exec    = [&](OpsCase const& k) {
                if (!c.mine(n++)) { return; }
                vf::Flight<OpsCase> fl("enum_transitions", k);
                vf::eval("enum_transitions");
                auto d = run_case(k, 1);
                if (!d.empty()) { vf::mismatch("enum_transitions", k, d); }
            };
            for (std::uint32_t how = 0; how < 2; ++how) {
                std::uint32_t setter = how == 0 ? EMPLACE_INDEX : C_INPLACE_INDEX;
                for (std::uint32_t sa = 0; sa < nstates; ++sa) {
                    for (std::uint32_t sb = 0; sb < nstates; ++sb) {
                        OpsCase k;
                        k.cfg = ci;
                        k.ops.push_back(RawOp{setter, sa / 3, 0, (sa % 3) << 1});
                        k.ops.push_back(RawOp{setter, sb / 3, 0, ((sb % 3) << 1) | 1U});
                        for (auto const& o : ops) {
                            k.ops.push_back(o);
                            for (auto const& q : queries) {
                                k.ops.push_back(q);
                                exec(k);
                                k.ops.pop_back();
                            }
                            if (c.thorough() && how == 0) {
                                for (auto const& o2 : ops_small) {
                                    k.ops.push_back(o2);
                                    for (std::uint32_t qc : {Q_GET_IF, Q_VISIT2, Q_REL}) {
                                        k.ops.push_back(RawOp{qc, 0, 0, 0});
                                        exec(k);
                                        k.ops.pop_back();
                                    }
                                    k.ops.pop_back();
                                }
                            }
                            k.ops.pop_back();
                        }
                    }
                }
            }
        }
    }
    // E1: random histories of <= 25 ops, every configuration
    int per_cfg = (c.thorough() ? 50000 : 3000) / std::max(1, c.nshards) + 1; // per type over all shards: quick 3k, thorough 50k
    for (std::uint32_t ci = 0; ci < nconfigs; ++ci) {
        if (configs[ci].run == nullptr || configs[ci].kind == 1 || configs[ci].kind == 3 || configs[ci].kind == 4 || configs[ci].kind == 5) { continue; }
        auto gen = rc::gen::map(vf::gen_history(1, configs[ci].kind == 2 ? std::uint32_t{D_NCODES} : std::uint32_t{NCODES}, 25), [ci](OpsCase k) {
            k.cfg = ci;
            return k;
        });
        std::string sub = std::string("histories/") + configs[ci].name;
        vf::rc_check<OpsCase>(sub.c_str(), gen, per_cfg, 100, [&](OpsCase const& k) {
            vf::eval("histories");
            auto d = run_case(k, 2);
            if (k.ops.size() >= 6) { vf::sample("histories", [&] { return describe(k); }); }
            return d;
        });
    }
}

std::string vf_replay(std::string const&, std::string const& cs)
{
    auto k = vf::parse_ops(cs);
    vf::Flight<OpsCase> fl("replay", k);
    std::fprintf(stderr, "replaying: %s\n", describe(k).c_str());
    return run_case(k, 0);
}
