// C03 — lifetimes of the elements of static_vector / inplace_vector / stack for move-only (TMO) and copy-only (TCO)
// element types (C01 runs the copy+move element type against std::vector; here the copy+move type is only added for the
// self-swap / self-move-assignment ops C01 does not have).  Oracle: see props/C03_shared.cpp.
// Engines: E1 rapidcheck histories + E2 all op pairs (thorough: triples) after a fixed fill prefix for the small capacities.
//
// Not part of the check because it does not compile on this tree: assignment / swap of inplace_vector (its user-declared
// move constructor deletes the assignment operators), assignment of stack (same reason), copy operations with TMO.
// inplace_vector objects are always value-initialised (`V v{}`): the missing `_size` initialiser belongs to C02.
#include <etl/inplace_vector.hpp>
#include <etl/stack.hpp>
#include <etl/vector.hpp>

#include "C03_shared.cpp"

namespace {

using namespace c03;

template <typename V>
auto snap(V const& v) -> std::vector<int>
{
    std::vector<int> r;
    for (auto const& e : v) { r.push_back(e.get()); }
    return r;
}
// every element the owner exposes must be a live object (Tracked::get() consults the registry)
template <typename V>
void touch(V const& v)
{
    for (auto const& e : v) { (void)e.get(); }
}

struct Even {
    template <typename T>
    auto operator()(T const& x) const -> bool
    {
        return x.get() % 2 == 0;
    }
};

// ================================================================== static_vector
enum Code : std::uint32_t {
    EMPLACE_BACK, PUSH_RREF, PUSH_CREF, POP_BACK, INSERT_RREF, INSERT_CREF, INSERT_N, INSERT_RANGE, MOVE_INSERT, EMPLACE_POS, ERASE_POS, ERASE_RANGE,
    RESIZE, RESIZE_VAL, ASSIGN_N, ASSIGN_RANGE, CLEAR, WRITE, SWAP_MEMBER, SWAP_FREE, SELF_SWAP_MEMBER, SELF_SWAP_FREE, COPY_CTOR, COPY_ASSIGN,
    SELF_COPY_ASSIGN, MOVE_CTOR, MOVE_ASSIGN, SELF_MOVE_ASSIGN, FREE_ERASE, FREE_ERASE_IF, CTOR_N, CTOR_N_VAL, CTOR_RANGE, CTOR_CARRAY, FILL,
    NCODES
};
char const* const code_names[] = {"emplace_back", "push_back(&&)", "push_back(const&)", "pop_back", "insert(pos,&&)", "insert(pos,const&)", "insert(pos,n,x)", "insert(pos,first,last)",
    "move_insert(pos,first,last)", "emplace(pos,x)", "erase(pos)", "erase(first,last)", "resize(n)", "resize(n,x)", "assign(n,x)", "assign(first,last)", "clear", "v[i]=T", "swap(member)",
    "swap(free)", "self swap(member)", "self swap(free)", "copy-ctor", "copy-assign", "self copy-assign", "move-ctor+refill source", "move-assign+refill source", "self move-assign",
    "erase(c,v)", "erase_if(c,even)", "ctor(n)", "ctor(n,x)", "ctor(first,last)", "ctor(T(&&)[k])", "fill to capacity"};
static_assert(sizeof(code_names) / sizeof(code_names[0]) == NCODES);

constexpr auto move_only_remap(std::uint32_t code) -> std::uint32_t
{
    switch (code) {
    case PUSH_CREF: return PUSH_RREF;
    case INSERT_CREF: return INSERT_RREF;
    case INSERT_N: return EMPLACE_POS;
    case INSERT_RANGE: return MOVE_INSERT;
    case RESIZE_VAL: return RESIZE;
    case ASSIGN_N: return MOVE_ASSIGN;
    case ASSIGN_RANGE: return MOVE_INSERT;
    case COPY_CTOR: return MOVE_CTOR;
    case COPY_ASSIGN: return MOVE_ASSIGN;
    case SELF_COPY_ASSIGN: return SELF_MOVE_ASSIGN;
    case CTOR_N_VAL: return CTOR_N;
    case CTOR_RANGE: return CTOR_CARRAY;
    default: return code;
    }
}

template <typename T, std::size_t N>
struct SV {
    using V                  = etl::static_vector<T, N>;
    static constexpr bool CP = std::is_copy_constructible_v<T>;
    // static_vector<move-only> declares its move assignment with `requires is_assignable_v<T&, T&>` (i.e. it asks for copy
    // assignment), so it is neither move-assignable nor swappable (swap's body needs the move assignment): those ops do
    // not compile for TMO on this tree and are therefore not part of the check for TMO.
    static constexpr bool MA = std::is_move_assignable_v<V>;
    // insert(pos, T&&) and emplace(pos, args...) form their one-element range with `&x, &x + 1`: they do not compile for an
    // element type with an overloaded unary operator& (AO) on this tree and are not part of the check for it
    static constexpr bool PA = plain_addr<T>;

    static void give(V& dst, V&& src)
    {
        if constexpr (MA) {
            dst = std::move(src);
        } else {
            dst.clear();
            dst.move_insert(dst.begin(), src.begin(), src.end());
        }
    }

    // the moved-from / copied-from source must accept a fresh assignment and read it back
    static void refill(V& x, std::uint32_t raw, int val, Hist& h, char const* who)
    {
        auto n = std::min<std::size_t>(pick(raw / 4, N), 6);
        std::vector<int> want;
        for (std::size_t i = 0; i < n; ++i) { want.push_back(val + 10 * static_cast<int>(i + 1)); }
        auto how = raw % 4;
        if (how == 0 || !MA) {
            x.clear();
            for (auto w : want) { x.emplace_back(w); }
        } else if (how == 1 || !CP) {
            if constexpr (MA) {
                V fresh;
                for (auto w : want) { fresh.emplace_back(w); }
                x = std::move(fresh);
            }
        } else if (how == 2) {
            if constexpr (CP) {
                V fresh;
                for (auto w : want) { fresh.emplace_back(w); }
                x = fresh;
            }
        } else {
            if constexpr (CP) {
                T t(val + 10);
                x.assign(n, t);
                for (auto& w : want) { w = val + 10; }
            }
        }
        auto got = snap(x);
        if (got != want) { h.fail(std::string(who) + " does not read back a fresh assignment: wrote " + show(want) + " read " + show(got)); }
    }

    static auto run(OpsCase const& k, int stats) -> std::string
    {
        lt::reset();
        Hist h;
        bool filled = false;
        {
            V a;
            V b;
            for (auto const& op : k.ops) {
                bool tb   = (op.c & 1U) != 0;
                V& x      = tb ? b : a;
                V& y      = tb ? a : b;
                int val   = static_cast<int>((op.c >> 1) % 7) + 1;
                auto code = op.code % NCODES;
                if constexpr (!CP) { code = move_only_remap(code); }
                if constexpr (!PA) {
                    if (code == INSERT_RREF) { code = INSERT_CREF; }
                    if (code == EMPLACE_POS) { code = INSERT_N; }
                    if (code == CTOR_CARRAY) { code = CTOR_N; } // etl::begin(T(&)[N]) is `&array[0]`: does not compile for AO either
                }
                if constexpr (!MA) {
                    if (code == MOVE_ASSIGN || code == SELF_MOVE_ASSIGN || code == SWAP_MEMBER || code == SWAP_FREE || code == SELF_SWAP_MEMBER || code == SELF_SWAP_FREE) { code = MOVE_CTOR; }
                }
                std::size_t sz   = x.size();
                std::size_t room = N - sz;
                if (room == 0 && (code == EMPLACE_BACK || code == PUSH_RREF || code == PUSH_CREF || code == INSERT_RREF || code == INSERT_CREF || code == EMPLACE_POS)) { code = sz == 0 ? CLEAR : POP_BACK; }
                if (sz == 0 && (code == POP_BACK || code == ERASE_POS || code == WRITE)) { code = N > 0 ? EMPLACE_BACK : CLEAR; }
                auto pos = static_cast<std::ptrdiff_t>(op.a % (sz + 1));
                if (stats > 1) { vf::count((std::string("sv.") + code_names[code]).c_str()); }
                int sv[8] = {val, val + 1, val + 2, val + 3, val + 4, val + 5, val + 6, val + 7};
                switch (code) {
                case EMPLACE_BACK: x.emplace_back(val); break;
                case PUSH_RREF: x.push_back(T(val)); break;
                case PUSH_CREF: {
                    if constexpr (CP) {
                        if (sz > 0 && (op.b & 32U) != 0) { // the argument aliases an element (valid for std::vector)
                            x.push_back(x[op.a % sz]);
                        } else {
                            T t(val);
                            x.push_back(t);
                        }
                    }
                    break;
                }
                case POP_BACK: x.pop_back(); break;
                case INSERT_RREF: {
                    if constexpr (PA) {
                        x.insert(x.begin() + pos, T(val));
                        h.middle |= (pos > 0 && static_cast<std::size_t>(pos) < sz);
                    }
                    break;
                }
                case INSERT_CREF: {
                    if constexpr (CP) {
                        if (sz > 0 && (op.b & 32U) != 0) { // the argument aliases an element (valid for std::vector)
                            x.insert(x.begin() + pos, x[op.c % sz]);
                        } else {
                            T t(val);
                            x.insert(x.begin() + pos, t);
                        }
                        h.middle |= (pos > 0 && static_cast<std::size_t>(pos) < sz);
                    }
                    break;
                }
                case INSERT_N: {
                    if constexpr (CP) {
                        auto n = pick(op.b, room);
                        if (sz > 0 && (op.c & 32U) != 0) { // the argument aliases an element (valid for std::vector)
                            x.insert(x.begin() + pos, n, x[op.c % sz]);
                        } else {
                            T t(val);
                            x.insert(x.begin() + pos, n, t);
                        }
                        h.middle |= (n > 0 && pos > 0 && static_cast<std::size_t>(pos) < sz);
                    }
                    break;
                }
                case INSERT_RANGE: {
                    if constexpr (CP) {
                        auto n = std::min<std::size_t>(pick(op.b, room), 8);
                        T src[8]{T(sv[0]), T(sv[1]), T(sv[2]), T(sv[3]), T(sv[4]), T(sv[5]), T(sv[6]), T(sv[7])};
                        T const* f = src;
                        x.insert(x.begin() + pos, f, f + n);
                        h.poll();
                        h.middle |= (n > 0 && pos > 0 && static_cast<std::size_t>(pos) < sz);
                    }
                    break;
                }
                case MOVE_INSERT: {
                    auto n = std::min<std::size_t>(pick(op.b, room), 4);
                    T src[4]{T(sv[0]), T(sv[1]), T(sv[2]), T(sv[3])};
                    x.move_insert(x.begin() + pos, src, src + n);
                    h.poll();
                    h.middle |= (n > 0 && pos > 0 && static_cast<std::size_t>(pos) < sz);
                    break;
                }
                case EMPLACE_POS: {
                    if constexpr (PA) {
                        x.emplace(x.begin() + pos, val);
                        h.middle |= (pos > 0 && static_cast<std::size_t>(pos) < sz);
                    }
                    break;
                }
                case ERASE_POS: {
                    auto p = static_cast<std::ptrdiff_t>(op.a % sz);
                    x.erase(x.begin() + p);
                    h.middle |= (p > 0 && static_cast<std::size_t>(p) + 1 < sz);
                    break;
                }
                case ERASE_RANGE: {
                    auto f = pos;
                    auto l = f + static_cast<std::ptrdiff_t>(pick(op.b, sz - static_cast<std::size_t>(f)));
                    x.erase(x.begin() + f, x.begin() + l);
                    h.middle |= (f > 0 && l > f && static_cast<std::size_t>(l) < sz);
                    break;
                }
                case RESIZE: x.resize(pick(op.b, N)); break;
                case RESIZE_VAL: {
                    if constexpr (CP) {
                        T t(val);
                        x.resize(pick(op.b, N), t);
                    }
                    break;
                }
                case ASSIGN_N: {
                    if constexpr (CP) {
                        T t(val);
                        x.assign(pick(op.b, N), t);
                    }
                    break;
                }
                case ASSIGN_RANGE: {
                    if constexpr (CP) {
                        auto n = std::min<std::size_t>(pick(op.b, N), 8);
                        T src[8]{T(sv[0]), T(sv[1]), T(sv[2]), T(sv[3]), T(sv[4]), T(sv[5]), T(sv[6]), T(sv[7])};
                        T const* f = src;
                        x.assign(f, f + n);
                        h.poll();
                    }
                    break;
                }
                case CLEAR: x.clear(); break;
                case WRITE: x[op.a % sz] = T(val); break;
                case SWAP_MEMBER: {
                    if constexpr (MA) {
                        h.swapped |= (!x.empty() && !y.empty());
                        x.swap(y);
                    }
                    break;
                }
                case SWAP_FREE: {
                    if constexpr (MA) {
                        h.swapped |= (!x.empty() && !y.empty());
                        using etl::swap;
                        swap(x, y);
                    }
                    break;
                }
                case SELF_SWAP_MEMBER:
                case SELF_SWAP_FREE: {
                    if constexpr (MA) {
                        auto before = snap(x);
                        V& alias    = x;
                        if (code == SELF_SWAP_MEMBER) {
                            x.swap(alias);
                        } else {
                            using etl::swap;
                            swap(x, alias);
                        }
                        auto after = snap(x);
                        if (before != after) { h.fail("self-swap changed the value: " + show(before) + " -> " + show(after)); }
                        h.selfop |= !before.empty();
                    }
                    break;
                }
                case COPY_CTOR: {
                    if constexpr (CP) {
                        V c(x);
                        h.poll();
                        touch(c);
                        // the copy is an independent owner: mutate it, then either drop it or keep it in y
                        if (!c.empty()) { c.pop_back(); }
                        if (c.size() < N) { c.emplace_back(99); }
                        if ((op.b & 1U) != 0) { give(y, std::move(c)); }
                        // copied-from source stays assignable
                        if ((op.b & 2U) != 0) { refill(x, op.b / 4, val, h, "copied-from source"); }
                    }
                    break;
                }
                case COPY_ASSIGN: {
                    if constexpr (CP) {
                        y = x;
                        if ((op.b & 2U) != 0) { refill(x, op.b / 4, val, h, "copied-from source"); }
                    }
                    break;
                }
                case SELF_COPY_ASSIGN: {
                    if constexpr (CP) {
                        auto before = snap(x);
                        V& alias    = x;
                        x           = alias;
                        auto after  = snap(x);
                        if (before != after) { h.fail("self copy-assignment changed the value: " + show(before) + " -> " + show(after)); }
                        h.selfop |= !before.empty();
                    }
                    break;
                }
                case MOVE_CTOR: {
                    h.moved |= sz > 0;
                    V c(std::move(x));
                    h.poll();
                    touch(c);
                    touch(x); // valid but unspecified: whatever it exposes must be alive
                    refill(x, op.b, val, h, "moved-from source (move construction)");
                    if ((op.c & 16U) != 0) { give(y, std::move(c)); }
                    break;
                }
                case MOVE_ASSIGN: {
                    if constexpr (MA) {
                        h.moved |= sz > 0;
                        y = std::move(x);
                        touch(x);
                        refill(x, op.b, val, h, "moved-from source (move assignment)");
                    }
                    break;
                }
                case SELF_MOVE_ASSIGN: {
                    // std leaves the value unspecified: only validity is demanded
                    if constexpr (MA) {
                        V& alias = x;
                        x        = std::move(alias);
                        touch(x);
                        h.selfop |= sz > 0;
                        if ((op.b & 1U) != 0) { refill(x, op.b / 2, val, h, "self-move-assigned object"); }
                    }
                    break;
                }
                case FREE_ERASE: (void)etl::erase(x, T(val)); break;
                case FREE_ERASE_IF: (void)etl::erase_if(x, Even{}); break;
                case CTOR_N: {
                    V c(pick(op.b, N));
                    h.poll();
                    touch(c);
                    give(y, std::move(c));
                    break;
                }
                case CTOR_N_VAL: {
                    if constexpr (CP) {
                        T t(val);
                        V c(pick(op.b, N), t);
                        h.poll();
                        touch(c);
                        y = c;
                    }
                    break;
                }
                case CTOR_RANGE: {
                    if constexpr (CP) {
                        auto n = std::min<std::size_t>(pick(op.b, N), 8);
                        T src[8]{T(sv[0]), T(sv[1]), T(sv[2]), T(sv[3]), T(sv[4]), T(sv[5]), T(sv[6]), T(sv[7])};
                        T const* f = src;
                        V c(f, f + n);
                        h.poll();
                        touch(c);
                        give(y, std::move(c));
                    }
                    break;
                }
                case FILL: {
                    // exactly N - size() pushes, counted here (not by re-reading size(), which is what a too narrow size member
                    // would wrap): every element constructed now must be readable afterwards and destroyed with the owner
                    for (std::size_t i = sz; i < N; ++i) {
                        if ((op.b & 1U) != 0) {
                            x.emplace_back(val + static_cast<int>(i % 5));
                        } else {
                            x.push_back(T(val + static_cast<int>(i % 5)));
                        }
                    }
                    filled = true;
                    break;
                }
                case CTOR_CARRAY: {
                    if constexpr (!PA) {
                    } else if constexpr (N >= 3) {
                        T src[3]{T(sv[0]), T(sv[1]), T(sv[2])};
                        V c(std::move(src));
                        h.poll();
                        touch(c);
                        give(y, std::move(c));
                    } else if constexpr (N >= 1) {
                        T src[1]{T(sv[0])};
                        V c(std::move(src));
                        h.poll();
                        touch(c);
                        give(y, std::move(c));
                    }
                    break;
                }
                default: break;
                }
                touch(a);
                touch(b);
                if (!h.step()) {
                    h.err = std::string("after ") + code_names[code] + ": " + h.err;
                    break;
                }
            }
        }
        if (h.err.empty()) { h.err = lt::check_empty(); }
        if (stats > 1 && N >= 255) { vf::label("static_vector.N>=255 filled to capacity", filled); }
        h.labels("static_vector", stats, k, MA ? (N >= 3 ? "mvsf" : "vsf") : (N >= 3 ? "mv" : "v")); // a middle position needs 3 elements
        return h.err;
    }
};

// ================================================================== inplace_vector
enum ICode : std::uint32_t { I_TRY_EMPLACE, I_TRY_PUSH_RREF, I_TRY_PUSH_CREF, I_UNCHECKED_EMPLACE, I_UNCHECKED_PUSH_RREF, I_UNCHECKED_PUSH_CREF, I_POP, I_CLEAR, I_WRITE, I_COPY_CTOR, I_MOVE_CTOR, I_MOVE_CTOR_KEEP, I_FILL, I_NCODES };
char const* const icode_names[] = {"try_emplace_back", "try_push_back(&&)", "try_push_back(const&)", "unchecked_emplace_back", "unchecked_push_back(&&)", "unchecked_push_back(const&)", "pop_back", "clear",
    "v[i]=T", "copy-ctor", "move-ctor+refill source", "move-ctor, moved-to object replaces B", "fill to capacity"};
static_assert(sizeof(icode_names) / sizeof(icode_names[0]) == I_NCODES);

template <typename T, std::size_t N>
struct IV {
    using V                  = etl::inplace_vector<T, N>;
    static constexpr bool CP = std::is_copy_constructible_v<T>;

    static auto run(OpsCase const& k, int stats) -> std::string
    {
        lt::reset();
        Hist h;
        bool filled = false;
        {
            V a{};
            V b{};
            for (auto const& op : k.ops) {
                bool tb   = (op.c & 1U) != 0;
                V& x      = tb ? b : a;
                int val   = static_cast<int>((op.c >> 1) % 7) + 1;
                auto code = op.code % I_NCODES;
                if constexpr (!CP) {
                    if (code == I_TRY_PUSH_CREF) { code = I_TRY_PUSH_RREF; }
                    if (code == I_UNCHECKED_PUSH_CREF) { code = I_UNCHECKED_PUSH_RREF; }
                    if (code == I_COPY_CTOR) { code = I_MOVE_CTOR; }
                }
                std::size_t sz = x.size();
                bool full      = sz == N;
                if (full && (code == I_UNCHECKED_EMPLACE || code == I_UNCHECKED_PUSH_RREF || code == I_UNCHECKED_PUSH_CREF)) { code = I_TRY_EMPLACE + (code - I_UNCHECKED_EMPLACE); }
                if (sz == 0 && (code == I_POP || code == I_WRITE)) { code = I_TRY_EMPLACE; }
                if (stats > 1) { vf::count((std::string("iv.") + icode_names[code]).c_str()); }
                auto refill = [&](V& s, std::uint32_t raw, char const* who) {
                    s.clear();
                    auto n = std::min<std::size_t>(pick(raw, N), 6);
                    std::vector<int> want;
                    for (std::size_t i = 0; i < n; ++i) {
                        want.push_back(val + 10 * static_cast<int>(i + 1));
                        (void)s.try_emplace_back(want.back());
                    }
                    auto got = snap(s);
                    if (got != want) { h.fail(std::string(who) + " does not read back fresh elements: wrote " + show(want) + " read " + show(got)); }
                };
                switch (code) {
                case I_TRY_EMPLACE: (void)x.try_emplace_back(val); break;
                case I_TRY_PUSH_RREF: (void)x.try_push_back(T(val)); break;
                case I_TRY_PUSH_CREF: {
                    if constexpr (CP) {
                        T t(val);
                        (void)x.try_push_back(t);
                    }
                    break;
                }
                case I_UNCHECKED_EMPLACE: {
                    if constexpr (N > 0) { (void)x.unchecked_emplace_back(val); }
                    break;
                }
                case I_UNCHECKED_PUSH_RREF: {
                    if constexpr (N > 0) { (void)x.unchecked_push_back(T(val)); }
                    break;
                }
                case I_UNCHECKED_PUSH_CREF: {
                    if constexpr (N > 0 && CP) {
                        T t(val);
                        (void)x.unchecked_push_back(t);
                    }
                    break;
                }
                case I_POP: {
                    if constexpr (N > 0) { x.pop_back(); }
                    break;
                }
                case I_CLEAR: x.clear(); break;
                case I_WRITE: {
                    if constexpr (N > 0) { x[op.a % sz] = T(val); }
                    break;
                }
                case I_COPY_CTOR: {
                    if constexpr (N > 0 && CP) {
                        V c(x);
                        h.poll();
                        touch(c);
                        if (!c.empty()) { c.pop_back(); }
                        (void)c.try_emplace_back(99);
                        if ((op.b & 2U) != 0) { refill(x, op.b / 4, "copied-from source"); }
                    }
                    break;
                }
                case I_MOVE_CTOR: {
                    if constexpr (N > 0) {
                        h.moved |= sz > 0;
                        V c(std::move(x));
                        h.poll();
                        touch(c);
                        touch(x);
                        refill(x, op.b, "moved-from source (move construction)");
                    }
                    break;
                }
                case I_FILL: {
                    // exactly N - size() pushes, counted here (see static_vector FILL)
                    if constexpr (N > 0) {
                        for (std::size_t i = sz; i < N; ++i) {
                            if ((op.b & 1U) != 0) {
                                (void)x.unchecked_emplace_back(val + static_cast<int>(i % 5));
                            } else {
                                (void)x.try_push_back(T(val + static_cast<int>(i % 5)));
                            }
                        }
                    }
                    filled = true;
                    break;
                }
                case I_MOVE_CTOR_KEEP: {
                    // not assignable: the only way to hand elements from one object to another is a chain of move constructions
                    if constexpr (N > 0) {
                        h.moved |= sz > 0;
                        V c(std::move(x));
                        h.poll();
                        touch(x);
                        V d(std::move(c));
                        h.poll();
                        touch(c);
                        touch(d);
                        x.clear();
                        for (auto& e : d) { (void)x.try_push_back(std::move(e)); }
                    }
                    break;
                }
                default: break;
                }
                touch(a);
                touch(b);
                if (!h.step()) {
                    h.err = std::string("after ") + icode_names[code] + ": " + h.err;
                    break;
                }
            }
        }
        if (h.err.empty()) { h.err = lt::check_empty(); }
        if (stats > 1 && N >= 255) { vf::label("inplace_vector.N>=255 filled to capacity", filled); }
        h.labels("inplace_vector", stats, k, "v");
        return h.err;
    }
};

// ================================================================== stack<T, static_vector<T,N>>
enum SCode : std::uint32_t { S_EMPLACE, S_PUSH_RREF, S_PUSH_CREF, S_POP, S_WRITE_TOP, S_SWAP_MEMBER, S_SWAP_FREE, S_SELF_SWAP_MEMBER, S_SELF_SWAP_FREE, S_COPY_CTOR, S_MOVE_CTOR, S_CTOR_CONT_COPY, S_CTOR_CONT_MOVE, S_NCODES };
char const* const scode_names[] = {"emplace", "push(&&)", "push(const&)", "pop", "top()=T", "swap(member)", "swap(free)", "self swap(member)", "self swap(free)", "copy-ctor", "move-ctor+refill source",
    "ctor(container const&)", "ctor(container&&)"};
static_assert(sizeof(scode_names) / sizeof(scode_names[0]) == S_NCODES);

template <typename T, std::size_t N>
struct STK {
    using C                  = etl::static_vector<T, N>;
    using V                  = etl::stack<T, C>;
    static constexpr bool CP = std::is_copy_constructible_v<T>;
    static constexpr bool MA = std::is_move_assignable_v<C>; // stack::swap needs a swappable container (see SV::MA)
    struct Peek : V { // read access to the protected container
        static auto cont(V const& v) -> C const& { return v.*(&Peek::c); }
    };

    static auto run(OpsCase const& k, int stats) -> std::string
    {
        lt::reset();
        Hist h;
        {
            V a;
            V b;
            for (auto const& op : k.ops) {
                bool tb   = (op.c & 1U) != 0;
                V& x      = tb ? b : a;
                V& y      = tb ? a : b;
                int val   = static_cast<int>((op.c >> 1) % 7) + 1;
                auto code = op.code % S_NCODES;
                if constexpr (!CP) {
                    if (code == S_PUSH_CREF) { code = S_PUSH_RREF; }
                    if (code == S_COPY_CTOR) { code = S_MOVE_CTOR; }
                    if (code == S_CTOR_CONT_COPY) { code = S_CTOR_CONT_MOVE; }
                }
                if constexpr (!MA) {
                    if (code >= S_SWAP_MEMBER && code <= S_SELF_SWAP_FREE) { code = S_MOVE_CTOR; }
                }
                std::size_t sz = x.size();
                if (sz == N && code <= S_PUSH_CREF) { code = sz == 0 ? S_MOVE_CTOR : S_POP; }
                if (sz == 0 && (code == S_POP || code == S_WRITE_TOP)) { code = N > 0 ? S_EMPLACE : S_MOVE_CTOR; }
                if (stats > 1) { vf::count((std::string("stk.") + scode_names[code]).c_str()); }
                switch (code) {
                case S_EMPLACE: x.emplace(val); break;
                case S_PUSH_RREF: x.push(T(val)); break;
                case S_PUSH_CREF: {
                    if constexpr (CP) {
                        T t(val);
                        x.push(t);
                    }
                    break;
                }
                case S_POP: x.pop(); break;
                case S_WRITE_TOP: x.top() = T(val); break;
                case S_SWAP_MEMBER: {
                    if constexpr (MA) {
                        h.swapped |= (!x.empty() && !y.empty());
                        x.swap(y);
                    }
                    break;
                }
                case S_SWAP_FREE: {
                    if constexpr (MA) {
                        h.swapped |= (!x.empty() && !y.empty());
                        using etl::swap;
                        swap(x, y);
                    }
                    break;
                }
                case S_SELF_SWAP_MEMBER:
                case S_SELF_SWAP_FREE: {
                    if constexpr (MA) {
                        auto before = snap(Peek::cont(x));
                        V& alias    = x;
                        if (code == S_SELF_SWAP_MEMBER) {
                            x.swap(alias);
                        } else {
                            using etl::swap;
                            swap(x, alias);
                        }
                        auto after = snap(Peek::cont(x));
                        if (before != after) { h.fail("self-swap changed the value: " + show(before) + " -> " + show(after)); }
                        h.selfop |= !before.empty();
                    }
                    break;
                }
                case S_COPY_CTOR: {
                    if constexpr (CP) {
                        V c(x);
                        h.poll();
                        touch(Peek::cont(c));
                        if (!c.empty()) { c.pop(); }
                        if ((op.b & 1U) != 0) { y.swap(c); }
                    }
                    break;
                }
                case S_MOVE_CTOR: {
                    h.moved |= sz > 0;
                    V c(std::move(x));
                    h.poll();
                    touch(Peek::cont(c));
                    touch(Peek::cont(x));
                    // moved-from source: valid but unspecified; drain whatever it says it holds, refill, read back
                    while (!x.empty()) { x.pop(); }
                    auto n = std::min<std::size_t>(pick(op.b, N), 6);
                    std::vector<int> want;
                    for (std::size_t i = 0; i < n; ++i) {
                        want.push_back(val + 10 * static_cast<int>(i + 1));
                        x.emplace(want.back());
                    }
                    auto got = snap(Peek::cont(x));
                    if (got != want) { h.fail("moved-from source does not read back fresh elements: wrote " + show(want) + " read " + show(got)); }
                    if constexpr (MA) {
                        if ((op.c & 16U) != 0) { y.swap(c); }
                    }
                    break;
                }
                case S_CTOR_CONT_COPY: {
                    if constexpr (CP) {
                        C cont;
                        auto n = pick(op.b, N);
                        for (std::size_t i = 0; i < n; ++i) { cont.emplace_back(val + static_cast<int>(i)); }
                        V s(cont);
                        h.poll();
                        touch(Peek::cont(s));
                        y.swap(s);
                    }
                    break;
                }
                case S_CTOR_CONT_MOVE: {
                    C cont;
                    auto n = pick(op.b, N);
                    for (std::size_t i = 0; i < n; ++i) { cont.emplace_back(val + static_cast<int>(i)); }
                    V s(std::move(cont));
                    h.poll();
                    touch(Peek::cont(s));
                    touch(cont);
                    if constexpr (MA) { y.swap(s); }
                    break;
                }
                default: break;
                }
                touch(Peek::cont(a));
                touch(Peek::cont(b));
                if (!h.step()) {
                    h.err = std::string("after ") + scode_names[code] + ": " + h.err;
                    break;
                }
            }
        }
        if (h.err.empty()) { h.err = lt::check_empty(); }
        h.labels("stack", stats, k, MA ? "vsf" : "v");
        return h.err;
    }
};

using TCM = lt::TCM;
using TMO = lt::TMO;
using TCO = lt::TCO;
#define SVC(T, N) Config{"static_vector<" #T "," #N ">", &SV<T, N>::run, NCODES, code_names, (N) <= 2}
#define IVC(T, N) Config{"inplace_vector<" #T "," #N ">", &IV<T, N>::run, I_NCODES, icode_names, (N) <= 2}
#define SVCB(T, N) Config{"static_vector<" #T "," #N ">", &SV<T, N>::run, NCODES, code_names, false, 25}
#define IVCB(T, N) Config{"inplace_vector<" #T "," #N ">", &IV<T, N>::run, I_NCODES, icode_names, false, 25}
#define STC(T, N) Config{"stack<" #T ",static_vector<" #T "," #N ">>", &STK<T, N>::run, S_NCODES, scode_names, (N) <= 2}

// The TU is built three times (registry flags -DC03_PART=1 / =2 / =3) so that the parts compile in parallel.
#ifndef C03_PART
#define C03_PART 0
#endif
void init_configs()
{
    configs() = {
#if C03_PART == 0 || C03_PART == 1
        SVC(TMO, 0), SVC(TMO, 1), SVC(TMO, 2), SVC(TMO, 4), SVC(TMO, 16), SVC(TCO, 0), SVC(TCO, 1), SVC(TCO, 2), SVC(TCO, 4), SVC(TCO, 16), SVC(TCM, 2), SVC(TCM, 5),
#endif
#if C03_PART == 0 || C03_PART == 3
        // the smallest_size_t boundary: capacity 255 / 256 with every element kind; the FILL op makes the histories reach full()
        SVCB(TMO, 255), SVCB(TMO, 256), SVCB(TCO, 255), SVCB(TCO, 256), SVCB(TCM, 255), SVCB(TCM, 256),
        IVCB(TMO, 255), IVCB(TMO, 256), IVCB(TCO, 255), IVCB(TCO, 256), IVCB(TCM, 255), IVCB(TCM, 256),
        // element shapes of C03_shared.cpp: NC copy may throw, NM move may throw, AO overloaded unary operator&
        SVC(NC<0>, 4), SVC(NM<0>, 4), SVC(AO<0>, 4),
#endif
#if C03_PART == 0 || C03_PART == 2
        IVC(TMO, 0), IVC(TMO, 1), IVC(TMO, 2), IVC(TMO, 4), IVC(TMO, 16), IVC(TCO, 0), IVC(TCO, 1), IVC(TCO, 2), IVC(TCO, 4), IVC(TCO, 16), IVC(TCM, 3),
        STC(TMO, 1), STC(TMO, 4), STC(TCO, 1), STC(TCO, 4), STC(TCM, 2), STC(TCM, 5),
        IVC(NC<0>, 4), IVC(NM<0>, 4), IVC(AO<0>, 4), STC(NC<0>, 4), STC(NM<0>, 4), STC(AO<0>, 4),
#endif
    };
}

} // namespace

void vf_run(vf::Ctx& c)
{
    init_configs();
    // fill prefix: three elements into A, two into B (re-mapped to what the capacity allows)
    c03::run_pairs(c, {RawOp{0, 0, 0, 2}, RawOp{0, 0, 0, 4}, RawOp{0, 0, 0, 6}, RawOp{0, 0, 0, 3}, RawOp{0, 0, 0, 5}});
    c03::run_histories(c, 2000, 16000, 30); // (capacity 255/256 configurations run a quarter of it: every op reads up to 512 elements)
}

std::string vf_replay(std::string const&, std::string const& cs)
{
    init_configs();
    return c03::replay_history(cs);
}
