// C20 (part 2 of 4) — etl::pair / etl::tuple expose their elements via get / structured bindings / apply / tuple_cat /
// make_from_tuple / forward_as_tuple / tie / make_tuple exactly as std::pair / std::tuple do, preserving each element's
// value category (type and value-category part; the value part is C20_pair_tuple.cpp).
//
// Differential form (C20_common.hpp): the outcome strings contain the spelled-out RESULT TYPES (namespace normalised),
// whether a returned reference refers to the element itself, the value category every instrumented callee observed
// for each argument, and the moved-from markers of the sources.  A type mismatch is therefore a run-time failure whose
// case string (the family name) names the obligation.
//
//   types.pair<T1,T2>, types.tuple<T1,T2>   all 25 combinations of {int, TMO (move only), TCO (copy only), int&,
//        int const}: value construction (source state afterwards), first_type/second_type, tuple_size, tuple_element
//        (also of the const tuple), get<I> on & / const& / && / const&&, structured bindings (pair: auto&, auto const&,
//        auto&&, auto), apply and make_from_tuple on all four categories, copy (if copyable) and move construction
//   types.tuple<...>   arities 1, 3, 4 with mixed kinds
//   tuple.cat          tuple_cat: 1 argument (lvalue, const lvalue, rvalue, pair, nested tuple, const / reference
//        elements), 2 and 3 arguments (all rvalues, all const lvalues, mixed const lvalue + rvalue, tuple + pair)
//   tuple.factories    forward_as_tuple, tie, make_tuple (reference_wrapper unwrapping), make_pair
//   *.init_list_*      make_from_tuple and the pair / tuple constructors with targets / elements that have an initializer_list
//        constructor (std::vector<int>, a user type): T(a, b), never T{a, b}
//   forward            etl::forward / etl::forward_like result types against [forward] (hand model: std::forward_like
//        is C++23)
//
// EXCLUDED because it does not exist / does not compile on the pinned tree (g++ 12, probed one by one):
//   * get<T>(tuple) (declared as friend, never defined), get<T>(pair) (not declared)
//   * get<I>(pair&&), get<I>(pair const&&), get<I>(tuple&&), get<I>(tuple const&&) when element I is an lvalue reference
//     (the body moves the member: "cannot bind non-const lvalue reference to an rvalue") — and everything built on it:
//     apply / make_from_tuple / tuple_cat over an rvalue tuple or pair with a reference element (this includes the
//     idiomatic make_from_tuple<T>(forward_as_tuple(lvalue, ...)))
//   * structured bindings on etl::tuple (no std::tuple_size specialisation; `_impl` is private); pair binds by members
//   * tuple assignment and therefore `tie(a,b) = t`
//   * copy construction of a one-element tuple<int&> from a NON-const lvalue (the variadic converting constructor is
//     selected and fails inside); copies are made from a const lvalue
//   * make_tuple(ref(x)) for a class-type x (tuple_leaf brace-initialises X& from the reference_wrapper); int works
//   * apply(f, pair) and apply(f, array) (etl::get<I> is looked up where apply is defined, before pair's overloads)
//   * tuple_cat() without arguments, with a non-const lvalue argument when there are >= 2 arguments, with move-only
//     elements (CTAD on the result needs copyable elements), with an rvalue tuple that has a reference element
#include <etl/functional.hpp>
#include <etl/tuple.hpp>
#include <etl/utility.hpp>

#include "verif.hpp"

#include "tracked.hpp"

#include "C20_common.hpp"

#include <initializer_list>
#include <vector>

namespace {

using namespace c20;

// ------------------------------------------------------------------ get<I>
[[gnu::noinline]] void put_get(Out& o, std::size_t i, char const* c, std::string const& type, bool same, int value)
{
    o << " get<" << i << ">(" << c << ")->" << type << ":elem=" << same << ":" << value;
}

template <typename L, typename Obj, std::size_t I, typename Ref>
void one_get(Out& o, Ref&& r, Obj& obj, char const* c)
{
    using R = decltype(L::template get<I>(std::forward<Ref>(r)));
    R res   = L::template get<I>(std::forward<Ref>(r)); // binds only, nothing is moved
    put_get(o, I, c, type_name<R>(), std::addressof(res) == std::addressof(L::template get<I>(obj)), val_of(res));
}

template <typename L, typename Obj, typename E, std::size_t I>
void gets_of(Out& o, Obj& obj)
{
    one_get<L, Obj, I>(o, obj, obj, "&");
    one_get<L, Obj, I>(o, std::as_const(obj), obj, "const&");
    if constexpr (!is_lref<E>) { // EXCLUDED for reference elements: does not compile
        one_get<L, Obj, I>(o, std::move(obj), obj, "&&");
        one_get<L, Obj, I>(o, std::move(std::as_const(obj)), obj, "const&&");
    }
}

[[gnu::noinline]] void put_sb(Out& o, char const* how, std::string const& ta, std::string const& tb, bool same)
{
    o << " sb(" << how << ")=" << ta << "," << tb << ":" << same;
}

template <typename L, typename T1, typename T2>
auto types_pair(int /*x*/, int /*y*/) -> std::string
{
    using P = typename L::template pair<T1, T2>;
    Src<T1> s1(1);
    Src<T2> s2(2);
    Out o;
    {
        P p(s1.fwd(), s2.fwd());
        o << "ctor" << show_pair(p) << " src" << show2(s1.state(), s2.state());
        o << " first_type=" << type_name<typename P::first_type>() << " second_type=" << type_name<typename P::second_type>();
        o << " size=" << L::template tuple_size_v<P> << "," << L::template tuple_size_v<P const>;
        o << " elem=" << type_name<typename L::template tuple_element_t<0, P>>() << "," << type_name<typename L::template tuple_element_t<1, P>>();
        o << " const-elem=" << type_name<typename L::template tuple_element_t<0, P const>>() << "," << type_name<typename L::template tuple_element_t<1, P const>>();
        gets_of<L, P, T1, 0>(o, p);
        gets_of<L, P, T2, 1>(o, p);
        // get<I> refers to first / second
        o << " get0=first:" << (std::addressof(L::template get<0>(p)) == std::addressof(p.first)) << " get1=second:" << (std::addressof(L::template get<1>(p)) == std::addressof(p.second));
        // structured bindings
        {
            auto& [a, b] = p;
            put_sb(o, "auto&", type_name<decltype(a)>(), type_name<decltype(b)>(), std::addressof(a) == std::addressof(p.first) && std::addressof(b) == std::addressof(p.second));
        }
        {
            auto const& [a, b] = p;
            put_sb(o, "auto const&", type_name<decltype(a)>(), type_name<decltype(b)>(), std::addressof(a) == std::addressof(p.first) && std::addressof(b) == std::addressof(p.second));
        }
        {
            auto&& [a, b] = std::move(p);
            put_sb(o, "auto&&", type_name<decltype(a)>(), type_name<decltype(b)>(), std::addressof(a) == std::addressof(p.first) && std::addressof(b) == std::addressof(p.second));
        }
        if constexpr (copyable_kind<T1> && copyable_kind<T2>) {
            auto [a, b] = p;
            put_sb(o, "auto", type_name<decltype(a)>(), type_name<decltype(b)>(), val_of(a) == val_of(p.first) && val_of(b) == val_of(p.second));
            P c{p};
            o << " copy" << show_pair(c);
        }
        P m{std::move(p)};
        o << " move" << show_pair(m) << " from" << show_pair(p);
    }
    o << " src-after" << show2(s1.state(), s2.state());
    return o.s;
}

// ------------------------------------------------------------------ apply / make_from_tuple
[[gnu::noinline]] void put_arg(std::string& log, char const* c, int v)
{
    log += " arg:";
    log += c;
    log += "=";
    log += sv(v);
}
struct ApplyLog {
    std::string* out;
    template <typename A0, typename... A>
    auto operator()(A0&& a0, A&&... a) const -> A0&&
    {
        put_arg(*out, cat<A0&&>(), val_of(a0));
        (put_arg(*out, cat<A&&>(), val_of(a)), ...);
        return std::forward<A0>(a0);
    }
};
struct Target {
    std::string log;
    template <typename... A>
    explicit Target(A&&... a)
    {
        (put_arg(log, cat<A&&>(), val_of(a)), ...);
    }
};

template <typename L, typename Tup, typename Ref>
void one_apply(Out& o, Ref&& r, Tup& obj, char const* c)
{
    o << " apply(" << c << "):";
    using R = decltype(L::apply(ApplyLog{&o.s}, std::forward<Ref>(r)));
    R res   = L::apply(ApplyLog{&o.s}, std::forward<Ref>(r));
    o << " ->" << type_name<R>() << ":elem0=" << (std::addressof(res) == std::addressof(L::template get<0>(obj)));
    o << " make_from_tuple(" << c << "):" << L::template make_from_tuple<Target>(std::forward<Ref>(r)).log;
}

template <typename... E, std::size_t... I>
auto make_srcs(std::index_sequence<I...> /*i*/) -> std::tuple<Src<E>...>
{
    return std::tuple<Src<E>...>{Src<E>(static_cast<int>(I) + 1)...}; // values 1,2,3,...
}

template <typename L, typename... E>
auto types_tuple(int /*x*/, int /*y*/) -> std::string
{
    using T     = typename L::template tuple<E...>;
    auto srcs   = make_srcs<E...>(std::index_sequence_for<E...>{});
    auto states = [&] {
        Out s;
        s << "(";
        std::apply([&](auto&... e) { ((s << e.state() << " "), ...); }, srcs);
        s << ")";
        return s.s;
    };
    constexpr bool any_ref  = (is_lref<E> || ...);
    constexpr bool all_copy = (copyable_kind<E> && ...);
    Out o;
    {
        T t = std::apply([](auto&... s) { return T(s.fwd()...); }, srcs);
        o << "ctor" << show_tuple<L>(t) << " src" << states();
        o << " size=" << L::template tuple_size_v<T> << "," << L::template tuple_size_v<T const>;
        [&]<std::size_t... I>(std::index_sequence<I...>) {
            ((o << " elem" << I << "=" << type_name<typename L::template tuple_element_t<I, T>>() << "," << type_name<typename L::template tuple_element_t<I, T const>>()), ...);
            (gets_of<L, T, E, I>(o, t), ...);
        }(std::index_sequence_for<E...>{});
        one_apply<L>(o, t, t, "&");
        one_apply<L>(o, std::as_const(t), t, "const&");
        if constexpr (!any_ref) { // EXCLUDED with reference elements: get<I>(tuple&&) does not compile
            one_apply<L>(o, std::move(t), t, "&&");
            one_apply<L>(o, std::move(std::as_const(t)), t, "const&&");
        }
        if constexpr (all_copy) {
            T c{std::as_const(t)}; // (copying a NON-const lvalue tuple<int&> is EXCLUDED, see above)
            o << " copy" << show_tuple<L>(c);
        }
        T m{std::move(t)};
        o << " move" << show_tuple<L>(m) << " from" << show_tuple<L>(t);
    }
    o << " src-after" << states();
    return o.s;
}

// make_from_tuple over a pair (apply over a pair is EXCLUDED: does not compile)
template <typename L, typename T1, typename T2>
auto mft_pair(int /*x*/, int /*y*/) -> std::string
{
    using P = typename L::template pair<T1, T2>;
    Src<T1> s1(1);
    Src<T2> s2(2);
    P p(s1.fwd(), s2.fwd());
    Out o;
    o << "make_from_tuple(&):" << L::template make_from_tuple<Target>(p).log;
    o << " make_from_tuple(const&):" << L::template make_from_tuple<Target>(std::as_const(p)).log;
    if constexpr (!is_lref<T1> && !is_lref<T2>) {
        o << " make_from_tuple(&&):" << L::template make_from_tuple<Target>(std::move(p)).log;
        o << " make_from_tuple(const&&):" << L::template make_from_tuple<Target>(std::move(std::as_const(p))).log;
    }
    return o.s;
}

// The TU is built twice (registry flags): -DC20_TYPES_PART=1 = pair obligations + tuple_cat + factories + forward,
// -DC20_TYPES_PART=2 = tuple obligations.  Without the macro everything is in one binary.
#if !defined(C20_TYPES_PART)
    #define C20_TYPES_PART 0
#endif

template <typename T1, typename T2>
void add_types2()
{
#if C20_TYPES_PART != 2
    add_family("types.pair" + tags<T1, T2>(), "types.pair", 1, 1, []<class L>(int x, int y) { return types_pair<L, T1, T2>(x, y); });
    add_family("types.make_from_tuple.pair" + tags<T1, T2>(), "types.pair", 1, 1, []<class L>(int x, int y) { return mft_pair<L, T1, T2>(x, y); });
#endif
#if C20_TYPES_PART != 1
    add_family("types.tuple" + tags<T1, T2>(), "types.tuple", 1, 1, []<class L>(int x, int y) { return types_tuple<L, T1, T2>(x, y); });
#endif
}
template <typename T1, typename... T2>
void add_types_row()
{
    (add_types2<T1, T2>(), ...);
}
template <typename... E>
void add_types_n()
{
#if C20_TYPES_PART != 1
    add_family("types.tuple" + tags<E...>(), "types.tuple", 1, 1, []<class L>(int x, int y) { return types_tuple<L, E...>(x, y); });
#endif
}

void add_types()
{
    add_types_row<int, int, TMO, TCO, int&, int const>();
    add_types_row<TMO, int, TMO, TCO, int&, int const>();
    add_types_row<TCO, int, TMO, TCO, int&, int const>();
    add_types_row<int&, int, TMO, TCO, int&, int const>();
    add_types_row<int const, int, TMO, TCO, int&, int const>();
    add_types_n<int>();
    add_types_n<TMO>();
    add_types_n<TCO>();
    add_types_n<int&>();
    add_types_n<int const>();
    add_types_n<TCM>();
    add_types_n<int&, TMO, int const>();
    add_types_n<TCO, int, TMO>();
    add_types_n<TCM, int const, TCO, long>();
    add_types_n<int, int&, TMO, TCO>();
}

// ------------------------------------------------------------------ tuple_cat / factories
template <typename L, typename R>
auto cat_result(R const& r) -> std::string
{
    return type_name<R>() + show_tuple<L>(r);
}

void add_cat_and_factories()
{
    // one argument
    add_family("tuple.cat1(&)<i,cm>", "tuple.cat", 1, 1, []<class L>(int, int) {
        typename L::template tuple<int, TCM> t{1, TCM(2)};
        auto r = L::tuple_cat(t);
        return cat_result<L>(r) + " src" + show_tuple<L>(t);
    });
    add_family("tuple.cat1(const&)<i,cm>", "tuple.cat", 1, 1, []<class L>(int, int) {
        typename L::template tuple<int, TCM> const t{1, TCM(2)};
        auto r = L::tuple_cat(t);
        return cat_result<L>(r) + " src" + show_tuple<L>(t);
    });
    add_family("tuple.cat1(&&)<i,cm,co>", "tuple.cat", 1, 1, []<class L>(int, int) {
        typename L::template tuple<int, TCM, TCO> t{1, TCM(2), TCO(3)};
        auto r = L::tuple_cat(std::move(t));
        return cat_result<L>(r) + " src" + show_tuple<L>(t);
    });
    add_family("tuple.cat1(&)<ic>", "tuple.cat", 1, 1, []<class L>(int, int) {
        typename L::template tuple<int const> t{1};
        auto r = L::tuple_cat(t);
        return cat_result<L>(r);
    });
    add_family("tuple.cat1(&)<ir>", "tuple.cat", 1, 1, []<class L>(int, int) {
        int a = 1;
        typename L::template tuple<int&> t{a};
        auto r                = L::tuple_cat(t);
        L::template get<0>(r) = 5; // std: the result element is int& -> writes a
        Out o;
        o << cat_result<L>(r) << " a=" << a;
        return o.s;
    });
    add_family("tuple.cat1(&)<tuple<i>>", "tuple.cat", 1, 1, []<class L>(int, int) {
        using In = typename L::template tuple<int>;
        typename L::template tuple<In> t{In{1}};
        auto r = L::tuple_cat(t);
        return type_name<decltype(r)>();
    });
    add_family("tuple.cat1(&)pair<i,cm>", "tuple.cat", 1, 1, []<class L>(int, int) {
        typename L::template pair<int, TCM> t{1, TCM(2)};
        auto r = L::tuple_cat(t);
        return cat_result<L>(r) + " src" + show_pair(t);
    });
    // two and three arguments: all rvalues / all const lvalues / mixed const lvalue + rvalue
    add_family("tuple.cat2(&&,&&)<i,cm|l,co>", "tuple.cat", 1, 1, []<class L>(int, int) {
        typename L::template tuple<int, TCM> t{1, TCM(2)};
        typename L::template tuple<long, TCO> u{3, TCO(4)};
        auto r = L::tuple_cat(std::move(t), std::move(u));
        return cat_result<L>(r) + " src" + show_tuple<L>(t) + show_tuple<L>(u);
    });
    add_family("tuple.cat2(const&,const&)<i,cm|l,co>", "tuple.cat", 1, 1, []<class L>(int, int) {
        typename L::template tuple<int, TCM> const t{1, TCM(2)};
        typename L::template tuple<long, TCO> const u{3, TCO(4)};
        auto r = L::tuple_cat(t, u);
        return cat_result<L>(r) + " src" + show_tuple<L>(t) + show_tuple<L>(u);
    });
    add_family("tuple.cat2(const&,&&)<cm|cm,i>", "tuple.cat", 1, 1, []<class L>(int, int) {
        typename L::template tuple<TCM> const t{TCM(1)};
        typename L::template tuple<TCM, int> u{TCM(2), 3};
        auto r = L::tuple_cat(t, std::move(u));
        return cat_result<L>(r) + " src" + show_tuple<L>(t) + show_tuple<L>(u);
    });
    add_family("tuple.cat2(&&,const&)<cm|cm,i>", "tuple.cat", 1, 1, []<class L>(int, int) {
        typename L::template tuple<TCM> t{TCM(1)};
        typename L::template tuple<TCM, int> const u{TCM(2), 3};
        auto r = L::tuple_cat(std::move(t), u);
        return cat_result<L>(r) + " src" + show_tuple<L>(t) + show_tuple<L>(u);
    });
    add_family("tuple.cat2(&&,pair&&)<i|l,cm>", "tuple.cat", 1, 1, []<class L>(int, int) {
        typename L::template tuple<int> t{1};
        typename L::template pair<long, TCM> u{2, TCM(3)};
        auto r = L::tuple_cat(std::move(t), std::move(u));
        return cat_result<L>(r) + " src" + show_tuple<L>(t) + show_pair(u);
    });
    add_family("tuple.cat3(&&,&&,&&)<i|cm,l|co>", "tuple.cat", 1, 1, []<class L>(int, int) {
        typename L::template tuple<int> t{1};
        typename L::template tuple<TCM, long> u{TCM(2), 3};
        typename L::template tuple<TCO> v{TCO(4)};
        auto r = L::tuple_cat(std::move(t), std::move(u), std::move(v));
        return cat_result<L>(r) + " src" + show_tuple<L>(t) + show_tuple<L>(u) + show_tuple<L>(v);
    });
    add_family("tuple.cat2(const&,const&)<ic|i>", "tuple.cat", 1, 1, []<class L>(int, int) {
        typename L::template tuple<int const> const t{1};
        typename L::template tuple<int> const u{2};
        auto r = L::tuple_cat(t, u);
        return cat_result<L>(r);
    });
    // forward_as_tuple / tie / make_tuple
    add_family("tuple.forward_as_tuple", "tuple.factories", 1, 1, []<class L>(int, int) {
        int a        = 1;
        int const ca = 2;
        TCM b(3);
        Out o;
        o << type_name<decltype(L::forward_as_tuple(a, ca, std::move(b), 4))>();
        auto t = L::forward_as_tuple(a, ca, std::move(b));
        o << " refers:" << (&L::template get<0>(t) == &a) << (&L::template get<1>(t) == &ca) << (&L::template get<2>(t) == &b) << " b=" << V{b};
        o << " get<2>(&&)->" << type_name<decltype(L::template get<2>(std::move(t)))>() << " get<0>(const&)->" << type_name<decltype(L::template get<0>(std::as_const(t)))>();
        // (forwarding the rvalue result into make_from_tuple / apply is EXCLUDED: get<I>(tuple&&) with reference elements)
        auto made = L::template make_from_tuple<Target>(t);
        o << " as lvalue:" << made.log;
        return o.s;
    });
    add_family("tuple.tie", "tuple.factories", 1, 1, []<class L>(int, int) {
        int a = 1;
        TCM b(2);
        int const c = 3;
        auto t      = L::tie(a, b, c);
        Out o;
        o << type_name<decltype(t)>();
        L::template get<0>(t) = 7;
        L::template get<1>(t) = TCM(8);
        o << " a=" << a << " b=" << V{b} << " refers:" << (&L::template get<0>(t) == &a) << (&L::template get<1>(t) == &b) << (&L::template get<2>(t) == &c);
        auto u = L::tie(a, b, c);
        o << " == " << (t == u);
        return o.s;
    });
    add_family("tuple.make_tuple", "tuple.factories", 1, 1, []<class L>(int, int) {
        TCM e(2), f(3);
        int g = 4;
        TCO h(5);
        auto t = L::make_tuple(1, e, std::move(f), L::ref(g), L::cref(g), std::as_const(h));
        Out o;
        o << type_name<decltype(t)>() << show_tuple<L>(t) << " src" << show2(val_of(e), val_of(f));
        L::template get<3>(t) = 9;
        o << " g=" << g << " refers:" << (&L::template get<3>(t) == &g) << (&L::template get<4>(t) == &g);
        return o.s;
    });
    add_family("pair.make_pair.ref", "tuple.factories", 1, 1, []<class L>(int, int) {
        int g  = 4;
        auto p = L::make_pair(L::ref(g), L::cref(g)); // [pairs.spec]: unwrap_ref_decay_t -> pair<int&, int const&>
        return type_name<decltype(p)>();
    });
    add_family("pair.make_pair.decay", "tuple.factories", 1, 1, []<class L>(int, int) {
        int arr[2]  = {1, 2};
        int const c = 3;
        auto p      = L::make_pair(arr, c);
        Out o;
        o << type_name<decltype(p)>() << ":" << *p.first << "," << p.second;
        return o.s;
    });
}

// ------------------------------------------------------------------ "construct from forwarded arguments": T(a, b) versus T{a, b}
// A target with an initializer_list constructor next to an ordinary one: direct-initialisation with parentheses (what
// [tuple.apply] make_from_tuple, [pairs.pair] and [tuple.cnstr] specify) never selects the list constructor.
// (A target for which braces would be a NARROWING error is deliberately not instantiated: a tree that list-initialises
//  would then fail to build this harness — exit 2, no verdict — instead of being reported through these families.)
struct Samples {
    int n, sum, ctor;
    Samples(int count, int value) : n(count), sum(count * value), ctor(1) { }
    Samples(std::initializer_list<int> l) : n(static_cast<int>(l.size())), sum(0), ctor(2)
    {
        for (int v : l) { sum += v; }
    }
    explicit Samples(int count) : n(count), sum(0), ctor(3) { }
};
auto show(Samples const& s) -> std::string
{
    Out o;
    o << "{n=" << s.n << " sum=" << s.sum << " ctor=" << s.ctor << "}";
    return o.s;
}
auto show(std::vector<int> const& v) -> std::string
{
    Out o;
    o << "[" << v.size() << "]{";
    for (int x : v) { o << " " << x; }
    o << " }";
    return o.s;
}

void add_init_list_targets()
{
    add_family("make_from_tuple.init_list_target", "tuple.factories", 6, 1, []<class L>(int x, int) {
        int a = 3, b = 5;
        Out o;
        switch (x) {
        case 0: o << show(L::template make_from_tuple<std::vector<int>>(typename L::template tuple<int, int>{3, 7})) << show(L::template make_from_tuple<Samples>(typename L::template tuple<int, int>{4, 10})); break;
        case 1: {
            typename L::template tuple<int, int> const t{6, 2};
            o << show(L::template make_from_tuple<std::vector<int>>(t)) << show(L::template make_from_tuple<Samples>(t));
            break;
        }
        case 2: o << show(L::template make_from_tuple<std::vector<int>>(typename L::template pair<int, int>{2, 9})) << show(L::template make_from_tuple<Samples>(typename L::template pair<int, int>{2, 9})); break;
        case 3: o << show(L::template make_from_tuple<std::vector<int>>(typename L::template tuple<int>{5})) << show(L::template make_from_tuple<Samples>(typename L::template tuple<int>{5})); break;
        case 4: {
            auto t = L::tie(a, b);
            o << show(L::template make_from_tuple<std::vector<int>>(t)) << show(L::template make_from_tuple<Samples>(t));
            break;
        }
        default: {
            typename L::template tuple<long, short> t{2, 8}; // converting elements (would narrow inside braces)
            o << show(L::template make_from_tuple<std::vector<int>>(t)) << show(L::template make_from_tuple<Samples>(std::move(t)));
            break;
        }
        }
        return o.s;
    });
    // elements of pair / tuple are direct-non-list-initialised from the forwarded arguments
    add_family("ctor.init_list_elements", "tuple.factories", 5, 1, []<class L>(int x, int) {
        using P = typename L::template pair<std::vector<int>, Samples>;
        using T = typename L::template tuple<std::vector<int>, Samples, int>;
        Out o;
        switch (x) {
        case 0: {
            P p(3, 4);
            o << show(p.first) << show(p.second);
            break;
        }
        case 1: {
            typename L::template pair<int, int> src{3, 4};
            P p(src); // converting copy
            o << show(p.first) << show(p.second);
            break;
        }
        case 2: {
            typename L::template pair<short, long> src{2, 5};
            P p(std::move(src)); // converting move
            o << show(p.first) << show(p.second);
            break;
        }
        case 3: {
            T t(3, 4, 5);
            o << show(L::template get<0>(t)) << show(L::template get<1>(t)) << L::template get<2>(t);
            break;
        }
        default: {
            int n = 2;
            short m = 6;
            T t(n, m, 7L); // lvalue and converting arguments
            o << show(L::template get<0>(t)) << show(L::template get<1>(t)) << L::template get<2>(t);
            break;
        }
        }
        return o.s;
    });
}

// ------------------------------------------------------------------ forward / forward_like (hand model of [forward])
template <typename T, typename U>
struct forward_like_model {
    using RT   = std::remove_reference_t<T>;
    using RU   = std::remove_reference_t<U>;
    using CU   = std::conditional_t<std::is_const_v<RT>, RU const, RU>;
    using type = std::conditional_t<std::is_rvalue_reference_v<T&&>, CU&&, CU&>;
};
template <typename T, typename U>
void forward_like_row(Out& o, bool model)
{
    // U is the argument expression's type as a forwarding reference deduces it (lvalue: X&, rvalue: X)
    using Got = decltype(etl::forward_like<T>(std::declval<U>()));
    using Exp = typename forward_like_model<T, U>::type;
    o << " <" << type_name<T>() << ">(" << type_name<U&&>() << ")->" << (model ? type_name<Exp>() : type_name<Got>());
}
template <typename T>
void forward_like_rows(Out& o, bool model)
{
    forward_like_row<T, long&>(o, model);
    forward_like_row<T, long const&>(o, model);
    forward_like_row<T, long>(o, model);
    forward_like_row<T, long const>(o, model);
}
auto forward_like_table(bool model) -> std::string
{
    Out o;
    forward_like_rows<int>(o, model);
    forward_like_rows<int&>(o, model);
    forward_like_rows<int const&>(o, model);
    forward_like_rows<int&&>(o, model);
    forward_like_rows<int const&&>(o, model);
    forward_like_rows<int const>(o, model);
    // value: same object
    long v      = 5;
    auto&& r    = etl::forward_like<int const&>(v);
    o << " same-object:" << (&r == &v);
    return o.s;
}
template <typename T, typename Arg>
void forward_row(Out& o, bool model)
{
    using Got = decltype(etl::forward<T>(std::declval<Arg>()));
    using Exp = decltype(std::forward<T>(std::declval<Arg>()));
    o << " forward<" << type_name<T>() << ">(" << cat<Arg>() << ")->" << (model ? type_name<Exp>() : type_name<Got>());
}
auto forward_table(bool model) -> std::string
{
    Out o;
    forward_row<int, int&>(o, model);
    forward_row<int, int&&>(o, model);
    forward_row<int&, int&>(o, model);
    forward_row<int const&, int&>(o, model);
    forward_row<int const, int&>(o, model);
    forward_row<int&&, int&>(o, model);
    forward_row<int&&, int&&>(o, model);
    forward_row<TMO, TMO&>(o, model);
    forward_row<TMO const&, TMO const&>(o, model);
    forward_row<int const, int const&&>(o, model);
    // value: forwards the same object, never copies
    TMO m(5);
    TMO&& r = model ? std::forward<TMO>(m) : etl::forward<TMO>(m);
    o << " same-object:" << (&r == &m) << " value:" << V{m};
    return o.s;
}

void add_forward()
{
    add_family_model("forward_like.types", "forward", 1, 1, +[](int, int) { return forward_like_table(false); }, +[](int, int) { return forward_like_table(true); });
    add_family_model("forward.types", "forward", 1, 1, +[](int, int) { return forward_table(false); }, +[](int, int) { return forward_table(true); });
}

void build()
{
    static bool done = false;
    if (done) { return; }
    done = true;
    add_types();
#if C20_TYPES_PART != 2
    add_cat_and_factories();
    add_init_list_targets();
    add_forward();
#endif
}

} // namespace

void vf_run(vf::Ctx& c)
{
    build();
    c20::run_all(c);
}

std::string vf_replay(std::string const& /*sub*/, std::string const& cs)
{
    build();
    return c20::replay_one(cs);
}
