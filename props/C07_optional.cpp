// C07 (optional part) — etl::optional tracks the same engaged flag / value as std::optional driven by the same history.
// Engines: E2 exhaustive (from-state, to-state) x op x query enumeration, E1 rapidcheck histories (<= 25 ops, shrinking).
// Oracle: std::optional<int> stepped in lock-step (has_value() and value after every op, result of every query);
// optional<int&> against std::optional<std::reference_wrapper<int>> (assignment rebinds, comparisons look through).
// and_then / or_else are C++23 in std: their oracle is the one-line definition `has ? f(*o) : nullopt` / `has ? o : f()`
// applied to the std::optional model, plus "f is called exactly once iff (dis)engaged".
// Masked as unspecified: the *value* of a moved-from optional<NonTriv> (the engaged flag is specified: unchanged; moving
// from an int cannot change it, so optional<int> is compared in full).  After value_or / and_then / or_else on an lvalue or
// const lvalue the source must be unchanged (std copies); an rvalue call that copies where std moves is not reported.
//
// Catalogue (probed with small test compiles against this tree, g++ 12 -std=c++20):
//   optional<T> exist + checked: optional(), optional(nullopt), optional(U&&) [T lvalue / rvalue / convertible U],
//        optional(in_place, v), copy / move ctor, optional(optional<U> const&), optional(optional<U>&&), make_optional(v),
//        make_optional<T>(v), CTAD optional(v); operator=(nullopt), = {}, copy / move / self-copy assignment, operator=(U&&),
//        x = *x, operator=(optional<U> const&), operator=(optional<U>&&); emplace(v), reset(), swap member, etl::swap / ADL swap,
//        has_value / operator bool, operator* (&, const&, &&, const&&), operator->, value_or (const&, &&),
//        and_then (&, const&, &&, const&&), or_else (const&, &&);
//        opt x opt (same T, and optional<int> x optional<long>, optional<NonTriv> x optional<int>): == != < <= > >=;
//        opt x nullopt: == != (both orders), < (both orders);  opt x value, value x opt: == != < <= > >=;
//        the same families over optional<double> / optional<float> x optional<double> with NaN operands (exhaustive).
//   optional<T&> exist + checked: optional(), optional(nullopt), optional(U&) [binds], copy / move ctor, operator=(nullopt),
//        = {}, copy / move / self assignment, operator=(U&) [rebinds], emplace(U&), reset, swap member, etl::swap,
//        has_value / operator bool, operator*, operator->, all relational forms listed above.
//   further configurations: optional<optional<int>> (nullopt / {} / inner optional / value / optional<short> construction and
//        assignment, reset, emplace, swap, writes to the inner optional, comparisons with nullopt, inner optionals, values),
//        optional<bool>, optional<int const>, value types that are explicitly / implicitly constructible or assignable from the
//        source type, and the is_constructible / is_convertible / is_assignable matrix of optional<T> against std::optional<T>.
//   Exclusion tag understood by the generator: optional.converting_assign_engaged.
//   do NOT exist / do not compile on this tree (not part of the check): optional::value(), transform();
//        opt > nullopt, opt <= nullopt, opt >= nullopt and the mirrored nullopt > / <= / >= opt (hard error inside the
//        optional x value templates); for optional<T&>: value_or, and_then, or_else, converting construction / assignment
//        from optional<U> (the U&& overload captures them and fails), hash<optional<T&>>.
#include <etl/optional.hpp>
#include <etl/utility.hpp>

#include "rc.hpp"
#include "tracked.hpp"

#include <functional>
#include <limits>
#include <optional>
#include <utility>
#include <variant>

namespace {

using vf::OpsCase;
using vf::RawOp;
namespace lt = vf::lt;
using TCM   = lt::TCM;

inline auto val(int x) -> int { return x; }
inline auto val(long x) -> int { return static_cast<int>(x); }
inline auto val(short x) -> int { return x; }
inline auto val(TCM const& x) -> int { return x.get(); }

template <typename O>
struct Slot { // in-place storage so that constructor forms build X / Y directly (no extra assignment)
    alignas(O) unsigned char buf[sizeof(O)];
    O* p{nullptr};
    template <typename... A>
    auto make(A&&... a) -> O&
    {
        if (p != nullptr) { p->~O(); }
        p = ::new (static_cast<void*>(buf)) O(std::forward<A>(a)...);
        return *p;
    }
    Slot()                               = default;
    Slot(Slot const&)                    = delete;
    auto operator=(Slot const&) -> Slot& = delete;
    ~Slot()
    {
        if (p != nullptr) { p->~O(); }
    }
};

constexpr int NVAL = 4; // value domain of random histories {0,1,2,3}; the enumeration uses {0,1,2}

auto b2s(bool b) -> char const* { return b ? "true" : "false"; }

// 12 relational results of (l, r): l==r l!=r l<r l<=r l>r l>=r and mirrored
template <typename L, typename R>
auto rel12(L const& l, R const& r) -> std::array<bool, 12>
{
    return {l == r, l != r, l < r, l <= r, l > r, l >= r, r == l, r != l, r < l, r <= l, r > l, r >= l};
}
char const* const rel_names[12] = {"l==r", "l!=r", "l<r", "l<=r", "l>r", "l>=r", "r==l", "r!=l", "r<l", "r<=l", "r>l", "r>=l"};
auto rel_diff(char const* what, std::array<bool, 12> const& e, std::array<bool, 12> const& m) -> std::string
{
    for (std::size_t i = 0; i < 12; ++i) {
        if (e[i] != m[i]) { return std::string(what) + ": (" + rel_names[i] + ") is " + b2s(e[i]) + ", std::optional says " + b2s(m[i]); }
    }
    return "";
}

// ================================================================== optional<T>, T an object type
enum Code : std::uint32_t {
    C_DEFAULT, C_NULLOPT, C_VALUE_L, C_VALUE_R, C_VALUE_CONV, C_INPLACE, C_COPY, C_MOVE, C_CONV_COPY, C_CONV_MOVE, C_MAKE_OPTIONAL, C_CTAD,
    A_NULLOPT, A_BRACES, A_COPY, A_MOVE, A_SELF, A_VALUE_L, A_VALUE_R, A_VALUE_CONV, A_VALUE_ALIAS, A_CONV_COPY, A_CONV_MOVE,
    EMPLACE, RESET, SWAP_MEMBER, SWAP_FREE, SWAP_SELF, WRITE_THROUGH, Q_VALUE_OR_RV, Q_OR_ELSE_RV,
    Q_DEREF, Q_VALUE_OR, Q_AND_THEN, Q_OR_ELSE, Q_REL_SAME, Q_REL_MIXED, Q_REL_NULLOPT, Q_REL_VALUE, OBSERVE,
    NCODES
};
constexpr std::uint32_t FIRST_QUERY = Q_VALUE_OR_RV; // Q_VALUE_OR_RV / Q_OR_ELSE_RV are queries that move out of *this
char const* const code_names[] = {"optional()", "optional(nullopt)", "optional(T const&)", "optional(T&&)", "optional(U&&)", "optional(in_place,v)", "optional(optional const&)", "optional(optional&&)",
    "optional(optional<U> const&)", "optional(optional<U>&&)", "make_optional", "optional(v) CTAD", "=nullopt", "={}", "copy-assign", "move-assign", "self copy-assign", "=T const&", "=T&&", "=U&&", "x = *x",
    "=optional<U> const&", "=optional<U>&&", "emplace", "reset", "x.swap(y)", "swap(x,y)", "x.swap(x)", "*x = v", "move(x).value_or", "move(x).or_else", "operator*/->", "value_or", "and_then",
    "or_else", "x rel y", "x rel optional<U>", "x rel nullopt", "x rel value", "observe"};

template <typename T>
struct Val {
    using O = etl::optional<T>;
    using U = std::conditional_t<std::is_same_v<T, int>, short, int>; // a different type convertible to T
    using W = std::conditional_t<std::is_same_v<T, int>, long, int>;  // element type of the mixed comparison partner
    static constexpr bool tracked = std::is_same_v<T, TCM>;

    struct M {
        std::optional<int> o;
        bool masked{false};
        [[nodiscard]] auto live() const -> bool { return o.has_value() && !masked; } // value is specified
    };
    static auto compare(char const* name, O const& x, M const& m) -> std::string
    {
        if (x.has_value() != m.o.has_value()) { return std::string(name) + ": has_value() is " + b2s(x.has_value()) + ", std::optional says " + b2s(m.o.has_value()); }
        if (static_cast<bool>(x) != m.o.has_value()) { return std::string(name) + ": operator bool differs from has_value()"; }
        if (m.o.has_value()) {
            if (x.operator->() == nullptr) { return std::string(name) + ": operator-> is null on an engaged optional"; }
            if (!m.masked && val(*x) != *m.o) { return std::string(name) + ": holds " + std::to_string(val(*x)) + ", std::optional holds " + std::to_string(*m.o); }
        }
        return "";
    }

    static auto run(OpsCase const& k, int stats) -> std::string
    {
        lt::reset();
        std::string err;
        bool nt = false, transitioned = false, q_masked = false, cmp_both = false, cmp_one = false, chain_called = false;
        {
            struct Sandwich {
                std::uint64_t pre{0xA5A5A5A5A5A5A5A5ULL};
                Slot<O> a;
                std::uint64_t mid{0x5A5A5A5A5A5A5A5AULL};
                Slot<O> b;
                std::uint64_t post{0xC3C3C3C3C3C3C3C3ULL};
            } sw;
            sw.a.make();
            sw.b.make();
            M ma{}, mb{};
            for (auto const& op : k.ops) {
                bool tb = (op.c & 1U) != 0;
                Slot<O>& sx = tb ? sw.b : sw.a;
                Slot<O>& sy = tb ? sw.a : sw.b;
                M& mx     = tb ? mb : ma;
                M& my     = tb ? ma : mb;
                int v     = static_cast<int>((op.c >> 1) % NVAL);
                auto code = op.code % NCODES;
                bool xe0 = mx.o.has_value(), ye0 = my.o.has_value();
                if ((code == WRITE_THROUGH || code == A_VALUE_ALIAS) && !mx.o.has_value()) { code = EMPLACE; }
                if (code == Q_DEREF && !mx.o.has_value()) { code = OBSERVE; }
                if (stats > 1) { vf::count((std::string("op.") + code_names[code]).c_str()); }
                bool is_query = code >= FIRST_QUERY && code != OBSERVE;
                if (is_query && ((mx.o.has_value() && mx.masked) || (code == Q_REL_SAME && my.o.has_value() && my.masked))) { q_masked = true; }
                O& x = *sx.p;
                O& y = *sy.p;
                auto set = [&](int value) {
                    mx.o      = value;
                    mx.masked = false;
                };
                auto clr = [&] {
                    mx.o.reset();
                    mx.masked = false;
                };
                // an optional<U> with the state of y (moved-from value replaced by v)
                auto src_from_y = [&]() -> etl::optional<U> {
                    if (!my.o.has_value()) { return etl::optional<U>{}; }
                    return etl::optional<U>(static_cast<U>(my.masked ? v : *my.o));
                };
                auto model_from_y = [&] {
                    if (my.o.has_value()) {
                        set(my.masked ? v : *my.o);
                    } else {
                        clr();
                    }
                };
                // after a monadic / value_or call on an lvalue or const lvalue the source holds what it held before
                // ([optional.monadic], [optional.observe]: the & and const& overloads copy)
                auto source_unchanged = [&](char const* what) -> std::string {
                    auto e = compare("source", x, mx);
                    return e.empty() ? e : std::string(what) + " modified the object it was called on: " + e;
                };
                switch (code) {
                case C_DEFAULT: sx.make(), clr(); break;
                case C_NULLOPT: sx.make(etl::nullopt), clr(); break;
                case C_VALUE_L: {
                    T t(v);
                    sx.make(std::as_const(t));
                    set(v);
                    if (val(t) != v) { err = "optional(T const&) modified its argument"; }
                    break;
                }
                case C_VALUE_R: sx.make(T(v)), set(v); break;
                case C_VALUE_CONV: sx.make(static_cast<U>(v)), set(v); break;
                case C_INPLACE: sx.make(etl::in_place, v), set(v); break;
                case C_COPY: ((op.b & 1U) != 0 ? sx.make(y) : sx.make(std::as_const(y))), mx = my; break; // b odd: non-const lvalue must not be captured by optional(U&&)
                case C_MOVE: {
                    sx.make(std::move(y));
                    mx        = my;
                    my.masked = tracked && my.o.has_value(); // the source stays engaged; a moved-from NonTriv value is unspecified
                    break;
                }
                case C_CONV_COPY: {
                    auto src = src_from_y();
                    sx.make(std::as_const(src));
                    model_from_y();
                    if (src.has_value() != mx.o.has_value()) { err = "optional(optional<U> const&) changed its argument"; }
                    break;
                }
                case C_CONV_MOVE: {
                    auto src = src_from_y();
                    sx.make(std::move(src));
                    model_from_y();
                    if (src.has_value() != mx.o.has_value()) { err = "optional(optional<U>&&) changed the engaged flag of its argument"; }
                    break;
                }
                case C_MAKE_OPTIONAL: {
                    if ((op.b & 1U) != 0) {
                        auto t = etl::make_optional<T>(v);
                        static_assert(std::is_same_v<decltype(t), O>);
                        sx.make(std::move(t));
                    } else {
                        auto t = etl::make_optional(T(v));
                        static_assert(std::is_same_v<decltype(t), O>);
                        sx.make(std::move(t));
                    }
                    set(v);
                    break;
                }
                case C_CTAD: {
                    etl::optional t{T(v)};
                    static_assert(std::is_same_v<decltype(t), O>);
                    sx.make(std::as_const(t));
                    set(v);
                    break;
                }
                case A_NULLOPT: x = etl::nullopt, clr(); break;
                case A_BRACES: x = {}, clr(); break;
                case A_COPY: ((op.b & 1U) != 0 ? (x = y) : (x = std::as_const(y))), mx = my; break; // b odd: non-const lvalue must not be captured by operator=(U&&)
                case A_MOVE: {
                    x         = std::move(y);
                    mx        = my;
                    my.masked = tracked && my.o.has_value();
                    break;
                }
                case A_SELF: {
                    O const& alias = x;
                    x              = alias;
                    break;
                }
                case A_VALUE_L: {
                    T t(v);
                    x = std::as_const(t);
                    set(v);
                    if (val(t) != v) { err = "operator=(T const&) modified its argument"; }
                    break;
                }
                case A_VALUE_R: x = T(v), set(v); break;
                case A_VALUE_CONV: x = static_cast<U>(v), set(v); break;
                case A_VALUE_ALIAS: x = std::as_const(*x); break; // [optional.assign]: assigns the contained value to itself
                case A_CONV_COPY: {
                    auto src = src_from_y();
                    x        = std::as_const(src);
                    model_from_y();
                    if (src.has_value() != mx.o.has_value()) { err = "operator=(optional<U> const&) changed its argument"; }
                    break;
                }
                case A_CONV_MOVE: {
                    auto src = src_from_y();
                    x        = std::move(src);
                    model_from_y();
                    if (src.has_value() != mx.o.has_value()) { err = "operator=(optional<U>&&) changed the engaged flag of its argument"; }
                    break;
                }
                case EMPLACE: {
                    T* r = nullptr;
                    if ((op.b & 1U) != 0) {
                        T t(v);
                        r = &x.emplace(std::as_const(t));
                    } else {
                        r = &x.emplace(v);
                    }
                    set(v);
                    if (r != x.operator->()) { err = "emplace returned a reference that is not the contained value"; }
                    break;
                }
                case RESET: x.reset(), clr(); break;
                case SWAP_MEMBER: {
                    x.swap(y);
                    std::swap(mx, my);
                    break;
                }
                case SWAP_FREE: {
                    if ((op.b & 1U) != 0) {
                        etl::swap(x, y);
                    } else {
                        using etl::swap;
                        swap(x, y);
                    }
                    std::swap(mx, my);
                    break;
                }
                case SWAP_SELF: x.swap(x); break; // std: o.swap(o) leaves o unchanged
                case WRITE_THROUGH: {
                    if ((op.b & 1U) != 0) {
                        *x.operator->() = T(v);
                    } else {
                        *x = T(v);
                    }
                    set(v);
                    break;
                }
                case Q_DEREF: {
                    T& r1        = *x;
                    T const& r2  = *std::as_const(x);
                    T&& r3       = *std::move(x); // binds only: nothing is moved
                    T const&& r4 = *std::move(std::as_const(x));
                    T* p1        = x.operator->();
                    T const* p2  = std::as_const(x).operator->();
                    if (&r2 != &r1 || &r3 != &r1 || &r4 != &r1 || p1 != &r1 || p2 != &r1) {
                        err = "operator* (4 forms) / operator-> do not refer to one object";
                    } else if (!mx.masked && val(r2) != *mx.o) {
                        err = "*x is " + std::to_string(val(r2)) + ", std::optional holds " + std::to_string(*mx.o);
                    }
                    break;
                }
                case Q_VALUE_OR:
                case Q_VALUE_OR_RV: {
                    int d    = static_cast<int>(op.b % NVAL) + 10;
                    int want = mx.o.value_or(d);
                    int got  = 0;
                    if (code == Q_VALUE_OR) {
                        got = (op.a & 1U) != 0 ? val(std::as_const(x).value_or(T(d))) : val(std::as_const(x).value_or(d));
                    } else {
                        got = (op.a & 1U) != 0 ? val(std::move(x).value_or(T(d))) : val(std::move(x).value_or(d));
                    }
                    if (!(mx.o.has_value() && mx.masked) && got != want) { err = "value_or(" + std::to_string(d) + ") is " + std::to_string(got) + ", std::optional gives " + std::to_string(want); }
                    if (code == Q_VALUE_OR_RV && mx.o.has_value() && tracked) { mx.masked = true; } // value was moved out
                    if (code == Q_VALUE_OR && err.empty()) { err = source_unchanged("value_or() const&"); }
                    break;
                }
                case Q_AND_THEN: {
                    // f maps even values to an engaged optional<long>, odd values to a disengaged one
                    int calls = 0, seen = -1;
                    auto f = [&](auto&& a) -> etl::optional<long> {
                        ++calls;
                        seen = val(a);
                        return (seen % 2 == 0) ? etl::optional<long>(seen * 10L + 1) : etl::optional<long>();
                    };
                    etl::optional<long> r;
                    switch (op.b % 4) {
                    case 0: r = x.and_then(f); break;
                    case 1: r = std::as_const(x).and_then(f); break;
                    case 2: r = std::move(x).and_then(f); break; // f takes auto&&: nothing is moved
                    default: r = std::move(std::as_const(x)).and_then(f); break;
                    }
                    if (calls != (mx.o.has_value() ? 1 : 0)) {
                        err = "and_then called f " + std::to_string(calls) + " times on an " + (mx.o.has_value() ? "engaged" : "disengaged") + " optional";
                    } else if (mx.live()) {
                        chain_called = true;
                        std::optional<long> want = (*mx.o % 2 == 0) ? std::optional<long>(*mx.o * 10L + 1) : std::nullopt;
                        if (seen != *mx.o) {
                            err = "and_then passed " + std::to_string(seen) + " to f, the value is " + std::to_string(*mx.o);
                        } else if (r.has_value() != want.has_value() || (want.has_value() && *r != *want)) {
                            err = "and_then result differs from f(*x)";
                        }
                    } else if (!mx.o.has_value() && r.has_value()) {
                        err = "and_then on a disengaged optional returned an engaged optional";
                    }
                    if (err.empty() && op.b % 4 < 2) { err = source_unchanged(op.b % 4 == 0 ? "and_then() &" : "and_then() const&"); }
                    break;
                }
                case Q_OR_ELSE:
                case Q_OR_ELSE_RV: {
                    int calls = 0;
                    int d     = static_cast<int>(op.b % NVAL) + 20;
                    bool fe   = (op.a & 1U) != 0; // does f return an engaged optional
                    auto f    = [&]() -> O {
                        ++calls;
                        return fe ? O(T(d)) : O();
                    };
                    auto r = code == Q_OR_ELSE ? std::as_const(x).or_else(f) : std::move(x).or_else(f);
                    static_assert(std::is_same_v<decltype(r), O>);
                    std::optional<int> want = mx.o.has_value() ? mx.o : (fe ? std::optional<int>(d) : std::nullopt);
                    if (calls != (mx.o.has_value() ? 0 : 1)) {
                        err = "or_else called f " + std::to_string(calls) + " times on an " + (mx.o.has_value() ? "engaged" : "disengaged") + " optional";
                    } else if (r.has_value() != want.has_value()) {
                        err = std::string("or_else result has_value() is ") + b2s(r.has_value()) + ", expected " + b2s(want.has_value());
                    } else if (want.has_value() && !(mx.o.has_value() && mx.masked) && val(*r) != *want) {
                        err = "or_else result holds " + std::to_string(val(*r)) + ", expected " + std::to_string(*want);
                    }
                    if (!mx.o.has_value()) { chain_called = true; }
                    if (code == Q_OR_ELSE && err.empty()) { err = source_unchanged("or_else() const&"); }
                    if (code == Q_OR_ELSE_RV && mx.o.has_value() && tracked) { mx.masked = true; } // *this was moved into the result
                    break;
                }
                case Q_REL_SAME: {
                    if (mx.o.has_value() && my.o.has_value()) { cmp_both = true; }
                    if (mx.o.has_value() != my.o.has_value()) { cmp_one = true; }
                    auto e = rel12(std::as_const(x), std::as_const(y));
                    auto m = rel12(mx.o, my.o);
                    bool value_dependent = mx.o.has_value() && my.o.has_value();
                    if (!(value_dependent && (mx.masked || my.masked))) { err = rel_diff("optional x optional", e, m); }
                    if (err.empty() && !(mx.o.has_value() && mx.masked)) {
                        auto s = rel12(std::as_const(x), std::as_const(x));
                        auto w = rel12(mx.o, mx.o);
                        err    = rel_diff("optional x itself", s, w);
                    }
                    break;
                }
                case Q_REL_MIXED: {
                    // partner optional<W> in a state taken from the raw argument
                    auto zs = op.b % (NVAL + 1);
                    etl::optional<W> z;
                    std::optional<W> mz;
                    if (zs != 0) {
                        z  = static_cast<W>(zs - 1);
                        mz = static_cast<W>(zs - 1);
                    }
                    if (mx.o.has_value() && mz.has_value()) { cmp_both = true; }
                    if (mx.o.has_value() != mz.has_value()) { cmp_one = true; }
                    auto e = rel12(std::as_const(x), std::as_const(z));
                    auto m = rel12(mx.o, mz);
                    if (!(mx.o.has_value() && mx.masked && mz.has_value())) { err = rel_diff(tracked ? "optional<NonTriv> x optional<int>" : "optional<int> x optional<long>", e, m); }
                    break;
                }
                case Q_REL_NULLOPT: {
                    O const& cx = x;
                    bool e[6]   = {cx == etl::nullopt, etl::nullopt == cx, cx != etl::nullopt, etl::nullopt != cx, cx < etl::nullopt, etl::nullopt < cx};
                    bool m[6]   = {mx.o == std::nullopt, std::nullopt == mx.o, mx.o != std::nullopt, std::nullopt != mx.o, mx.o < std::nullopt, std::nullopt < mx.o};
                    static char const* const nm[6] = {"x==nullopt", "nullopt==x", "x!=nullopt", "nullopt!=x", "x<nullopt", "nullopt<x"};
                    for (int i = 0; i < 6 && err.empty(); ++i) {
                        if (e[i] != m[i]) { err = std::string("(") + nm[i] + ") is " + b2s(e[i]) + ", std::optional says " + b2s(m[i]); }
                    }
                    break;
                }
                case Q_REL_VALUE: {
                    int w = static_cast<int>(op.b % NVAL);
                    if (!(mx.o.has_value() && mx.masked)) {
                        if ((op.a & 1U) != 0) {
                            T t(w);
                            err = rel_diff("optional x T", rel12(std::as_const(x), std::as_const(t)), rel12(mx.o, w));
                        } else {
                            err = rel_diff("optional x int", rel12(std::as_const(x), w), rel12(mx.o, w));
                        }
                    }
                    if (mx.o.has_value()) { cmp_both = true; } else { cmp_one = true; }
                    break;
                }
                case OBSERVE:
                default: break;
                }
                if (mx.o.has_value() != xe0 || my.o.has_value() != ye0) { transitioned = true; }
                if (is_query && transitioned) { nt = true; }
                if (err.empty()) { err = compare(tb ? "B" : "A", *sx.p, mx); }
                if (err.empty()) { err = compare(tb ? "A" : "B", *sy.p, my); }
                if (err.empty() && (sw.pre != 0xA5A5A5A5A5A5A5A5ULL || sw.mid != 0x5A5A5A5A5A5A5A5AULL || sw.post != 0xC3C3C3C3C3C3C3C3ULL)) { err = "canary next to the optional was overwritten"; }
                if (err.empty() && tracked && !lt::violation().empty()) { err = "lifetime: " + lt::violation(); }
                if (!err.empty()) {
                    err = std::string("after ") + code_names[code] + ": " + err;
                    break;
                }
            }
        }
        if (err.empty() && tracked) { err = lt::check_empty(); }
        if (stats > 1) {
            vf::label("optional.hist.transition_then_query", nt);
            vf::label("optional.hist.query_touches_moved_from", q_masked);
            vf::label("optional.hist.compared_both_engaged", cmp_both);
            vf::label("optional.hist.compared_engaged_vs_disengaged", cmp_one);
            vf::label("optional.hist.and_then_or_else_called_f", chain_called);
        }
        if (stats > 0 && nt) {
            if (stats > 1) {
                vf::nontrivial(vf::digest(k));
            } else {
                vf::nontrivial_count();
            }
        }
        return err;
    }
};

// ================================================================== optional<int&>
enum RCode : std::uint32_t {
    R_C_DEFAULT, R_C_NULLOPT, R_C_LVALUE, R_C_COPY, R_C_MOVE, R_A_NULLOPT, R_A_BRACES, R_A_COPY, R_A_MOVE, R_A_SELF, R_A_LVALUE, R_EMPLACE, R_RESET,
    R_SWAP_MEMBER, R_SWAP_FREE, R_SWAP_SELF, R_WRITE_THROUGH, R_WRITE_REFERENT,
    R_Q_DEREF, R_Q_REL_SAME, R_Q_REL_MIXED, R_Q_REL_NULLOPT, R_Q_REL_VALUE, R_OBSERVE,
    R_NCODES
};
constexpr std::uint32_t R_FIRST_QUERY = R_Q_DEREF;
char const* const rcode_names[] = {"optional()", "optional(nullopt)", "optional(int&)", "optional(optional const&)", "optional(optional&&)", "=nullopt", "={}", "copy-assign", "move-assign",
    "self copy-assign", "=int& (rebind)", "emplace(int&)", "reset", "x.swap(y)", "swap(x,y)", "x.swap(x)", "*x = v", "referent = v", "operator*/->", "x rel y", "x rel optional<int/long>",
    "x rel nullopt", "x rel value", "observe"};

// Referents of class type: optional<Base&> bound to Derived objects (and to their Base subobject).  Assignment, emplace,
// swap and reset must rebind / unbind and never touch a referent: observed through the address (&*o), through shadow
// copies of every referent's value and through later write-throughs.
struct Base {
    int b{0};
    friend auto operator==(Base const& l, Base const& r) noexcept -> bool { return l.b == r.b; }
    friend auto operator!=(Base const& l, Base const& r) noexcept -> bool { return l.b != r.b; }
    friend auto operator<(Base const& l, Base const& r) noexcept -> bool { return l.b < r.b; }
    friend auto operator<=(Base const& l, Base const& r) noexcept -> bool { return l.b <= r.b; }
    friend auto operator>(Base const& l, Base const& r) noexcept -> bool { return l.b > r.b; }
    friend auto operator>=(Base const& l, Base const& r) noexcept -> bool { return l.b >= r.b; }
};
struct Derived : Base {
    int tag{0}; // never written after construction
};
inline auto rv(int x) -> int { return x; }
inline auto rv(Base const& x) -> int { return x.b; }

template <typename T, typename R>
struct RefT {
    using O = etl::optional<T&>;
    using M = std::optional<std::reference_wrapper<T>>;
    static constexpr int NPOOL       = 3;
    static constexpr bool is_int     = std::is_same_v<T, int>;
    static constexpr char const* tn  = is_int ? "optional<int&>" : "optional<Base&>";
    static auto mk(int v) -> T
    {
        if constexpr (is_int) {
            return v;
        } else {
            T t;
            t.b = v;
            return t;
        }
    }

    static auto deref(M const& m) -> std::optional<int> { return m.has_value() ? std::optional<int>(rv(m->get())) : std::nullopt; }
    static auto compare(char const* name, O const& x, M const& m) -> std::string
    {
        if (x.has_value() != m.has_value()) { return std::string(name) + ": has_value() is " + b2s(x.has_value()) + ", std::optional says " + b2s(m.has_value()); }
        if (static_cast<bool>(x) != m.has_value()) { return std::string(name) + ": operator bool differs from has_value()"; }
        if (m.has_value()) {
            if (&*x != &m->get()) { return std::string(name) + ": refers to a different object than std::optional<reference_wrapper<T>> (assignment / emplace must rebind)"; }
            if (x.operator->() != &m->get()) { return std::string(name) + ": operator-> differs from &*x"; }
        }
        return "";
    }
    static auto run(OpsCase const& k, int stats) -> std::string
    {
        std::string err;
        bool nt = false, transitioned = false, cmp_both = false, cmp_one = false, aliasing = false;
        struct Sandwich {
            std::uint64_t pre{0xA5A5A5A5A5A5A5A5ULL};
            Slot<O> a;
            std::uint64_t mid{0x5A5A5A5A5A5A5A5AULL};
            Slot<O> b;
            std::uint64_t post{0xC3C3C3C3C3C3C3C3ULL};
        } sw;
        sw.a.make();
        sw.b.make();
        M ma, mb;
        R pool[NPOOL]{}; // referents; two of them hold equal values
        int shadow[NPOOL] = {0, 1, 1}; // what every referent must hold: only the write ops below change a referent
        for (int i = 0; i < NPOOL; ++i) {
            if constexpr (is_int) {
                pool[i] = shadow[i];
            } else {
                pool[i].b   = shadow[i];
                pool[i].tag = 100 + i;
            }
        }
        auto pool_index = [&](T const* p) -> int {
            for (int i = 0; i < NPOOL; ++i) {
                if (static_cast<T const*>(&pool[i]) == p) { return i; }
            }
            return -1;
        };
        for (auto const& op : k.ops) {
            bool tb = (op.c & 1U) != 0;
            Slot<O>& sx = tb ? sw.b : sw.a;
            Slot<O>& sy = tb ? sw.a : sw.b;
            M& mx     = tb ? mb : ma;
            M& my     = tb ? ma : mb;
            int v     = static_cast<int>((op.c >> 1) % NVAL);
            // the referent as the argument sees it: the R object itself (U = Derived&) or its T subobject (U = T&)
            R& tgt_r  = pool[op.a % NPOOL];
            T& tgt    = tgt_r;
            bool as_r = !is_int && (op.b & 2U) != 0;
            auto code = op.code % R_NCODES;
            bool xe0 = mx.has_value(), ye0 = my.has_value();
            if (code == R_WRITE_THROUGH && !mx.has_value()) { code = R_EMPLACE; }
            if (code == R_Q_DEREF && !mx.has_value()) { code = R_OBSERVE; }
            if (stats > 1) { vf::count((std::string("rop.") + rcode_names[code]).c_str()); }
            bool is_query = code >= R_FIRST_QUERY && code != R_OBSERVE;
            O& x = *sx.p;
            O& y = *sy.p;
            switch (code) {
            case R_C_DEFAULT: sx.make(), mx.reset(); break;
            case R_C_NULLOPT: sx.make(etl::nullopt), mx.reset(); break;
            case R_C_LVALUE: (as_r ? sx.make(tgt_r) : sx.make(tgt)), mx = std::ref(tgt); break;
            case R_C_COPY: ((op.b & 1U) != 0 ? sx.make(y) : sx.make(std::as_const(y))), mx = my; break; // b odd: non-const lvalue must not be captured by optional(U&&)
            case R_C_MOVE: sx.make(std::move(y)), mx = my; break; // optional<T&> is trivially copyable: the source is unchanged
            case R_A_NULLOPT: x = etl::nullopt, mx.reset(); break;
            case R_A_BRACES: x = {}, mx.reset(); break;
            case R_A_COPY: ((op.b & 1U) != 0 ? (x = y) : (x = std::as_const(y))), mx = my; break;
            case R_A_MOVE: x = std::move(y), mx = my; break;
            case R_A_SELF: {
                O const& alias = x;
                x              = alias;
                break;
            }
            case R_A_LVALUE: (as_r ? (x = tgt_r) : (x = tgt)), mx = std::ref(tgt); break; // rebinds, also when engaged
            case R_EMPLACE: {
                O& r = as_r ? x.emplace(tgt_r) : x.emplace(tgt);
                mx   = std::ref(tgt);
                if (&r != &x) { err = "emplace did not return *this"; }
                break;
            }
            case R_RESET: x.reset(), mx.reset(); break;
            case R_SWAP_MEMBER: x.swap(y), mx.swap(my); break;
            case R_SWAP_FREE: {
                if ((op.b & 1U) != 0) {
                    etl::swap(x, y);
                } else {
                    using etl::swap;
                    swap(x, y);
                }
                mx.swap(my);
                break;
            }
            case R_SWAP_SELF: x.swap(x); break;
            case R_WRITE_THROUGH: {
                T* before = &mx->get();
                if ((op.b & 1U) != 0) {
                    *x.operator->() = mk(v);
                } else {
                    *x = mk(v);
                }
                if (pool_index(before) >= 0) { shadow[pool_index(before)] = v; }
                if (rv(*before) != v) { err = "assignment through operator* did not reach the referent"; }
                if (my.has_value() && &my->get() == before) { aliasing = true; }
                break;
            }
            case R_WRITE_REFERENT: {
                tgt = mk(v); // the optionals bound to it must observe the new value (compare() below reads through them)
                shadow[op.a % NPOOL] = v;
                if ((mx.has_value() && &mx->get() == &tgt) || (my.has_value() && &my->get() == &tgt)) { aliasing = true; }
                if (mx.has_value() && &mx->get() == &tgt && rv(*x) != v) { err = "*x does not show a write to the bound object"; }
                break;
            }
            case R_Q_DEREF: {
                T& r = *x;
                if (&r != &mx->get() || rv(r) != rv(mx->get())) { err = "*x does not refer to the bound object"; }
                break;
            }
            case R_Q_REL_SAME: {
                if (mx.has_value() && my.has_value()) { cmp_both = true; }
                if (mx.has_value() != my.has_value()) { cmp_one = true; }
                err = rel_diff("optional<T&> x optional<T&>", rel12(std::as_const(x), std::as_const(y)), rel12(deref(mx), deref(my)));
                if (err.empty()) { err = rel_diff("optional<T&> x itself", rel12(std::as_const(x), std::as_const(x)), rel12(deref(mx), deref(mx))); }
                break;
            }
            case R_Q_REL_MIXED: {
                auto zs = op.b % (NVAL + 1);
                if (mx.has_value() && zs != 0) { cmp_both = true; }
                if (mx.has_value() != (zs != 0)) { cmp_one = true; }
                if constexpr (!is_int) {
                    // class referent: the partner is an optional<Base> holding a value
                    etl::optional<T> z;
                    std::optional<int> mz;
                    if (zs != 0) { z = mk(static_cast<int>(zs - 1)), mz = static_cast<int>(zs - 1); }
                    err = rel_diff("optional<Base&> x optional<Base>", rel12(std::as_const(x), std::as_const(z)), rel12(deref(mx), mz));
                } else if ((op.a & 1U) != 0) {
                    etl::optional<long> z;
                    std::optional<long> mz;
                    if (zs != 0) { z = static_cast<long>(zs - 1), mz = static_cast<long>(zs - 1); }
                    err = rel_diff("optional<int&> x optional<long>", rel12(std::as_const(x), std::as_const(z)), rel12(deref(mx), mz));
                } else {
                    etl::optional<int> z;
                    std::optional<int> mz;
                    if (zs != 0) { z = static_cast<int>(zs - 1), mz = static_cast<int>(zs - 1); }
                    err = rel_diff("optional<int&> x optional<int>", rel12(std::as_const(x), std::as_const(z)), rel12(deref(mx), mz));
                }
                break;
            }
            case R_Q_REL_NULLOPT: {
                O const& cx = x;
                auto d      = deref(mx);
                bool e[6]   = {cx == etl::nullopt, etl::nullopt == cx, cx != etl::nullopt, etl::nullopt != cx, cx < etl::nullopt, etl::nullopt < cx};
                bool m[6]   = {d == std::nullopt, std::nullopt == d, d != std::nullopt, std::nullopt != d, d < std::nullopt, std::nullopt < d};
                static char const* const nm[6] = {"x==nullopt", "nullopt==x", "x!=nullopt", "nullopt!=x", "x<nullopt", "nullopt<x"};
                for (int i = 0; i < 6 && err.empty(); ++i) {
                    if (e[i] != m[i]) { err = std::string("(") + nm[i] + ") is " + b2s(e[i]) + ", std::optional says " + b2s(m[i]); }
                }
                break;
            }
            case R_Q_REL_VALUE: {
                int w = static_cast<int>(op.b % NVAL);
                T tw  = mk(w);
                err   = rel_diff("optional<T&> x T", rel12(std::as_const(x), std::as_const(tw)), rel12(deref(mx), w));
                if (mx.has_value()) { cmp_both = true; } else { cmp_one = true; }
                break;
            }
            case R_OBSERVE:
            default: break;
            }
            if (mx.has_value() != xe0 || my.has_value() != ye0) { transitioned = true; }
            if (is_query && transitioned) { nt = true; }
            if (err.empty()) { err = compare(tb ? "B" : "A", *sx.p, mx); }
            if (err.empty()) { err = compare(tb ? "A" : "B", *sy.p, my); }
            if (err.empty() && (sw.pre != 0xA5A5A5A5A5A5A5A5ULL || sw.mid != 0x5A5A5A5A5A5A5A5AULL || sw.post != 0xC3C3C3C3C3C3C3C3ULL)) { err = "canary next to the optional was overwritten"; }
            for (int i = 0; i < NPOOL && err.empty(); ++i) {
                bool tag_ok = true;
                if constexpr (!is_int) { tag_ok = pool[i].tag == 100 + i; }
                if (rv(static_cast<T const&>(pool[i])) != shadow[i] || !tag_ok) {
                    err = "referent " + std::to_string(i) + " holds " + std::to_string(rv(static_cast<T const&>(pool[i]))) + " but nothing wrote " + "to it (expected " + std::to_string(shadow[i]) + "): optional<T&> must rebind, never assign through";
                }
            }
            if (!err.empty()) {
                err = std::string("after ") + rcode_names[code] + ": " + err;
                break;
            }
        }
        if (stats > 1) {
            vf::label("optional_ref.hist.transition_then_query", nt);
            vf::label("optional_ref.hist.compared_both_engaged", cmp_both);
            vf::label("optional_ref.hist.compared_engaged_vs_disengaged", cmp_one);
            vf::label("optional_ref.hist.referent_written_while_bound_elsewhere", aliasing);
        }
        if (stats > 0 && nt) {
            if (stats > 1) {
                vf::nontrivial(vf::digest(k));
            } else {
                vf::nontrivial_count();
            }
        }
        return err;
    }
};

// ================================================================== relational operators over partially ordered values
// optional<double> / optional<float> with the value domain {disengaged, -1, 0, 1, 2, NaN}: for an unordered pair every
// operator must forward to the *same* operator of the values ([optional.relops]: x <= y is *x <= *y, not !(*y < *x)).
// Stateless: one op = one comparison family; a, b select the two operand states.
enum FCode : std::uint32_t { F_SAME, F_MIXED, F_VALUE, F_NULLOPT, F_NCODES };
char const* const fcode_names[] = {"optional<double> rel optional<double>", "optional<float> rel optional<double>", "optional<double> rel double", "optional<double> rel nullopt"};
struct FloatRel {
    static constexpr int NDOM = 6;
    static auto dom(std::uint32_t i) -> std::optional<double>
    {
        switch (i % NDOM) {
        case 0: return std::nullopt;
        case 1: return -1.0;
        case 2: return 0.0;
        case 3: return 1.0;
        case 4: return 2.0;
        default: return std::numeric_limits<double>::quiet_NaN();
        }
    }
    static auto name(std::optional<double> const& v) -> std::string
    {
        if (!v.has_value()) { return "nullopt"; }
        if (*v != *v) { return "nan"; }
        return std::to_string(static_cast<int>(*v));
    }
    template <typename F>
    static auto to_etl(std::optional<double> const& v) -> etl::optional<F>
    {
        return v.has_value() ? etl::optional<F>(static_cast<F>(*v)) : etl::optional<F>();
    }
    template <typename F>
    static auto to_std(std::optional<double> const& v) -> std::optional<F>
    {
        return v.has_value() ? std::optional<F>(static_cast<F>(*v)) : std::optional<F>();
    }
    static auto run(OpsCase const& k, int stats) -> std::string
    {
        for (auto const& op : k.ops) {
            auto code = op.code % F_NCODES;
            auto l = dom(op.a), r = dom(op.b);
            std::string err;
            bool unordered = (l.has_value() && *l != *l) || (r.has_value() && *r != *r);
            switch (code) {
            case F_SAME: err = rel_diff("optional<double> x optional<double>", rel12(to_etl<double>(l), to_etl<double>(r)), rel12(to_std<double>(l), to_std<double>(r))); break;
            case F_MIXED: err = rel_diff("optional<float> x optional<double>", rel12(to_etl<float>(l), to_etl<double>(r)), rel12(to_std<float>(l), to_std<double>(r))); break;
            case F_VALUE: {
                if (!r.has_value()) { r = dom(op.b + 1); } // the plain value operand is never disengaged
                double w = *r;
                err      = rel_diff("optional<double> x double", rel12(to_etl<double>(l), w), rel12(to_std<double>(l), w));
                unordered = (l.has_value() && *l != *l) || (w != w);
                break;
            }
            default: {
                auto x = to_etl<double>(l);
                auto m = to_std<double>(l);
                bool e[6] = {x == etl::nullopt, etl::nullopt == x, x != etl::nullopt, etl::nullopt != x, x < etl::nullopt, etl::nullopt < x};
                bool w[6] = {m == std::nullopt, std::nullopt == m, m != std::nullopt, std::nullopt != m, m < std::nullopt, std::nullopt < m};
                for (int i = 0; i < 6 && err.empty(); ++i) {
                    if (e[i] != w[i]) { err = "optional<double> x nullopt: relation " + std::to_string(i) + " is " + b2s(e[i]) + ", std::optional says " + b2s(w[i]); }
                }
                break;
            }
            }
            if (stats > 0 && unordered && l.has_value() && r.has_value()) { vf::nontrivial_count(); }
            if (!err.empty()) { return std::string("l=") + name(l) + " r=" + name(r) + ": " + err; }
        }
        return "";
    }
};

// ================================================================== optional<optional<int>>
// A value type that is itself constructible / assignable from nullopt_t, {} and from what the outer optional is
// constructible from: every form must select the same overload as std::optional<std::optional<int>> (o = nullopt and
// o = {} disengage the OUTER optional, o = inner-optional engages it, ...).  The model is driven by the very same
// expressions on the std types, so std's own overload resolution is the oracle.  No masking: everything is trivially copyable.
enum NCode : std::uint32_t {
    N_C_DEFAULT, N_C_NULLOPT, N_C_INNER_L, N_C_INNER_R, N_C_INPLACE, N_C_VALUE, N_C_COPY, N_C_MOVE, N_C_CONV,
    N_A_NULLOPT, N_A_BRACES, N_A_INNER_L, N_A_INNER_R, N_A_VALUE, N_A_COPY, N_A_MOVE, N_A_SELF, N_A_CONV, N_RESET, N_EMPLACE, N_SWAP, N_WRITE_INNER,
    N_Q_DEREF, N_Q_REL_NULLOPT, N_Q_REL_INNER, N_Q_REL_VALUE, N_Q_REL_SAME, N_Q_VALUE_OR, N_OBSERVE,
    N_NCODES
};
constexpr std::uint32_t N_FIRST_QUERY = N_Q_DEREF;
char const* const ncode_names[] = {"optional()", "optional(nullopt)", "optional(inner const&)", "optional(inner&&)", "optional(in_place[,v|inner])", "optional(int)", "optional(optional const&)", "optional(optional&&)",
    "optional(optional<short>)", "=nullopt", "={}", "=inner const&", "=inner&&", "=int", "copy-assign", "move-assign", "self copy-assign", "=optional<short>", "reset", "emplace([v|inner])", "swap",
    "write inner (*x = ...)", "operator*/->", "x rel nullopt", "x rel inner optional", "x rel int", "x rel y", "value_or(inner)", "observe"};

struct Nest {
    using EI = etl::optional<int>;
    using SI = std::optional<int>;
    using O  = etl::optional<EI>;
    using M  = std::optional<SI>;

    static auto show(M const& m) -> std::string { return !m.has_value() ? "disengaged" : (!m->has_value() ? "engaged{disengaged}" : "engaged{" + std::to_string(**m) + "}"); }
    static auto show(O const& x) -> std::string { return !x.has_value() ? "disengaged" : (!x->has_value() ? "engaged{disengaged}" : "engaged{" + std::to_string(**x) + "}"); }
    static auto compare(char const* name, O const& x, M const& m) -> std::string
    {
        bool same = x.has_value() == m.has_value() && static_cast<bool>(x) == m.has_value();
        if (same && m.has_value()) { same = x->has_value() == m->has_value() && (!m->has_value() || **x == **m); }
        return same ? "" : std::string(name) + " is " + show(x) + ", std::optional<std::optional<int>> is " + show(m);
    }
    static auto run(OpsCase const& k, int stats) -> std::string
    {
        std::string err;
        bool nt = false, transitioned = false, inner_empty_seen = false, cmp_engaged = false;
        struct Sandwich {
            std::uint64_t pre{0xA5A5A5A5A5A5A5A5ULL};
            Slot<O> a;
            std::uint64_t mid{0x5A5A5A5A5A5A5A5AULL};
            Slot<O> b;
            std::uint64_t post{0xC3C3C3C3C3C3C3C3ULL};
        } sw;
        sw.a.make();
        sw.b.make();
        M ma, mb;
        for (auto const& op : k.ops) {
            bool tb = (op.c & 1U) != 0;
            Slot<O>& sx = tb ? sw.b : sw.a;
            Slot<O>& sy = tb ? sw.a : sw.b;
            M& mx     = tb ? mb : ma;
            M& my     = tb ? ma : mb;
            int v     = static_cast<int>((op.c >> 1) % NVAL);
            auto code = op.code % N_NCODES;
            bool xe0 = mx.has_value(), ye0 = my.has_value();
            if (code == N_WRITE_INNER && !mx.has_value()) { code = N_EMPLACE; }
            if (code == N_Q_DEREF && !mx.has_value()) { code = N_OBSERVE; }
            if (stats > 1) { vf::count((std::string("nop.") + ncode_names[code]).c_str()); }
            bool is_query = code >= N_FIRST_QUERY && code != N_OBSERVE;
            O& x = *sx.p;
            O& y = *sy.p;
            // the inner-optional argument: disengaged or holding 0..2
            auto is = op.b % 4;
            EI ei   = is == 0 ? EI() : EI(static_cast<int>(is) - 1);
            SI si   = is == 0 ? SI() : SI(static_cast<int>(is) - 1);
            etl::optional<short> es = is == 0 ? etl::optional<short>() : etl::optional<short>(static_cast<short>(is - 1));
            std::optional<short> ss = is == 0 ? std::optional<short>() : std::optional<short>(static_cast<short>(is - 1));
            switch (code) {
            case N_C_DEFAULT: sx.make(), mx = M(); break;
            case N_C_NULLOPT: sx.make(etl::nullopt), mx = M(std::nullopt); break;
            case N_C_INNER_L: sx.make(std::as_const(ei)), mx = M(std::as_const(si)); break;
            case N_C_INNER_R: sx.make(EI(ei)), mx = M(SI(si)); break;
            case N_C_INPLACE: {
                switch (op.a % 3) {
                case 0: sx.make(etl::in_place), mx = M(std::in_place); break;
                case 1: sx.make(etl::in_place, v), mx = M(std::in_place, v); break;
                default: sx.make(etl::in_place, ei), mx = M(std::in_place, si); break;
                }
                break;
            }
            case N_C_VALUE: sx.make(v), mx = M(v); break;
            case N_C_COPY: ((op.a & 1U) != 0 ? sx.make(y) : sx.make(std::as_const(y))), mx = M(std::as_const(my)); break;
            case N_C_MOVE: sx.make(std::move(y)), mx = M(std::move(my)); break;
            case N_C_CONV: sx.make(std::as_const(es)), mx = M(std::as_const(ss)); break;
            case N_A_NULLOPT: x = etl::nullopt, mx = std::nullopt; break;
            case N_A_BRACES: x = {}, mx = {}; break;
            case N_A_INNER_L: x = std::as_const(ei), mx = std::as_const(si); break;
            case N_A_INNER_R: x = EI(ei), mx = SI(si); break;
            case N_A_VALUE: x = v, mx = v; break;
            case N_A_COPY: ((op.a & 1U) != 0 ? (x = y) : (x = std::as_const(y))), mx = std::as_const(my); break;
            case N_A_MOVE: x = std::move(y), mx = std::move(my); break;
            case N_A_SELF: {
                O const& alias = x;
                x              = alias;
                break;
            }
            case N_A_CONV: x = std::as_const(es), mx = std::as_const(ss); break;
            case N_RESET: x.reset(), mx.reset(); break;
            case N_EMPLACE: {
                switch (op.a % 3) {
                case 0: x.emplace(), mx.emplace(); break;
                case 1: x.emplace(v), mx.emplace(v); break;
                default: x.emplace(ei), mx.emplace(si); break;
                }
                break;
            }
            case N_SWAP: {
                if ((op.a & 1U) != 0) {
                    etl::swap(x, y);
                } else {
                    x.swap(y);
                }
                mx.swap(my);
                break;
            }
            case N_WRITE_INNER: {
                switch (op.a % 4) {
                case 0: *x = etl::nullopt, *mx = std::nullopt; break;
                case 1: *x = v, *mx = v; break;
                case 2: x->reset(), mx->reset(); break;
                default: x->emplace(v), mx->emplace(v); break;
                }
                break;
            }
            case N_Q_DEREF: {
                EI& r1       = *x;
                EI const& r2 = *std::as_const(x);
                if (&r1 != &r2 || x.operator->() != &r1) { err = "operator* / operator-> do not refer to one object"; }
                break;
            }
            case N_Q_REL_NULLOPT: {
                O const& cx = x;
                bool e[6]   = {cx == etl::nullopt, etl::nullopt == cx, cx != etl::nullopt, etl::nullopt != cx, cx < etl::nullopt, etl::nullopt < cx};
                // Oracle: the definitions of [optional.nullops] applied to the std object's has_value().  libstdc++ 12 itself
                // cannot be asked here: for a value type that is comparable with nullopt_t, g++ 12 resolves `nullopt == o` /
                // `nullopt < o` to the optional-x-value templates (CWG 2445 ordering of reversed candidates) and answers
                // `nullopt == optional<optional<int>>{}` with false.
                bool h      = mx.has_value();
                bool m[6]   = {!h, !h, h, h, false, h};
                static char const* const nm[6] = {"x==nullopt", "nullopt==x", "x!=nullopt", "nullopt!=x", "x<nullopt", "nullopt<x"};
                for (int i = 0; i < 6 && err.empty(); ++i) {
                    if (e[i] != m[i]) { err = std::string("(") + nm[i] + ") is " + b2s(e[i]) + ", [optional.nullops] says " + b2s(m[i]); }
                }
                break;
            }
            case N_Q_REL_INNER: err = rel_diff("optional<optional<int>> x optional<int>", rel12(std::as_const(x), std::as_const(ei)), rel12(std::as_const(mx), std::as_const(si))); break;
            case N_Q_REL_VALUE: err = rel_diff("optional<optional<int>> x int", rel12(std::as_const(x), v), rel12(std::as_const(mx), v)); break;
            case N_Q_REL_SAME: err = rel_diff("optional<optional<int>> x optional<optional<int>>", rel12(std::as_const(x), std::as_const(y)), rel12(std::as_const(mx), std::as_const(my))); break;
            case N_Q_VALUE_OR: {
                EI got  = std::as_const(x).value_or(ei);
                SI want = std::as_const(mx).value_or(si);
                if (got.has_value() != want.has_value() || (want.has_value() && *got != *want)) { err = "value_or(inner) differs from std::optional"; }
                break;
            }
            case N_OBSERVE:
            default: break;
            }
            if (mx.has_value() != xe0 || my.has_value() != ye0) { transitioned = true; }
            if (mx.has_value() && !mx->has_value()) { inner_empty_seen = true; }
            if (is_query && mx.has_value()) { cmp_engaged = true; }
            if (is_query && transitioned) { nt = true; }
            if (err.empty()) { err = compare(tb ? "B" : "A", *sx.p, mx); }
            if (err.empty()) { err = compare(tb ? "A" : "B", *sy.p, my); }
            if (err.empty() && (sw.pre != 0xA5A5A5A5A5A5A5A5ULL || sw.mid != 0x5A5A5A5A5A5A5A5AULL || sw.post != 0xC3C3C3C3C3C3C3C3ULL)) { err = "canary next to the optional was overwritten"; }
            if (!err.empty()) {
                err = std::string("after ") + ncode_names[code] + ": " + err;
                break;
            }
        }
        if (stats > 1) {
            vf::label("optional_nested.hist.transition_then_query", nt);
            vf::label("optional_nested.hist.outer_engaged_inner_disengaged", inner_empty_seen);
            vf::label("optional_nested.hist.query_on_engaged", cmp_engaged);
        }
        if (stats > 0 && nt) {
            if (stats > 1) {
                vf::nontrivial(vf::digest(k));
            } else {
                vf::nontrivial_count();
            }
        }
        return err;
    }
};

// ================================================================== optional<bool>, optional<int const>, explicit vs implicit
// Stateless: one op = one self-contained scenario selected by (code, a, b); every scenario is run on the etl and on the
// std types with the same expressions and the outcomes are compared.
struct Ex { // only explicitly constructible from int, not assignable from int
    int v;
    explicit Ex(int x) noexcept : v(x) { }
};
struct Im { // implicitly constructible from int
    int v;
    Im(int x) noexcept : v(x) { } // NOLINT
};
struct ExA { // explicitly constructible and assignable from int
    int v;
    explicit ExA(int x) noexcept : v(x) { }
    auto operator=(int x) noexcept -> ExA&
    {
        v = x + 100; // assignment is distinguishable from construction: std assigns through when engaged
        return *this;
    }
};
enum MCode : std::uint32_t { M_BOOL, M_CONST, M_EXPLICIT, M_TRAITS, M_CONVERT, M_CONVERT_VARIANT, M_NCODES };
char const* const mcode_names[] = {"optional<bool>", "optional<int const>", "explicit / implicit value types", "constructible / convertible / assignable traits",
    "converting construction / assignment optional<Dst> <- optional<Src> / Src (which constructor, source afterwards)", "converting construction / assignment variant<int,Dst> <- Src (which constructor, source afterwards)"};

// (T, U) pair for the converting forms: Dst records HOW it was made from a Src (1 Dst(Src const&), 2 Dst(Src&&), 3 = Src const&,
// 4 = Src&&), Src records that it was moved from.  [optional.ctor] / [optional.assign] / [variant.ctor] / [variant.assign] say
// which of them runs: an lvalue source is copied from (and unchanged), an rvalue source is moved from.
struct Src {
    int v{0};
    bool moved_from{false};
    explicit Src(int x) noexcept : v(x) { }
};
struct Dst {
    int v{0};
    int how{0};
    Dst(Src const& s) noexcept : v(s.v), how(1) { } // NOLINT
    Dst(Src&& s) noexcept : v(s.v), how(2) { s.moved_from = true; } // NOLINT
    auto operator=(Src const& s) noexcept -> Dst&
    {
        v = s.v, how = 3;
        return *this;
    }
    auto operator=(Src&& s) noexcept -> Dst&
    {
        v = s.v, how = 4, s.moved_from = true;
        return *this;
    }
};
inline auto show(Src const& s) -> std::string { return std::to_string(s.v) + (s.moved_from ? "(moved-from)" : ""); }
inline auto show(Dst const& d) -> std::string { return std::to_string(d.v) + "(how " + std::to_string(d.how) + ")"; }
template <typename O>
auto show_opt(O const& o) -> std::string
{
    return o.has_value() ? show(*o) : std::string("-");
}
// optional<Dst> <- optional<Src> / Src; a: bit 0 destination engaged, bit 1 source engaged; b: unused
template <template <typename> class Opt, typename InPlace>
auto convert_optional(std::uint32_t a, InPlace in_place) -> std::string
{
    bool de = (a & 1U) != 0, se = (a & 2U) != 0;
    auto mk_src = [&] { return se ? Opt<Src>(in_place, 5) : Opt<Src>(); };
    auto mk_dst = [&] { return de ? Opt<Dst>(in_place, Src(9)) : Opt<Dst>(); };
    std::string t;
    {
        auto s = mk_src();
        Opt<Dst> d(std::as_const(s));
        t += "ctor(optional<Src> const&): d=" + show_opt(d) + " s=" + show_opt(s);
    }
    {
        auto s = mk_src();
        Opt<Dst> d(std::move(s));
        t += " | ctor(optional<Src>&&): d=" + show_opt(d) + " s=" + show_opt(s);
    }
    {
        auto s = mk_src();
        auto d = mk_dst();
        d      = std::as_const(s);
        t += " | =optional<Src> const&: d=" + show_opt(d) + " s=" + show_opt(s);
    }
    {
        auto s = mk_src();
        auto d = mk_dst();
        d      = std::move(s);
        t += " | =optional<Src>&&: d=" + show_opt(d) + " s=" + show_opt(s);
    }
    {
        Src s(6);
        Opt<Dst> d(std::as_const(s));
        Src r(7);
        Opt<Dst> e(std::move(r));
        t += " | ctor(Src const&): d=" + show_opt(d) + " s=" + show(s) + " | ctor(Src&&): d=" + show_opt(e) + " s=" + show(r);
    }
    {
        Src s(6);
        auto d = mk_dst();
        d      = std::as_const(s);
        Src r(7);
        auto e = mk_dst();
        e      = std::move(r);
        t += " | =Src const&: d=" + show_opt(d) + " s=" + show(s) + " | =Src&&: d=" + show_opt(e) + " s=" + show(r);
    }
    {
        Src s(6);
        auto d = mk_dst();
        d.emplace(std::as_const(s));
        Src r(7);
        auto e = mk_dst();
        e.emplace(std::move(r));
        t += " | emplace(Src const&): d=" + show_opt(d) + " s=" + show(s) + " | emplace(Src&&): d=" + show_opt(e) + " s=" + show(r);
    }
    return t;
}
// variant<int,Dst> <- Src; a: bit 0 destination holds Dst (else int)
template <typename V, typename MkDst, typename Show>
auto convert_variant(MkDst mk_dst, Show show_v) -> std::string
{
    std::string t;
    {
        Src s(6);
        V d(std::as_const(s));
        Src r(7);
        V e(std::move(r));
        t += "ctor(Src const&): d=" + show_v(d) + " s=" + show(s) + " | ctor(Src&&): d=" + show_v(e) + " s=" + show(r);
    }
    {
        Src s(6);
        V d = mk_dst();
        d   = std::as_const(s);
        Src r(7);
        V e = mk_dst();
        e   = std::move(r);
        t += " | =Src const&: d=" + show_v(d) + " s=" + show(s) + " | =Src&&: d=" + show_v(e) + " s=" + show(r);
    }
    return t;
}

template <template <typename> class Opt, typename Null, typename InPlace>
struct MiscLib {
    Null null;
    InPlace in_place;
    // every function returns a printable transcript of what happened; the etl and std transcripts must be equal
    template <typename T>
    static auto st(Opt<T> const& o) -> std::string
    {
        if (!o.has_value()) { return "-"; }
        if constexpr (requires { (*o).v; }) {
            return std::to_string((*o).v);
        } else {
            return std::to_string(static_cast<int>(*o));
        }
    }
    template <typename A, typename B>
    static auto rels(A const& a, B const& b) -> std::string
    {
        auto r = rel12(a, b);
        std::string s;
        for (bool x : r) { s += x ? '1' : '0'; }
        return s;
    }
    auto opt_bool(std::uint32_t a, std::uint32_t b) const -> std::string
    {
        auto mk = [&](std::uint32_t s) { return s % 3 == 0 ? Opt<bool>() : Opt<bool>(s % 3 == 2); };
        Opt<bool> l = mk(a), r = mk(a / 3);
        bool w      = (b & 1U) != 0;
        std::string t = "l=" + st(l) + " r=" + st(r) + " has=" + b2s(l.has_value()) + " bool=" + b2s(static_cast<bool>(l)) + " vo=" + b2s(l.value_or(w));
        t += " ll=" + rels(l, r) + " lv=" + rels(l, w);
        t += std::string(" lnull=") + b2s(l == null) + b2s(null == l) + b2s(l != null) + b2s(l < null) + b2s(null < l);
        Opt<bool> c(l);
        c = w; // must store the value, never test it
        t += " =v:" + st(c);
        c = r;
        t += " =r:" + st(c);
        c = null;
        t += " =null:" + st(c);
        c.emplace(w);
        t += " emplace:" + st(c);
        Opt<bool> d(in_place, w);
        Opt<bool> e = w;
        t += " ctor:" + st(d) + st(e);
        return t;
    }
    auto opt_const(std::uint32_t a, std::uint32_t b) const -> std::string
    {
        auto mk = [&](std::uint32_t s) { return s % 3 == 0 ? Opt<int const>() : Opt<int const>(static_cast<int>(s % 3) - 1); };
        Opt<int const> l = mk(a), r = mk(a / 3);
        int w            = static_cast<int>(b % 3);
        std::string t    = "l=" + st(l) + " r=" + st(r) + " ll=" + rels(l, r) + " lv=" + rels(l, w) + " vo=" + std::to_string(l.value_or(w));
        Opt<int const> c(l);
        t += " copy:" + st(c);
        c.emplace(w);
        t += " emplace:" + st(c);
        c.reset();
        t += " reset:" + st(c);
        Opt<int const> d(in_place, w);
        Opt<int> from(w);
        Opt<int const> e(from);
        t += " ctor:" + st(d) + st(e);
        return t;
    }
    auto opt_explicit(std::uint32_t a, std::uint32_t b, bool exa_engaged_ok) const -> std::string
    {
        int v  = static_cast<int>(b % 3);
        bool s = (a & 1U) != 0; // start engaged?
        std::string t;
        {
            Opt<Ex> o(v);
            Opt<Ex> p(in_place, v);
            Opt<int> src = s ? Opt<int>(v + 1) : Opt<int>();
            Opt<Ex> q(src); // explicit converting constructor
            t += "Ex:" + st(o) + st(p) + st(q);
            q = o;
            q.emplace(v + 2);
            t += st(q);
        }
        {
            Opt<Im> o = v; // implicit
            Opt<Im> q = s ? Opt<Im>(7) : Opt<Im>();
            q         = v; // converting assignment
            Opt<short> src(static_cast<short>(v + 1));
            Opt<Im> r = src; // implicit converting constructor
            Opt<Im> u = s ? Opt<Im>(7) : Opt<Im>();
            u         = src;
            t += " Im:" + st(o) + st(q) + st(r) + st(u);
        }
        {
            s          = s && exa_engaged_ok;
            Opt<ExA> q = s ? Opt<ExA>(in_place, 7) : Opt<ExA>();
            q          = v; // engaged: assigns through (v + 100); disengaged: constructs (v)
            t += " ExA:" + st(q);
            Opt<ExA> r = s ? Opt<ExA>(in_place, 7) : Opt<ExA>();
            Opt<int> src(v);
            r = src; // operator=(optional<U> const&): both engaged -> assigns through
            t += st(r);
            Opt<ExA> u = s ? Opt<ExA>(in_place, 7) : Opt<ExA>();
            u          = Opt<int>(v); // operator=(optional<U>&&)
            t += st(u);
        }
        return t;
    }
    template <typename T, typename S>
    static auto tr() -> std::string
    {
        std::string r;
        r += std::is_constructible_v<Opt<T>, S> ? 'C' : '-';
        r += std::is_convertible_v<S, Opt<T>> ? 'I' : '-';
        r += std::is_assignable_v<Opt<T>&, S> ? 'A' : '-';
        return r;
    }
    template <typename T>
    static auto row() -> std::string
    {
        return "int:" + tr<T, int>() + " int&:" + tr<T, int&>() + " short:" + tr<T, short>() + " bool:" + tr<T, bool>() + " nullopt:" + tr<T, Null>() + " nullopt const&:" + tr<T, Null const&>()
             + " opt<int>:" + tr<T, Opt<int>>() + " opt<int> const&:" + tr<T, Opt<int> const&>() + " opt<short>:" + tr<T, Opt<short>>() + " opt<T>&:" + tr<T, Opt<T>&>() + " T:" + tr<T, T>()
             + " T const&:" + tr<T, T const&>() + " opt<opt<int>>:" + tr<T, Opt<Opt<int>>>() + " char const*:" + tr<T, char const*>() + " double:" + tr<T, double>();
    }
    static auto traits(std::uint32_t a) -> std::string
    {
        switch (a % 8) {
        case 0: return row<int>();
        case 1: return row<bool>();
        case 2: return row<Ex>();
        case 3: return row<Im>();
        case 4: return row<ExA>();
        case 5: return row<Opt<int>>();
        case 6: return row<int const>();
        default: return row<long>();
        }
    }
};

struct Misc {
    using E = MiscLib<etl::optional, etl::nullopt_t, etl::in_place_t>;
    using S = MiscLib<std::optional, std::nullopt_t, std::in_place_t>;
    static auto run(OpsCase const& k, int stats) -> std::string
    {
        E const e{etl::nullopt, etl::in_place};
        S const s{std::nullopt, std::in_place};
        for (auto const& op : k.ops) {
            std::string te, ts;
            switch (op.code % M_NCODES) {
            case M_BOOL: te = e.opt_bool(op.a, op.b), ts = s.opt_bool(op.a, op.b); break;
            case M_CONST: te = e.opt_const(op.a, op.b), ts = s.opt_const(op.a, op.b); break;
            case M_EXPLICIT: {
                // exclusion tag for a known finding: converting assignment to an ENGAGED optional whose value type
                // distinguishes assignment from construction (the class is narrowed to exactly that)
                bool excl = vf::ctx().excluded("optional.converting_assign_engaged");
                if (excl && (op.a & 1U) != 0) { vf::excluded_known("optional.converting_assign_engaged"); }
                te = e.opt_explicit(op.a, op.b, !excl), ts = s.opt_explicit(op.a, op.b, !excl);
                break;
            }
            case M_CONVERT: te = convert_optional<etl::optional>(op.a, etl::in_place), ts = convert_optional<std::optional>(op.a, std::in_place); break;
            case M_CONVERT_VARIANT: {
                bool holds_dst = (op.a & 1U) != 0;
                using EV       = etl::variant<int, Dst>;
                using SV       = std::variant<int, Dst>;
                te = convert_variant<EV>([&] { return holds_dst ? EV(etl::in_place_index<1>, Src(9)) : EV(etl::in_place_index<0>, 3); },
                    [](EV const& v) { return v.index() == 1 ? "Dst " + show(*etl::get_if<1>(&v)) : std::string("int"); });
                ts = convert_variant<SV>([&] { return holds_dst ? SV(std::in_place_index<1>, Src(9)) : SV(std::in_place_index<0>, 3); },
                    [](SV const& v) { return v.index() == 1 ? "Dst " + show(*std::get_if<1>(&v)) : std::string("int"); });
                break;
            }
            default: te = E::traits(op.a), ts = S::traits(op.a); break;
            }
            if (stats > 0) { vf::nontrivial_count(); }
            if (te != ts) { return std::string(mcode_names[op.code % M_NCODES]) + ": etl [" + te + "] std [" + ts + "]"; }
        }
        return "";
    }
};

// ------------------------------------------------------------------ configuration table
struct Config {
    char const* name;
    std::string (*run)(OpsCase const&, int);
    std::uint32_t ncodes, first_query;
    char const* const* names;
    bool ref;
    bool stateless{false}; // one op = one self-contained comparison (enumerated completely, no histories)
    std::uint32_t na{0}, nb{0}; // stateless: sizes of the enumerated a / b domains
    bool nest{false};
};
// One source, several executables: -DC07_ONLY=<i> builds only configuration i (the registry lists one harness per
// configuration so that they compile in parallel); configuration ids in case strings are the same in every build.
#if !defined(C07_ONLY) || C07_ONLY == 0
    #define C07_RUN0 &Val<int>::run
#else
    #define C07_RUN0 nullptr
#endif
#if !defined(C07_ONLY) || C07_ONLY == 1
    #define C07_RUN1 &Val<TCM>::run
#else
    #define C07_RUN1 nullptr
#endif
#if !defined(C07_ONLY) || C07_ONLY == 2
    #define C07_RUN2 &RefT<int, int>::run
#else
    #define C07_RUN2 nullptr
#endif
Config const configs[] = {
    {"optional<int>", C07_RUN0, NCODES, FIRST_QUERY, code_names, false},
    {"optional<NonTriv>", C07_RUN1, NCODES, FIRST_QUERY, code_names, false},
    {"optional<int&>", C07_RUN2, R_NCODES, R_FIRST_QUERY, rcode_names, true},
    {"optional<double/float> relational incl. NaN", &FloatRel::run, F_NCODES, 0, fcode_names, false, true, FloatRel::NDOM, FloatRel::NDOM},
    {"optional<optional<int>>", &Nest::run, N_NCODES, N_FIRST_QUERY, ncode_names, false, false, 0, 0, true},
    {"optional<bool> / optional<int const> / explicit value types", &Misc::run, M_NCODES, 0, mcode_names, false, true, 9, 3},
    {"optional<Base&> bound to Derived", &RefT<Base, Derived>::run, R_NCODES, R_FIRST_QUERY, rcode_names, true},
};
constexpr std::uint32_t nconfigs = sizeof(configs) / sizeof(configs[0]);

auto run_case(OpsCase const& k, int stats) -> std::string
{
    auto const& cfg = configs[k.cfg % nconfigs];
    if (cfg.run == nullptr) { return ""; } // configuration not built into this executable
    auto d = cfg.run(k, stats);
    return d.empty() ? d : std::string(cfg.name) + ": " + d;
}

auto describe(OpsCase const& k) -> std::string
{
    auto const& cfg = configs[k.cfg % nconfigs];
    std::string s   = std::string(cfg.name) + " :";
    for (auto const& o : k.ops) {
        s += " " + std::string((o.c & 1U) != 0 ? "B." : "A.") + cfg.names[o.code % cfg.ncodes] + "[a " + std::to_string(o.a) + ",b " + std::to_string(o.b) + ",v " + std::to_string((o.c >> 1) % NVAL) + "]";
    }
    return s;
}

// Concrete argument shapes of one op code for the enumeration (target is always A: the state pair is enumerated).
auto shapes(Config const& cfg, std::uint32_t code) -> std::vector<RawOp>
{
    std::vector<RawOp> out;
    auto add = [&](std::uint32_t a, std::uint32_t b, std::uint32_t v) { out.push_back(RawOp{code, a, b, v << 1}); };
    if (cfg.nest) {
        switch (code) {
        case N_C_INNER_L:
        case N_C_INNER_R:
        case N_C_CONV:
        case N_A_INNER_L:
        case N_A_INNER_R:
        case N_A_CONV:
        case N_Q_REL_INNER:
        case N_Q_VALUE_OR:
            for (std::uint32_t b = 0; b < 3; ++b) { add(0, b, 0); } // inner argument: disengaged, 0, 1
            break;
        case N_C_VALUE:
        case N_A_VALUE:
        case N_Q_REL_VALUE: add(0, 0, 0), add(0, 0, 1); break;
        case N_C_INPLACE:
        case N_EMPLACE: add(0, 0, 0), add(1, 0, 1), add(2, 0, 0), add(2, 2, 0); break;
        case N_C_COPY:
        case N_A_COPY:
        case N_SWAP: add(0, 0, 0), add(1, 0, 0); break;
        case N_WRITE_INNER:
            for (std::uint32_t a = 0; a < 4; ++a) { add(a, 0, 1); }
            break;
        case N_OBSERVE: break;
        default: add(0, 0, 0); break;
        }
        return out;
    }
    if (!cfg.ref) {
        switch (code) {
        case C_VALUE_L:
        case C_VALUE_R:
        case C_VALUE_CONV:
        case C_INPLACE:
        case C_CTAD:
        case A_VALUE_L:
        case A_VALUE_R:
        case A_VALUE_CONV:
            for (std::uint32_t v = 0; v < 3; ++v) { add(0, 0, v); }
            break;
        case C_MAKE_OPTIONAL:
        case EMPLACE:
        case WRITE_THROUGH:
            for (std::uint32_t b = 0; b < 2; ++b) {
                for (std::uint32_t v = 0; v < 3; ++v) { add(0, b, v); }
            }
            break;
        case SWAP_FREE:
        case C_COPY:
        case A_COPY: add(0, 0, 0), add(0, 1, 0); break;
        case Q_VALUE_OR:
        case Q_VALUE_OR_RV:
        case Q_OR_ELSE:
        case Q_OR_ELSE_RV: add(0, 1, 0), add(1, 1, 0); break;
        case Q_AND_THEN:
            for (std::uint32_t b = 0; b < 4; ++b) { add(0, b, 0); }
            break;
        case Q_REL_MIXED:
            for (std::uint32_t b = 0; b < 4; ++b) { add(0, b, 0); } // partner: disengaged, 0, 1, 2
            break;
        case Q_REL_VALUE:
            for (std::uint32_t b = 0; b < 3; ++b) { add(0, b, 0), add(1, b, 0); }
            break;
        case OBSERVE: break;
        default: add(0, 0, 0); break;
        }
    } else {
        switch (code) {
        case R_C_LVALUE:
        case R_A_LVALUE:
        case R_EMPLACE:
            for (std::uint32_t a = 0; a < 3; ++a) { add(a, 0, 0), add(a, 2, 0); } // b & 2: the argument is the Derived object / its Base subobject
            break;
        case R_WRITE_THROUGH:
            for (std::uint32_t b = 0; b < 2; ++b) {
                for (std::uint32_t v = 0; v < 3; ++v) { add(0, b, v); }
            }
            break;
        case R_WRITE_REFERENT:
            for (std::uint32_t a = 0; a < 3; ++a) {
                for (std::uint32_t v = 0; v < 3; ++v) { add(a, 0, v); }
            }
            break;
        case R_SWAP_FREE:
        case R_C_COPY:
        case R_A_COPY: add(0, 0, 0), add(0, 1, 0); break;
        case R_Q_REL_MIXED:
            for (std::uint32_t b = 0; b < 4; ++b) { add(0, b, 0), add(1, b, 0); }
            break;
        case R_Q_REL_VALUE:
            for (std::uint32_t b = 0; b < 3; ++b) { add(0, b, 0); }
            break;
        case R_OBSERVE: break;
        default: add(0, 0, 0); break;
        }
    }
    return out;
}

} // namespace

void vf_run(vf::Ctx& c)
{
    // E2: every (state of A, state of B) x op (every argument shape) x query; thorough additionally x second op.
    // States: disengaged, engaged with 0 / 1 / 2 (optional<int&>: bound to referent 0 / 1 / 2); they are established
    // either with emplace / reset or with the constructors.
    {
        std::uint64_t n = 0;
        for (std::uint32_t ci = 0; ci < nconfigs; ++ci) {
            auto const& cfg = configs[ci];
            if (cfg.run == nullptr) { continue; }
            if (cfg.stateless) {
                // every (scenario / operator family, a, b): e.g. lhs and rhs state over {disengaged, -1, 0, 1, 2, NaN}
                char const* sub = ci == 3 ? "enum_float_relational" : "enum_value_types";
                for (std::uint32_t code = 0; code < cfg.ncodes; ++code) {
                    for (std::uint32_t a = 0; a < cfg.na; ++a) {
                        for (std::uint32_t b = 0; b < cfg.nb; ++b) {
                            if (!c.mine(n++)) { continue; }
                            OpsCase k;
                            k.cfg = ci;
                            k.ops.push_back(RawOp{code, a, b, 0});
                            vf::Flight<OpsCase> fl(sub, k);
                            vf::eval(sub);
                            auto d = run_case(k, 1);
                            if (!d.empty()) { vf::mismatch(sub, k, d); }
                        }
                    }
                }
                continue;
            }
            std::vector<RawOp> ops, queries;
            for (std::uint32_t code = 0; code < cfg.first_query; ++code) {
                for (auto const& o : shapes(cfg, code)) { ops.push_back(o); }
            }
            for (std::uint32_t code = cfg.first_query; code < cfg.ncodes; ++code) {
                for (auto const& o : shapes(cfg, code)) { queries.push_back(o); }
            }
            auto exec = [&](OpsCase const& k) {
                if (!c.mine(n++)) { return; }
                vf::Flight<OpsCase> fl("enum_transitions", k);
                vf::eval("enum_transitions");
                auto d = run_case(k, 1);
                if (!d.empty()) { vf::mismatch("enum_transitions", k, d); }
            };
            auto setter = [&](std::uint32_t how, std::uint32_t state, std::uint32_t target) -> RawOp {
                if (cfg.nest) { // 0 disengaged, 1 engaged{disengaged}, 2 / 3 engaged{0 / 1}
                    if (state == 0) { return RawOp{how == 0 ? std::uint32_t{N_RESET} : std::uint32_t{N_C_NULLOPT}, 0, 0, target}; }
                    if (state == 1) { return RawOp{how == 0 ? std::uint32_t{N_EMPLACE} : std::uint32_t{N_C_INPLACE}, 0, 0, target}; }
                    return RawOp{how == 0 ? std::uint32_t{N_EMPLACE} : std::uint32_t{N_C_INPLACE}, 1, 0, ((state - 2) << 1) | target};
                }
                if (cfg.ref) {
                    if (state == 0) { return RawOp{how == 0 ? std::uint32_t{R_RESET} : std::uint32_t{R_C_NULLOPT}, 0, 0, target}; }
                    return RawOp{how == 0 ? std::uint32_t{R_EMPLACE} : std::uint32_t{R_C_LVALUE}, state - 1, 0, target};
                }
                if (state == 0) { return RawOp{how == 0 ? std::uint32_t{RESET} : std::uint32_t{C_NULLOPT}, 0, 0, target}; }
                return RawOp{how == 0 ? std::uint32_t{EMPLACE} : std::uint32_t{C_INPLACE}, 0, 0, ((state - 1) << 1) | target};
            };
            for (std::uint32_t how = 0; how < 2; ++how) {
                for (std::uint32_t sa = 0; sa < 4; ++sa) {
                    for (std::uint32_t sb = 0; sb < 4; ++sb) {
                        OpsCase k;
                        k.cfg = ci;
                        k.ops.push_back(setter(how, sa, 0));
                        k.ops.push_back(setter(how, sb, 1));
                        for (auto const& o : ops) {
                            k.ops.push_back(o);
                            for (auto const& q : queries) {
                                k.ops.push_back(q);
                                exec(k);
                                k.ops.pop_back();
                            }
                            // second op, then every query (quick: only from the emplace/reset-established states)
                            if (c.thorough() || how == 0) {
                                for (auto const& o2 : ops) {
                                    k.ops.push_back(o2);
                                    if (c.thorough()) {
                                        for (auto const& q : queries) {
                                            k.ops.push_back(q);
                                            exec(k);
                                            k.ops.pop_back();
                                        }
                                    } else {
                                        k.ops.push_back(RawOp{cfg.nest ? std::uint32_t{N_Q_REL_SAME} : cfg.ref ? std::uint32_t{R_Q_REL_SAME} : std::uint32_t{Q_REL_SAME}, 0, 0, 0});
                                        exec(k);
                                        k.ops.pop_back();
                                    }
                                    k.ops.pop_back();
                                }
                            }
                            k.ops.pop_back();
                        }
                    }
                }
            }
        }
    }
    // E1: random histories of <= 25 ops, every configuration
    int per_cfg = (c.thorough() ? 50000 : 3000) / std::max(1, c.nshards) + 1; // per type over all shards: quick 3k, thorough 50k
    for (std::uint32_t ci = 0; ci < nconfigs; ++ci) {
        if (configs[ci].run == nullptr || configs[ci].stateless) { continue; }
        auto gen = rc::gen::map(vf::gen_history(1, configs[ci].ncodes, 25), [ci](OpsCase k) {
            k.cfg = ci;
            return k;
        });
        std::string sub = std::string("histories/") + configs[ci].name;
        vf::rc_check<OpsCase>(sub.c_str(), gen, per_cfg, 100, [&](OpsCase const& k) {
            vf::eval("histories");
            auto d = run_case(k, 2);
            if (k.ops.size() >= 6) { vf::sample("histories", [&] { return describe(k); }); }
            return d;
        });
    }
}

std::string vf_replay(std::string const&, std::string const& cs)
{
    auto k = vf::parse_ops(cs);
    vf::Flight<OpsCase> fl("replay", k);
    std::fprintf(stderr, "replaying: %s\n", describe(k).c_str());
    return run_case(k, 0);
}
