// C06 (part 4/6) — modifying sequence operations of etl/algorithm.hpp against std:: on a copy.
// Engine E2 (exhaustive small-scope enumeration) + seeded random longer inputs.  See C06_common.cpp.
//
// Covered here: remove remove_if remove_copy remove_copy_if replace replace_if swap_ranges iter_swap reverse
// reverse_copy rotate rotate_copy shift_left shift_right unique unique_copy partition_copy.
//
// Output buffers are sized to exactly what the standard says is written (the oracle's returned offset), so any
// additional write lands in a guard zone (pad=1) or in the ASan red zone (pad=0).
#include "C06_common.cpp"

namespace c06 {
namespace {

auto len(Case const& c) -> int { return static_cast<int>(c.a.size()); }
auto lenb(Case const& c) -> int { return static_cast<int>(c.b.size()); }

// ------------------------------------------------------------------ remove / remove_if: [ret, last) is unspecified
template <typename K>
auto a_remove(Case const& c) -> std::string
{
    V a = mk(c.a, 0);
    Elem v{c.val, 900};
    auto rs = static_cast<int>(std::remove(a.begin(), a.end(), v) - a.begin());
    auto s  = "ret=" + num(rs) + " " + ren(a, rs, len(c));
    Buf A("a", mk(c.a, 0), c.pad, padn(c));
    std::string e;
    {
        Scope sc;
        auto re = off(A, etl::remove(at<K>(A, 0), at<K>(A, len(c)), v));
        e       = "ret=" + num(re) + " " + ren(A, rs, len(c));
    }
    if (!mask_ok(A, rs, len(c), mk(c.a, 0))) { return "remove: the tail holds an element that is not from the input: " + ren(A); }
    return verdict(e, s);
}
template <typename K>
auto a_remove_if(Case const& c) -> std::string
{
    V a = mk(c.a, 0);
    auto rs = static_cast<int>(std::remove_if(a.begin(), a.end(), Pred{c.pred}) - a.begin());
    auto s  = "ret=" + num(rs) + " " + ren(a, rs, len(c));
    Buf A("a", mk(c.a, 0), c.pad, padn(c));
    std::string e;
    {
        Scope sc;
        auto re = off(A, etl::remove_if(at<K>(A, 0), at<K>(A, len(c)), Pred{c.pred}));
        e       = "ret=" + num(re) + " " + ren(A, rs, len(c));
    }
    if (!mask_ok(A, rs, len(c), mk(c.a, 0))) { return "remove_if: the tail holds an element that is not from the input: " + ren(A); }
    return verdict(e, s);
}
template <typename K>
auto a_remove_copy(Case const& c) -> std::string
{
    V a = mk(c.a, 0);
    Elem v{c.val, 900};
    V d(a.size(), Elem{55, -55});
    auto rs = static_cast<int>(std::remove_copy(a.begin(), a.end(), d.begin(), v) - d.begin());
    d.resize(static_cast<std::size_t>(rs));
    auto s = "ret=" + num(rs) + " src" + ren(a) + " dst" + ren(d);
    Buf A("a", a, c.pad, padn(c));
    Buf D("dest", rs, c.pad, padn(c));
    std::string e;
    {
        Scope sc;
        auto re = etl::remove_copy(at<K>(A, 0), at<K>(A, len(c)), oat<K>(D, 0), v);
        e       = "ret=" + num(off(D, re)) + " src" + ren(A) + " dst" + ren(D);
    }
    return verdict(e, s);
}
template <typename K>
auto a_remove_copy_if(Case const& c) -> std::string
{
    V a = mk(c.a, 0);
    V d(a.size(), Elem{55, -55});
    auto rs = static_cast<int>(std::remove_copy_if(a.begin(), a.end(), d.begin(), Pred{c.pred}) - d.begin());
    d.resize(static_cast<std::size_t>(rs));
    auto s = "ret=" + num(rs) + " src" + ren(a) + " dst" + ren(d);
    Buf A("a", a, c.pad, padn(c));
    Buf D("dest", rs, c.pad, padn(c));
    std::string e;
    {
        Scope sc;
        auto re = etl::remove_copy_if(at<K>(A, 0), at<K>(A, len(c)), oat<K>(D, 0), Pred{c.pred});
        e       = "ret=" + num(off(D, re)) + " src" + ren(A) + " dst" + ren(D);
    }
    return verdict(e, s);
}

// ------------------------------------------------------------------ replace / replace_if
template <typename K>
auto a_replace(Case const& c) -> std::string
{
    V a = mk(c.a, 0);
    Elem ov{c.val, 900};
    Elem nv{7, 700};
    std::replace(a.begin(), a.end(), ov, nv);
    auto s = ren(a);
    Buf A("a", mk(c.a, 0), c.pad, padn(c));
    std::string e;
    {
        Scope sc;
        etl::replace(at<K>(A, 0), at<K>(A, len(c)), ov, nv);
        e = ren(A);
    }
    return verdict(e, s);
}
template <typename K>
auto a_replace_if(Case const& c) -> std::string
{
    V a = mk(c.a, 0);
    Elem nv{7, 700};
    std::replace_if(a.begin(), a.end(), Pred{c.pred}, nv);
    auto s = ren(a);
    Buf A("a", mk(c.a, 0), c.pad, padn(c));
    std::string e;
    {
        Scope sc;
        etl::replace_if(at<K>(A, 0), at<K>(A, len(c)), Pred{c.pred}, nv);
        e = ren(A);
    }
    return verdict(e, s);
}

// ------------------------------------------------------------------ swap_ranges / iter_swap
template <typename K>
auto a_swap_ranges(Case const& c) -> std::string
{
    if (lenb(c) < len(c)) { return SKIP; }
    V a = mk(c.a, 0);
    V b = mk(c.b, 100);
    auto rs = std::swap_ranges(a.begin(), a.end(), b.begin()) - b.begin();
    auto s  = "ret=" + num(rs) + " a" + ren(a) + " b" + ren(b);
    Buf A("a", mk(c.a, 0), c.pad, padn(c));
    Buf B("b", mk(c.b, 100), c.pad, padn(c));
    std::string e;
    {
        Scope sc;
        auto re = etl::swap_ranges(at<K>(A, 0), at<K>(A, len(c)), at2<K>(B, 0));
        e       = "ret=" + num(off(B, re)) + " a" + ren(A) + " b" + ren(B);
    }
    return verdict(e, s);
}
template <typename K>
auto a_iter_swap(Case const& c) -> std::string
{
    if (c.m >= len(c) || c.n < 0 || c.n >= len(c)) { return SKIP; }
    V a = mk(c.a, 0);
    std::iter_swap(a.begin() + c.m, a.begin() + c.n);
    auto s = ren(a);
    Buf A("a", mk(c.a, 0), c.pad, padn(c));
    std::string e;
    {
        Scope sc;
        etl::iter_swap(at<K>(A, c.m), at<K>(A, c.n));
        e = ren(A);
    }
    return verdict(e, s);
}

// ------------------------------------------------------------------ reverse / reverse_copy / rotate / rotate_copy
template <typename K>
auto a_reverse(Case const& c) -> std::string
{
    V a = mk(c.a, 0);
    std::reverse(a.begin(), a.end());
    auto s = ren(a);
    Buf A("a", mk(c.a, 0), c.pad, padn(c));
    std::string e;
    {
        Scope sc;
        etl::reverse(at<K>(A, 0), at<K>(A, len(c)));
        e = ren(A);
    }
    return verdict(e, s);
}
template <typename K>
auto a_reverse_copy(Case const& c) -> std::string
{
    V a = mk(c.a, 0);
    V d(a.size(), Elem{55, -55});
    auto rs = std::reverse_copy(a.begin(), a.end(), d.begin()) - d.begin();
    auto s  = "ret=" + num(rs) + " src" + ren(a) + " dst" + ren(d);
    Buf A("a", a, c.pad, padn(c));
    Buf D("dest", len(c), c.pad, padn(c));
    std::string e;
    {
        Scope sc;
        auto re = etl::reverse_copy(at<K>(A, 0), at<K>(A, len(c)), oat<K>(D, 0));
        e       = "ret=" + num(off(D, re)) + " src" + ren(A) + " dst" + ren(D);
    }
    return verdict(e, s);
}
template <typename K>
auto a_rotate(Case const& c) -> std::string
{
    V a = mk(c.a, 0);
    auto rs = std::rotate(a.begin(), a.begin() + c.m, a.end()) - a.begin();
    auto s  = "ret=" + num(rs) + " " + ren(a);
    Buf A("a", mk(c.a, 0), c.pad, padn(c));
    std::string e;
    {
        Scope sc;
        auto re = etl::rotate(at<K>(A, 0), at<K>(A, c.m), at<K>(A, len(c)));
        e       = "ret=" + num(off(A, re)) + " " + ren(A);
    }
    return verdict(e, s);
}
template <typename K>
auto a_rotate_copy(Case const& c) -> std::string
{
    V a = mk(c.a, 0);
    V d(a.size(), Elem{55, -55});
    auto rs = std::rotate_copy(a.begin(), a.begin() + c.m, a.end(), d.begin()) - d.begin();
    auto s  = "ret=" + num(rs) + " src" + ren(a) + " dst" + ren(d);
    Buf A("a", a, c.pad, padn(c));
    Buf D("dest", len(c), c.pad, padn(c));
    std::string e;
    {
        Scope sc;
        auto re = etl::rotate_copy(at<K>(A, 0), at<K>(A, c.m), at<K>(A, len(c)), oat<K>(D, 0));
        e       = "ret=" + num(off(D, re)) + " src" + ren(A) + " dst" + ren(D);
    }
    return verdict(e, s);
}

// ------------------------------------------------------------------ shift_left / shift_right ([alg.shift]: n >= 0)
// n == 0 or n >= len: no effects; otherwise the vacated positions are valid-but-unspecified.
template <typename K>
auto a_shift_left(Case const& c) -> std::string
{
    if (c.n < 0) { return SKIP; }
    V a = mk(c.a, 0);
    auto rs = static_cast<int>(std::shift_left(a.begin(), a.end(), c.n) - a.begin());
    bool noop = c.n == 0 || c.n >= len(c);
    int mlo = noop ? 0 : rs;
    int mhi = noop ? 0 : len(c);
    auto s  = "ret=" + num(rs) + " " + ren(a, mlo, mhi);
    Buf A("a", mk(c.a, 0), c.pad, padn(c));
    std::string e;
    {
        Scope sc;
        auto re = etl::shift_left(at<K>(A, 0), at<K>(A, len(c)), c.n);
        e       = "ret=" + num(off(A, re)) + " " + ren(A, mlo, mhi);
    }
    if (!mask_ok(A, mlo, mhi, mk(c.a, 0))) { return "shift_left: a vacated position holds an element that is not from the input: " + ren(A); }
    return verdict(e, s);
}
template <typename K>
auto a_shift_right(Case const& c) -> std::string
{
    if (c.n < 0) { return SKIP; }
    if (c.n == 0 && known("C06.shift_right.n0")) { return SKIP; } // exclusion class: zero shift (return value)
    V a = mk(c.a, 0);
    auto rs = static_cast<int>(std::shift_right(a.begin(), a.end(), c.n) - a.begin());
    bool noop = c.n == 0 || c.n >= len(c);
    int mlo = 0;
    int mhi = noop ? 0 : rs;
    auto s  = "ret=" + num(rs) + " " + ren(a, mlo, mhi);
    Buf A("a", mk(c.a, 0), c.pad, padn(c));
    std::string e;
    {
        Scope sc;
        auto re = etl::shift_right(at<K>(A, 0), at<K>(A, len(c)), c.n);
        e       = "ret=" + num(off(A, re)) + " " + ren(A, mlo, mhi);
    }
    if (!mask_ok(A, mlo, mhi, mk(c.a, 0))) { return "shift_right: a vacated position holds an element that is not from the input: " + ren(A); }
    return verdict(e, s);
}

// ------------------------------------------------------------------ unique / unique_copy (equivalence relations only)
template <typename K>
auto a_unique(Case const& c) -> std::string
{
    V a = mk(c.a, 0);
    auto rs = static_cast<int>((c.eq == 0 ? std::unique(a.begin(), a.end()) : std::unique(a.begin(), a.end(), Eq{c.eq})) - a.begin());
    auto s  = "ret=" + num(rs) + " " + ren(a, rs, len(c));
    Buf A("a", mk(c.a, 0), c.pad, padn(c));
    std::string e;
    {
        Scope sc;
        auto re = off(A, c.eq == 0 ? etl::unique(at<K>(A, 0), at<K>(A, len(c))) : etl::unique(at<K>(A, 0), at<K>(A, len(c)), Eq{c.eq}));
        e       = "ret=" + num(re) + " " + ren(A, rs, len(c));
    }
    if (!mask_ok(A, rs, len(c), mk(c.a, 0))) { return "unique: the tail holds an element that is not from the input: " + ren(A); }
    return verdict(e, s);
}
// the etl template reads *destination back, so the destination is a (readable) forward iterator
template <typename K>
auto a_unique_copy(Case const& c) -> std::string
{
    V a = mk(c.a, 0);
    V d(a.size(), Elem{55, -55});
    auto rs = static_cast<int>((c.eq == 0 ? std::unique_copy(a.begin(), a.end(), d.begin()) : std::unique_copy(a.begin(), a.end(), d.begin(), Eq{c.eq})) - d.begin());
    d.resize(static_cast<std::size_t>(rs));
    auto s = "ret=" + num(rs) + " src" + ren(a) + " dst" + ren(d);
    Buf A("a", a, c.pad, padn(c));
    Buf D("dest", rs, c.pad, padn(c));
    std::string e;
    {
        Scope sc;
        if constexpr (K::id == 'P') {
            auto re = c.eq == 0 ? etl::unique_copy(at<K>(A, 0), at<K>(A, len(c)), at<K>(D, 0)) : etl::unique_copy(at<K>(A, 0), at<K>(A, len(c)), at<K>(D, 0), Eq{c.eq});
            e       = "ret=" + num(off(D, re)) + " src" + ren(A) + " dst" + ren(D);
        } else {
            auto re = c.eq == 0 ? etl::unique_copy(at<K>(A, 0), at<K>(A, len(c)), at<KF>(D, 0)) : etl::unique_copy(at<K>(A, 0), at<K>(A, len(c)), at<KF>(D, 0), Eq{c.eq});
            e       = "ret=" + num(off(D, re)) + " src" + ren(A) + " dst" + ren(D);
        }
    }
    return verdict(e, s);
}

// ------------------------------------------------------------------ partition_copy
template <typename K>
auto a_partition_copy(Case const& c) -> std::string
{
    V a = mk(c.a, 0);
    V dt(a.size(), Elem{55, -55});
    V df(a.size(), Elem{55, -55});
    auto rs = std::partition_copy(a.begin(), a.end(), dt.begin(), df.begin(), Pred{c.pred});
    auto nt = static_cast<int>(rs.first - dt.begin());
    auto nf = static_cast<int>(rs.second - df.begin());
    dt.resize(static_cast<std::size_t>(nt));
    df.resize(static_cast<std::size_t>(nf));
    auto s = "ret=" + num(nt) + "," + num(nf) + " src" + ren(a) + " true" + ren(dt) + " false" + ren(df);
    Buf A("a", a, c.pad, padn(c));
    Buf DT("dest_true", nt, c.pad, padn(c));
    Buf DF("dest_false", nf, c.pad, padn(c));
    std::string e;
    {
        Scope sc;
        auto re = etl::partition_copy(at<K>(A, 0), at<K>(A, len(c)), oat<K>(DT, 0), oat<K>(DF, 0), Pred{c.pred});
        e       = "ret=" + num(off(DT, re.first)) + "," + num(off(DF, re.second)) + " src" + ren(A) + " true" + ren(DT) + " false" + ren(DF);
    }
    return verdict(e, s);
}

} // namespace

auto table() -> std::vector<Entry> const&
{
    static std::vector<Entry> const t = {
        C06_REG(a_remove, "remove", D_VAL | D_LONG, KP),
        C06_REG(a_remove, "remove", D_VAL | D_LONG, KFE),
        C06_REG(a_remove_if, "remove_if", D_PRED | D_LONG, KP),
        C06_REG(a_remove_if, "remove_if", D_PRED | D_LONG, KFE),
        C06_REG(a_remove_copy, "remove_copy", D_VAL, KP),
        C06_REG(a_remove_copy, "remove_copy", D_VAL, KI),
        C06_REG(a_remove_copy, "remove_copy", D_VAL, Kpo),
        C06_REG(a_remove_copy, "remove_copy", D_VAL, Kiq),
        C06_REG(a_remove_copy_if, "remove_copy_if", D_PRED, KP),
        C06_REG(a_remove_copy_if, "remove_copy_if", D_PRED, KI),
        C06_REG(a_replace, "replace", D_VAL, KP),
        C06_REG(a_replace, "replace", D_VAL, KF),
        C06_REG(a_replace_if, "replace_if", D_PRED, KP),
        C06_REG(a_replace_if, "replace_if", D_PRED, KF),
        C06_REG(a_swap_ranges, "swap_ranges", D_BSAME, KP),
        C06_REG(a_swap_ranges, "swap_ranges", D_BSAME, KF),
        C06_REG(a_swap_ranges, "swap_ranges", D_BSAME, Kpf),
        C06_REG(a_swap_ranges, "swap_ranges", D_BSAME, Kbp),
        C06_REG(a_swap_ranges, "swap_ranges", D_BSAME, Kfp),
        C06_REG(a_iter_swap, "iter_swap", D_MID | D_N, KP),
        C06_REG(a_iter_swap, "iter_swap", D_MID | D_N, KF),
        C06_REG(a_reverse, "reverse", 0 | D_LONG, KP),
        C06_REG(a_reverse, "reverse", 0 | D_LONG, KB),
        C06_REG(a_reverse_copy, "reverse_copy", 0, KP),
        C06_REG(a_reverse_copy, "reverse_copy", 0, KB),
        C06_REG(a_rotate, "rotate", D_MID | D_LONG, KP),
        C06_REG(a_rotate, "rotate", D_MID | D_LONG, KF),
        C06_REG(a_rotate_copy, "rotate_copy", D_MID | D_LONG, KP),
        C06_REG(a_rotate_copy, "rotate_copy", D_MID | D_LONG, KF),
        C06_REG(a_shift_left, "shift_left", D_N | D_LONG, KP),
        C06_REG(a_shift_left, "shift_left", D_N | D_LONG, KF),
        C06_REG(a_shift_right, "shift_right", D_N | D_LONG, KP),
        C06_REG(a_shift_right, "shift_right", D_N | D_LONG, KB),
        C06_REG(a_unique, "unique", D_EQV | D_LONG, KP),
        C06_REG(a_unique, "unique", D_EQV | D_LONG, KF),
        C06_REG(a_unique_copy, "unique_copy", D_EQV | D_LONG, KP),
        C06_REG(a_unique_copy, "unique_copy", D_EQV | D_LONG, KI),
        C06_REG(a_partition_copy, "partition_copy", D_PRED, KP),
        C06_REG(a_partition_copy, "partition_copy", D_PRED, KI),
        C06_REG(a_partition_copy, "partition_copy", D_PRED, Kpo),
        C06_REG(a_partition_copy, "partition_copy", D_PRED, Kiq),
    };
    return t;
}

} // namespace c06

void vf_run(vf::Ctx& c) { c06::run_table(c); }
std::string vf_replay(std::string const& sub, std::string const& cs) { return c06::replay_table(sub, cs); }
