// C03 — shared code of the C03 harness translation units.  This file is #included by props/C03_*.cpp (after the etl
// headers); it is not a harness by itself and is never compiled on its own.
//
// Oracle of every C03 harness: the address-keyed lifetime registry of engine/tracked.hpp
//   * polled after every operation (construct over live / destroy, assign, read or copy-from a non-live object),
//   * empty and constructions == destructions once all owners of the case are destroyed,
// plus a minimal value model that is only used for the clauses of the property that speak about values:
//   * self copy-assignment and self-swap leave the value unchanged (snapshot before == snapshot after),
//   * a moved-from / copied-from source accepts a fresh assignment and reads it back.
// Nothing else about values is demanded here (that is C01/C07/C09/C20); in particular the decoded arguments of an op
// are derived from the owner's own observable state (size(), has_value(), index()), not from a reference model, so a
// purely functional defect of another property cannot make this check fail.  After a self-MOVE-assignment only validity
// is demanded (readable, assignable, destructible), never a particular value.
#ifndef VERIF_C03_SHARED
#define VERIF_C03_SHARED

#include "rc.hpp"
#include "tracked.hpp"

#include <memory>
#include <string>
#include <type_traits>
#include <utility>
#include <vector>

// ASan keeps the allocation/free stack of every malloc in its StackDepot forever.  The fast unwinder walks through
// libstdc++ / librapidcheck frames that have no frame pointers, so nearly every one of the ~250 mallocs per case gets a
// "new" 30-frame stack: measured 2.1 M depot ids / 242 MB after 33 k cases, 2.7 GB per process in the thorough tier and a
// ~10x slowdown.  Two frames of context and a small quarantine keep a process below ~200 MB (env ASAN_OPTIONS set by
// bin/check still overrides key by key).  Guarded so that an engine-wide definition can replace it.
#if !defined(VF_ASAN_DEFAULT_OPTIONS_DEFINED)
#define VF_ASAN_DEFAULT_OPTIONS_DEFINED 1
extern "C" __attribute__((used, visibility("default"))) auto __asan_default_options() -> char const* { return "malloc_context_size=2:quarantine_size_mb=32"; }
#endif

namespace c03 {

using vf::OpsCase;
using vf::RawOp;
namespace lt = vf::lt;
using lt::Kind;

template <Kind K>
inline constexpr bool copyable = (K != Kind::move_only);

template <Kind K>
inline constexpr char const* kind_name = (K == Kind::copy_move ? "TCM" : K == Kind::move_only ? "TMO" : "TCO");

template <typename T>
struct kind_of;
template <Kind K>
struct kind_of<lt::Tracked<K>> {
    static constexpr Kind value = K;
};

// Distinct tracked types (variant alternatives, expected's error type, ...): a rule-of-zero wrapper around a Tracked
// member, so its copy/move-ability follows the kind.  The int constructor is explicit (no ambiguity in converting
// constructors of variant).
template <int Tag, Kind K>
struct TV {
    lt::Tracked<K> t;
    TV() noexcept : t(0) { }
    explicit TV(int x) noexcept : t(x) { }
    [[nodiscard]] auto get() const noexcept -> int { return t.get(); }
    friend auto operator==(TV const& a, TV const& b) noexcept -> bool { return a.get() == b.get(); }
    friend auto operator!=(TV const& a, TV const& b) noexcept -> bool { return a.get() != b.get(); }
    friend auto operator<(TV const& a, TV const& b) noexcept -> bool { return a.get() < b.get(); }
    friend auto operator>(TV const& a, TV const& b) noexcept -> bool { return a.get() > b.get(); }
    friend auto operator<=(TV const& a, TV const& b) noexcept -> bool { return a.get() <= b.get(); }
    friend auto operator>=(TV const& a, TV const& b) noexcept -> bool { return a.get() >= b.get(); }
};
template <int Tag, Kind K>
struct kind_of<TV<Tag, K>> {
    static constexpr Kind value = K;
};

// "Trivially assignable" tracked shape: constructors and destructor consult the registry, but the copy / move ASSIGNMENT
// operators are defaulted (trivial).  is_trivially_copy_assignable / is_trivially_move_assignable are true while
// is_trivially_copy_constructible / _move_constructible / _destructible are false, so an owner that selects a bytewise
// (defaulted) assignment from the assignment trait alone skips the destructor of the old and the constructor of the new
// contained object.  The tracked int sits at a different offset for every Tag, so two alternatives of one union never
// share a registry key (a bytewise cross-alternative assignment cannot be mistaken for a proper one).
template <int Tag>
struct TA {
    int pad[Tag + 1]{};
    int v{0};
    TA() noexcept { lt::on_construct(&v); }
    TA(int x) noexcept : v{x} { lt::on_construct(&v); } // NOLINT implicit on purpose
    TA(TA const& o) noexcept : v{o.v}
    {
        lt::need_live(&o.v, "copy constructor reads a source that is not a live object");
        lt::on_construct(&v);
    }
    TA(TA&& o) noexcept : v{o.v}
    {
        lt::need_live(&o.v, "move constructor reads a source that is not a live object");
        lt::on_construct(&v);
    }
    auto operator=(TA const&) noexcept -> TA& = default;
    auto operator=(TA&&) noexcept -> TA&      = default;
    ~TA() noexcept { lt::on_destroy(&v); }
    [[nodiscard]] auto get() const noexcept -> int
    {
        lt::need_live(&v, "member function ran on storage that holds no live object");
        return v;
    }
    friend auto operator==(TA const& a, TA const& b) noexcept -> bool { return a.get() == b.get(); }
    friend auto operator!=(TA const& a, TA const& b) noexcept -> bool { return a.get() != b.get(); }
    friend auto operator<(TA const& a, TA const& b) noexcept -> bool { return a.get() < b.get(); }
    friend auto operator>(TA const& a, TA const& b) noexcept -> bool { return a.get() > b.get(); }
    friend auto operator<=(TA const& a, TA const& b) noexcept -> bool { return a.get() <= b.get(); }
    friend auto operator>=(TA const& a, TA const& b) noexcept -> bool { return a.get() >= b.get(); }
};
static_assert(std::is_trivially_copy_assignable_v<TA<0>> && std::is_trivially_move_assignable_v<TA<0>>);
static_assert(!std::is_trivially_copy_constructible_v<TA<0>> && !std::is_trivially_move_constructible_v<TA<0>> && !std::is_trivially_destructible_v<TA<0>>);

// Configurable tracked shape (copy+move).  CopyNX / MoveNX: the copy / move constructor and assignment are declared
// noexcept(false) (they never throw) so that library code selecting a path with is_nothrow_* takes the "may throw"
// branch.  AddrOf: unary operator& is overloaded COM-pointer style and returns the address of the wrapped raw payload (a
// different type), so that every place of the library that takes the address of an element must use etl::addressof.
// The registry key is the address of the payload; it sits at a different offset for every Tag (see TA).
struct Raw {
    int x;
};
template <int Tag, bool CopyNX, bool MoveNX, bool AddrOf>
struct TX {
    int pad[Tag + 1]{};
    Raw raw{0};

    [[nodiscard]] auto key() const noexcept -> void const* { return std::addressof(raw); }
    TX() noexcept { lt::on_construct(key()); }
    TX(int x) noexcept : raw{x} { lt::on_construct(key()); } // NOLINT implicit on purpose
    TX(TX const& o) noexcept(!CopyNX) : raw{o.raw}
    {
        lt::need_live(o.key(), "copy constructor reads a source that is not a live object");
        lt::on_construct(key());
    }
    TX(TX&& o) noexcept(!MoveNX) : raw{o.raw}
    {
        lt::need_live(o.key(), "move constructor reads a source that is not a live object");
        lt::on_construct(key());
        o.raw.x = lt::moved_value;
        lt::mark_moved(o.key());
    }
    auto operator=(TX const& o) noexcept(!CopyNX) -> TX&
    {
        lt::need_live(key(), "copy assignment ran on storage that holds no live object");
        lt::need_live(o.key(), "copy assignment reads a source that is not a live object");
        raw = o.raw;
        lt::mark_live(key());
        return *this;
    }
    auto operator=(TX&& o) noexcept(!MoveNX) -> TX&
    {
        lt::need_live(key(), "move assignment ran on storage that holds no live object");
        lt::need_live(o.key(), "move assignment reads a source that is not a live object");
        if (this != std::addressof(o)) {
            raw     = o.raw;
            o.raw.x = lt::moved_value;
            lt::mark_live(key());
            lt::mark_moved(o.key());
        }
        return *this;
    }
    ~TX() noexcept { lt::on_destroy(key()); }

    auto operator&() noexcept -> Raw* requires(AddrOf) { return &raw; }
    auto operator&() const noexcept -> Raw const* requires(AddrOf) { return &raw; }

    [[nodiscard]] auto get() const noexcept -> int
    {
        lt::need_live(key(), "member function ran on storage that holds no live object");
        return raw.x;
    }
    friend auto operator==(TX const& a, TX const& b) noexcept -> bool { return a.get() == b.get(); }
    friend auto operator!=(TX const& a, TX const& b) noexcept -> bool { return a.get() != b.get(); }
    friend auto operator<(TX const& a, TX const& b) noexcept -> bool { return a.get() < b.get(); }
    friend auto operator>(TX const& a, TX const& b) noexcept -> bool { return a.get() > b.get(); }
    friend auto operator<=(TX const& a, TX const& b) noexcept -> bool { return a.get() <= b.get(); }
    friend auto operator>=(TX const& a, TX const& b) noexcept -> bool { return a.get() >= b.get(); }
};
template <int Tag>
using NC = TX<Tag, true, false, false>; // copy constructor/assignment may throw (nothrow-movable: allowed in variant)
template <int Tag>
using NM = TX<Tag, false, true, false>; // move constructor/assignment may throw (not allowed in variant/optional/expected)
template <int Tag>
using AO = TX<Tag, false, false, true>; // overloaded unary operator&
static_assert(!std::is_nothrow_copy_constructible_v<NC<0>> && std::is_nothrow_move_constructible_v<NC<0>>);
static_assert(std::is_nothrow_copy_constructible_v<NM<0>> && !std::is_nothrow_move_constructible_v<NM<0>>);
// does unary & on a T yield a T* ?
template <typename T>
inline constexpr bool plain_addr = std::is_same_v<decltype(&std::declval<T&>()), T*>;

// bulk count biased to the boundaries of the remaining room
inline auto pick(std::uint32_t raw, std::size_t room) -> std::size_t
{
    switch (raw % 8) {
    case 0: return 0;
    case 1: return room >= 1 ? 1 : 0;
    case 2: return room;
    case 3: return room >= 1 ? room - 1 : 0;
    default: return (raw / 8) % (room + 1);
    }
}

inline auto show(std::vector<int> const& v) -> std::string
{
    std::string s = "[";
    for (std::size_t i = 0; i < v.size(); ++i) { s += (i ? "," : "") + std::to_string(v[i]); }
    return s + "]";
}

// per-case bookkeeping shared by all owners: the non-trivial rule of DESIGN §3/C03
struct Hist {
    std::size_t max_live{0};
    bool cross{false};   // cross-alternative / engaged<->disengaged transition
    bool middle{false};  // middle insert / erase
    bool moved{false};   // move construction / assignment with at least one element
    bool swapped{false}; // swap of two different non-empty owners
    bool selfop{false};  // self assignment / self swap on a non-empty owner
    std::string err;
    void poll()
    {
        auto n = lt::live_count();
        if (n > max_live) { max_live = n; }
    }
    [[nodiscard]] auto nontrivial() const -> bool { return max_live >= 3 && (cross || middle || moved || swapped || selfop); }
    void fail(std::string const& d)
    {
        if (err.empty()) { err = d; }
    }
    // after every op
    auto step() -> bool
    {
        poll();
        if (err.empty() && !lt::violation().empty()) { err = "lifetime: " + lt::violation(); }
        return err.empty();
    }
    // `applicable`: which of the classes exist for this owner ('c'ross, 'm'iddle, mo'v'ed, 's'wapped, sel'f')
    void labels(char const* owner, int stats, OpsCase const& k, char const* applicable = "cmvsf") const
    {
        if (stats > 1) {
            auto on = [&](char ch) { return std::strchr(applicable, ch) != nullptr; };
            auto l  = [&](char const* what, bool b) { vf::label((std::string(owner) + "." + what).c_str(), b); };
            l("live>=3", max_live >= 3);
            if (on('c')) { l("cross/engage transition", cross); }
            if (on('m')) { l("middle insert/erase", middle); }
            if (on('v')) { l("move with elements", moved); }
            if (on('s')) { l("swap non-empty", swapped); }
            if (on('f')) { l("self-op non-empty", selfop); }
            l("nontrivial", nontrivial());
        }
        if (stats > 0 && nontrivial()) { vf::nontrivial(vf::digest(k)); }
    }
};

// ------------------------------------------------------------------ configuration table + drivers
struct Config {
    std::string name;
    std::string (*run)(OpsCase const&, int);
    std::uint32_t ncodes;
    char const* const* code_names;
    bool tiny; // gets the exhaustive op-pair enumeration
    int pct{100}; // share of the per-configuration history budget (expensive configurations get less)
};
inline auto configs() -> std::vector<Config>&
{
    static std::vector<Config> c;
    return c;
}

inline auto run_case(OpsCase const& k, int stats) -> std::string
{
    auto const& cfg = configs()[k.cfg % configs().size()];
    auto d          = cfg.run(k, stats);
    return d.empty() ? d : cfg.name + ": " + d;
}

inline auto describe(OpsCase const& k) -> std::string
{
    auto const& cfg = configs()[k.cfg % configs().size()];
    std::string s   = cfg.name + " :";
    for (auto const& o : k.ops) { s += " " + std::string(cfg.code_names[o.code % cfg.ncodes]) + "[" + std::to_string(o.a) + "," + std::to_string(o.b) + "," + std::to_string(o.c) + "]"; }
    return s;
}

// E2: after a fixed fill prefix, every ordered pair (thorough: triple) of ops over a two-shapes-per-op alphabet
// (`shapes`: the argument triples (a,b,c) every op code is enumerated with; default = target A / target B of a two-owner case)
inline void run_pairs(vf::Ctx& c, std::vector<RawOp> const& prefix, std::vector<RawOp> const& shapes = {RawOp{0, 0, 1, 2}, RawOp{0, 1, 2, 5}})
{
    for (std::uint32_t ci = 0; ci < configs().size(); ++ci) {
        auto const& cfg = configs()[ci];
        if (!cfg.tiny) { continue; }
        std::vector<RawOp> alpha;
        for (std::uint32_t code = 0; code < cfg.ncodes; ++code) {
            for (auto const& sh : shapes) { alpha.push_back(RawOp{code, sh.a, sh.b, sh.c}); }
        }
        vf::enum_histories(ci, alpha, c.thorough() ? 3 : 2, [&](OpsCase const& tail) {
            OpsCase k;
            k.cfg = ci;
            k.ops = prefix;
            k.ops.insert(k.ops.end(), tail.ops.begin(), tail.ops.end());
            vf::Flight<OpsCase> fl("op_tuples", k);
            vf::eval("op_tuples");
            auto d = run_case(k, 1);
            if (!d.empty()) { vf::mismatch("op_tuples", k, d); }
        });
    }
}

// E1: random histories, every configuration
inline void run_histories(vf::Ctx& c, int quick_per_cfg, int thorough_per_cfg, int max_ops)
{
    int per_cfg = c.thorough() ? thorough_per_cfg : quick_per_cfg;
    for (std::uint32_t ci = 0; ci < configs().size(); ++ci) {
        auto const& cfg = configs()[ci];
        auto gen        = rc::gen::map(vf::gen_history(1, cfg.ncodes, max_ops), [ci](OpsCase k) {
            k.cfg = ci;
            return k;
        });
        std::string sub = "histories/" + cfg.name;
        vf::rc_check<OpsCase>(sub.c_str(), gen, std::max(1, per_cfg * cfg.pct / 100), 100, [&](OpsCase const& k) {
            vf::eval("histories");
            auto d = run_case(k, 2);
            if (k.ops.size() >= 6) { vf::sample("histories", [&] { return describe(k); }); }
            return d;
        });
    }
}

inline auto replay_history(std::string const& cs) -> std::string
{
    auto k = vf::parse_ops(cs);
    vf::Flight<OpsCase> fl("replay", k);
    std::fprintf(stderr, "replaying: %s\n", describe(k).c_str());
    return run_case(k, 0);
}

} // namespace c03

#endif // VERIF_C03_SHARED
