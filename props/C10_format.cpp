// C10 (formatting half) — integer -> text: etl::to_chars, etl::strings::from_integer, etl::to_string<Cap>,
// and the round trip etl::from_chars(etl::to_chars(v)) == v.
// Engine E2 (complete enumeration of the 8/16-bit types, boundary values of the 32/64-bit types) + seeded random values
// (vf::Rng).  Oracle: std::to_chars / std::to_string.
//
// What is demanded (and nothing more):
//   * to_chars(first,last,v,base): if the std digits fit into [first,last): ec == {}, ptr == first + n, identical
//     characters in [first, first+n).  Otherwise ec == value_too_large and ptr == last ([charconv.to.chars]/2).
//     Bytes of [first,last) that are not part of the result are unspecified and never looked at.  No byte outside
//     [first,last) may change: the buffer is (mode "heap") an exact-size malloc block, so ASan reports any access
//     outside it, and (mode "canary") embedded between 32 guard bytes on each side that are compared afterwards.
//   * strings::from_integer<T, {terminate_with_null}>(v, str, length, base): fits <=> digits (+1 for the terminator)
//     <= length; then error == none, end == str + digits, identical characters, str[digits] == 0 when terminating.
//     Otherwise error == overflow (`end` is undocumented on failure and not compared).
//   * to_string<Cap>(v) == std::to_string(v), called only when digits + 1 <= Cap (the implementation formats into a
//     char[Cap] with terminator and has a TETL_PRECONDITION on success; digits == Cap is therefore not claimed).
//   * round trip: from_chars over exactly the characters to_chars produced gives back v, ptr == end, ec == {}.
#include <etl/charconv.hpp>
#include <etl/string.hpp>
#include <etl/string_view.hpp>
#include <etl/strings.hpp>

#include <charconv>
#include <limits>
#include <string>
#include <type_traits>

#include "verif.hpp"

// libubsan has its own copy of the sanitizer runtime: a fatal UBSan report does not run the death callback the engine
// registers with ASan.  This weak hook is called by libubsan before it prints a report (all reports are fatal here:
// -fno-sanitize-recover), so the in-flight case still reaches the fragment.
#if !defined(VF_HAS_UBSAN_HOOK)
extern "C" void __ubsan_on_report(void) { vf::on_death(); }
#endif

namespace {

// ---------------------------------------------------------------------------------------------- types
// The file is compiled twice (registry flags -DC10_FMT_PART=1 / =2) so that the two halves build in parallel:
// part 1 = the 8- and 16-bit types (complete enumeration), part 2 = the 32/64-bit types + to_string; 0 = everything.
#if !defined(C10_FMT_PART)
    #define C10_FMT_PART 0
#endif
#if C10_FMT_PART != 2
    #define C10_SMALL_TYPES(X)                                                                                         \
        X(char, "char")                                                                                                \
        X(signed char, "i8")                                                                                           \
        X(unsigned char, "u8")                                                                                         \
        X(short, "i16")                                                                                                \
        X(unsigned short, "u16")
#else
    #define C10_SMALL_TYPES(X)
#endif
#if C10_FMT_PART != 1
    #define C10_WIDE_TYPES(X)                                                                                          \
        X(int, "i32")                                                                                                  \
        X(unsigned, "u32")                                                                                             \
        X(long, "l")                                                                                                   \
        X(unsigned long, "ul")                                                                                         \
        X(long long, "ll")                                                                                             \
        X(unsigned long long, "ull")
#else
    #define C10_WIDE_TYPES(X)
#endif
#define C10_TYPES(X) C10_SMALL_TYPES(X) C10_WIDE_TYPES(X)

template <typename T>
constexpr auto tname() -> char const*;
#define X(T, N)                                                                                                        \
    template <>                                                                                                        \
    constexpr auto tname<T>() -> char const*                                                                           \
    {                                                                                                                  \
        return N;                                                                                                      \
    }
C10_TYPES(X)
#undef X

using i128 = __int128;

// Every CALL SHAPE is a separate code path (an overload, a defaulted parameter): the *_nobase entries call
// to_chars(first, last, v) / from_chars(first, last, v) without a base argument, from_integer_deduced calls
// from_integer(v, str, len, base) with every template argument deduced/defaulted (as the unit tests do).
enum Fn { ToChars, FromIntT, FromIntN, ToString, RoundTrip, ToCharsNoBase, FromIntD, RoundTripNoBase, kNumFn };
char const* const fn_names[] = {"to_chars", "from_integer_term", "from_integer_noterm", "to_string", "roundtrip", "to_chars_nobase", "from_integer_deduced", "roundtrip_nobase"};
enum Mode { Heap = 0, Canary = 1, Null = 2 }; // Null: the valid empty range [nullptr, nullptr) (a default-constructed span<char>)

struct Case {
    int fn;
    char const* ty;
    bool sgn;
    long long s;
    unsigned long long u;
    int base;
    int len;  // buffer length (to_string: Capacity)
    int mode; // Heap / Canary
};
auto show_case(Case const& k) -> std::string
{
    return std::string(fn_names[k.fn]) + " " + k.ty + " " + (k.sgn ? std::to_string(k.s) : std::to_string(k.u)) + " " + std::to_string(k.base) + " " + std::to_string(k.len) + " "
         + (k.mode == Heap ? "heap" : (k.mode == Canary ? "canary" : "null"));
}
template <typename T>
auto mk(int fn, T v, int base, int len, int mode) -> Case
{
    if constexpr (std::is_signed_v<T>) {
        return Case{fn, tname<T>(), true, static_cast<long long>(v), 0, base, len, mode};
    } else {
        return Case{fn, tname<T>(), false, 0, static_cast<unsigned long long>(v), base, len, mode};
    }
}
template <typename T>
auto vstr(T v) -> std::string
{
    if constexpr (std::is_signed_v<T>) {
        return std::to_string(static_cast<long long>(v));
    } else {
        return std::to_string(static_cast<unsigned long long>(v));
    }
}

// printable rendering of possibly arbitrary bytes (deterministic)
auto vis(char const* p, std::size_t n) -> std::string
{
    std::string o = "\"";
    for (std::size_t i = 0; i < n; ++i) {
        auto c = static_cast<unsigned char>(p[i]);
        if (c >= 0x20 && c < 0x7f && c != '"' && c != '\\') {
            o += static_cast<char>(c);
        } else {
            char b[8];
            std::snprintf(b, sizeof b, "\\x%02x", c);
            o += b;
        }
    }
    return o + "\"";
}

// ---------------------------------------------------------------------------------------------- buffers
constexpr int kMaxLen  = 96;
constexpr int kGuard   = 32;
constexpr auto kFill   = static_cast<unsigned char>(0xA5);
constexpr auto kCanary = static_cast<unsigned char>(0xC3);

struct Buffers { // one exact-size heap block per length (ASan red zones on both sides) and one guarded block per length
    char* heap[kMaxLen + 1]{};
    unsigned char* guarded[kMaxLen + 1]{};
    auto get(int len, int mode) -> char*
    {
        if (mode == Null) { return nullptr; } // only ever used with len == 0
        if (mode == Heap) {
            if (heap[len] == nullptr) {
                // ASan turns malloc(0) into a 1-byte allocation, which would hide a one-byte write into an empty
                // buffer: the zero-length buffer is the one-past-the-end position of a 16-byte block instead.
                heap[len] = len == 0 ? static_cast<char*>(std::malloc(16)) + 16 : static_cast<char*>(std::malloc(static_cast<std::size_t>(len)));
            }
            std::memset(heap[len], kFill, static_cast<std::size_t>(len));
            return heap[len];
        }
        if (guarded[len] == nullptr) { guarded[len] = static_cast<unsigned char*>(std::malloc(static_cast<std::size_t>(len + 2 * kGuard))); }
        auto* g = guarded[len];
        std::memset(g, kCanary, kGuard);
        std::memset(g + kGuard, kFill, static_cast<std::size_t>(len));
        std::memset(g + kGuard + len, kCanary, kGuard);
        return reinterpret_cast<char*>(g + kGuard);
    }
    // offset (relative to the buffer start) of the first changed guard byte, or INT_MIN when intact
    auto damaged(int len, int mode) -> int
    {
        if (mode != Canary) { return INT32_MIN; }
        auto* g = guarded[len];
        for (int i = 0; i < kGuard; ++i) {
            if (g[i] != kCanary) { return i - kGuard; }
        }
        for (int i = 0; i < kGuard; ++i) {
            if (g[kGuard + len + i] != kCanary) { return len + i; }
        }
        return INT32_MIN;
    }
};
Buffers g_buf;

// local statistics, flushed once (vf::label costs a map lookup per call)
struct Local {
    std::uint64_t ev[kNumFn]{};
    std::uint64_t nt{0};
    std::uint64_t calls{0}, exact{0}, tooSmall{0}, zeroLen{0}, negative{0}, base10{0}, negNon10{0}, roomy{0}, nullRange{0};
    std::uint64_t tsCalls{0}, tsExact{0}, tsNeg{0};
};
Local g_loc;

void flush_stats()
{
    for (int i = 0; i < kNumFn; ++i) {
        if (g_loc.ev[i] != 0) { vf::eval(fn_names[i], g_loc.ev[i]); }
    }
    vf::nontrivial_count(g_loc.nt);
    auto put = [](char const* n, std::uint64_t hit, std::uint64_t of) {
        if (of == 0) { return; }
        auto& c = vf::stats().classes[n];
        c.first += hit;
        c.second += of;
    };
    put("fmt.buffer_exact_fit", g_loc.exact, g_loc.calls);
    put("fmt.buffer_too_small", g_loc.tooSmall, g_loc.calls);
    put("fmt.buffer_zero_length", g_loc.zeroLen, g_loc.calls);
    put("fmt.buffer_roomy", g_loc.roomy, g_loc.calls);
    put("fmt.buffer_null_empty_range", g_loc.nullRange, g_loc.calls);
    put("fmt.value_negative", g_loc.negative, g_loc.calls);
    put("fmt.base_10", g_loc.base10, g_loc.calls);
    put("fmt.negative_and_base_not_10", g_loc.negNon10, g_loc.calls);
    put("to_string.exact_fit", g_loc.tsExact, g_loc.tsCalls);
    put("to_string.negative", g_loc.tsNeg, g_loc.tsCalls);
    g_loc = Local{};
}

#define FAIL(sub, kase, ...)                                                                                           \
    do {                                                                                                               \
        char buf_[640];                                                                                                \
        std::snprintf(buf_, sizeof buf_, __VA_ARGS__);                                                                 \
        vf::mismatch(sub, kase, buf_);                                                                                 \
        return;                                                                                                        \
    } while (0)

template <typename T>
auto ref_digits(T v, int base, char (&out)[80]) -> int
{
    auto r = std::to_chars(out, out + 80, v, base);
    return static_cast<int>(r.ptr - out);
}

template <typename T>
void account(T v, int base, int len, int n)
{
    ++g_loc.calls;
    bool neg = false;
    if constexpr (std::is_signed_v<T>) { neg = v < 0; }
    g_loc.exact += (len == n);
    g_loc.tooSmall += (len < n);
    g_loc.zeroLen += (len == 0);
    g_loc.roomy += (len > n);
    g_loc.negative += neg;
    g_loc.base10 += (base == 10);
    g_loc.negNon10 += (neg && base != 10);
    bool nt = v != 0 && (base != 10 || neg || (len >= n - 1 && len <= n + 1));
    g_loc.nt += nt;
}

// ---------------------------------------------------------------------------------------------- to_chars, one call
template <typename T>
void one_to_chars(T v, int base, int len, int mode, char const* ref, int n, bool nobase = false)
{
    int const fn      = nobase ? ToCharsNoBase : ToChars;
    char const* fname = fn_names[fn];
    Case k            = mk(fn, v, base, len, mode);
    vf::Flight<Case> fl(fname, k);
    char* b      = g_buf.get(len, mode);
    auto const r = nobase ? etl::to_chars(b, b + len, v) : etl::to_chars(b, b + len, v, base);
    ++g_loc.ev[fn];
    account(v, base, len, n);
    g_loc.nullRange += (mode == Null);
    int dmg = g_buf.damaged(len, mode);
    if (dmg != INT32_MIN) {
        FAIL(fname, k, "%s<%s>(%s, base %d) into a %d-byte buffer changed the byte at offset %d (outside [first,last)); std needs %d characters", fname, tname<T>(), vstr(v).c_str(), base, len, dmg, n);
    }
    if (n <= len) {
        bool ok = r.ec == etl::errc{} && r.ptr == b + n && std::memcmp(b, ref, static_cast<std::size_t>(n)) == 0;
        if (!ok) {
            if (r.ec != etl::errc{}) {
                FAIL(fname, k, "%s<%s>(%s, base %d) into a %d-byte buffer: etl reports ec=%d, std writes %s (%d characters fit)", fname, tname<T>(), vstr(v).c_str(), base, len, static_cast<int>(r.ec),
                    vis(ref, static_cast<std::size_t>(n)).c_str(), n);
            }
            auto en = static_cast<long>(r.ptr - b);
            if (en < 0 || en > len) {
                FAIL(fname, k, "%s<%s>(%s, base %d) into a %d-byte buffer: etl ptr is outside the buffer (offset %ld), std writes %s", fname, tname<T>(), vstr(v).c_str(), base, len, en, vis(ref, static_cast<std::size_t>(n)).c_str());
            }
            FAIL(fname, k, "%s<%s>(%s, base %d) into a %d-byte buffer: etl writes %s, std writes %s", fname, tname<T>(), vstr(v).c_str(), base, len, vis(b, static_cast<std::size_t>(en)).c_str(),
                vis(ref, static_cast<std::size_t>(n)).c_str());
        }
    } else {
        if (r.ec != etl::errc::value_too_large) {
            FAIL(fname, k, "%s<%s>(%s, base %d) into a %d-byte buffer: std needs %d characters and reports value_too_large, etl reports ec=%d", fname, tname<T>(), vstr(v).c_str(), base, len, n, static_cast<int>(r.ec));
        }
        if (r.ptr != b + len) {
            FAIL(fname, k, "%s<%s>(%s, base %d) into a %d-byte buffer: value_too_large but ptr != last", fname, tname<T>(), vstr(v).c_str(), base, len);
        }
    }
}

// ---------------------------------------------------------------------------------------------- from_integer, one call
template <typename T, bool Term>
void one_from_integer(T v, int base, int len, int mode, char const* ref, int n, bool deduced = false)
{
    int const fn = deduced ? FromIntD : (Term ? FromIntT : FromIntN); // deduced: only with Term (the default option)
    Case k           = mk(fn, v, base, len, mode);
    vf::Flight<Case> fl(fn_names[fn], k);
    char* b             = g_buf.get(len, mode);
    constexpr auto opts = etl::strings::from_integer_options{.terminate_with_null = Term};
    auto const r        = deduced ? etl::strings::from_integer(v, b, static_cast<std::size_t>(len), base) : etl::strings::from_integer<T, opts>(v, b, static_cast<std::size_t>(len), base);
    ++g_loc.ev[fn];
    account(v, base, len, n + (Term ? 1 : 0));
    int dmg = g_buf.damaged(len, mode);
    if (dmg != INT32_MIN) {
        FAIL(fn_names[fn], k, "%s<%s>(%s, base %d) into a %d-byte buffer changed the byte at offset %d (outside the buffer); the text needs %d bytes", fn_names[fn], tname<T>(), vstr(v).c_str(), base, len, dmg, n + (Term ? 1 : 0));
    }
    int need = n + (Term ? 1 : 0);
    if (need <= len) {
        if (r.error != etl::strings::from_integer_error::none) {
            FAIL(fn_names[fn], k, "%s<%s>(%s, base %d) into a %d-byte buffer: reports overflow although the %d bytes of %s%s fit", fn_names[fn], tname<T>(), vstr(v).c_str(), base, len, need, vis(ref, static_cast<std::size_t>(n)).c_str(),
                Term ? " + terminator" : "");
        }
        auto en = static_cast<long>(r.end - b);
        if (en != n || std::memcmp(b, ref, static_cast<std::size_t>(n)) != 0) {
            FAIL(fn_names[fn], k, "%s<%s>(%s, base %d) into a %d-byte buffer: etl writes %s, std::to_chars writes %s", fn_names[fn], tname<T>(), vstr(v).c_str(), base, len,
                (en >= 0 && en <= len) ? vis(b, static_cast<std::size_t>(en)).c_str() : "(end outside the buffer)", vis(ref, static_cast<std::size_t>(n)).c_str());
        }
        if (Term && b[n] != '\0') { FAIL(fn_names[fn], k, "%s<%s>(%s, base %d) into a %d-byte buffer: no terminator after the digits", fn_names[fn], tname<T>(), vstr(v).c_str(), base, len); }
    } else {
        if (r.error != etl::strings::from_integer_error::overflow) {
            FAIL(fn_names[fn], k, "%s<%s>(%s, base %d) into a %d-byte buffer: %d bytes are needed but no overflow is reported", fn_names[fn], tname<T>(), vstr(v).c_str(), base, len, need);
        }
    }
}

// ---------------------------------------------------------------------------------------------- round trip
template <typename T>
void one_roundtrip(T v, int base, char const* ref, int n, bool nobase = false)
{
    int const fn = nobase ? RoundTripNoBase : RoundTrip;
    Case k       = mk(fn, v, base, n, Heap);
    vf::Flight<Case> fl(fn_names[fn], k);
    char* b      = g_buf.get(n, Heap);
    auto const r = nobase ? etl::to_chars(b, b + n, v) : etl::to_chars(b, b + n, v, base);
    ++g_loc.ev[fn];
    if (r.ec != etl::errc{} || r.ptr != b + n) {
        // reported by the to_chars sub-property as well; here it means the round trip cannot even start
        FAIL(fn_names[fn], k, "round trip%s <%s>(%s, base %d): to_chars into the exact-fit %d-byte buffer does not produce the %d characters of %s (ec=%d, %ld characters written)", nobase ? " without base argument" : "", tname<T>(), vstr(v).c_str(), base, n, n,
            vis(ref, static_cast<std::size_t>(n)).c_str(), static_cast<int>(r.ec), r.ec == etl::errc{} ? static_cast<long>(r.ptr - b) : -1L);
    }
    T back         = static_cast<T>(v == T(0) ? 1 : 0); // differs from v
    auto const p   = nobase ? etl::from_chars(static_cast<char const*>(b), static_cast<char const*>(b + n), back) : etl::from_chars(static_cast<char const*>(b), static_cast<char const*>(b + n), back, base);
    bool const okk = p.ec == etl::errc{} && p.ptr == b + n && back == v;
    if (!okk) {
        FAIL(fn_names[fn], k, "round trip%s <%s>(%s, base %d): to_chars gives %s, from_chars of that gives value %s, ec=%d, consumed %ld of %d (std::to_chars gives %s)", nobase ? " without base argument" : "", tname<T>(), vstr(v).c_str(), base,
            vis(b, static_cast<std::size_t>(n)).c_str(), vstr(back).c_str(), static_cast<int>(p.ec), static_cast<long>(p.ptr - b), n, vis(ref, static_cast<std::size_t>(n)).c_str());
    }
}

// the call shapes that leave the base (and the from_integer template arguments) to their defaults: same value, same
// buffer-length ladder (complete 0..n+2, or n-1..n+1 for the structured values), heap / canary / null buffers; the
// reference is the std::to_chars call of the same shape
template <typename T>
void point_default_shapes(T v, bool full)
{
    char ref[80];
    auto const rr = std::to_chars(ref, ref + 80, v);
    int const n   = static_cast<int>(rr.ptr - ref);
    for (int mode = Heap; mode <= Canary; ++mode) {
        for (int len = (full ? 0 : n - 1); len <= (full ? n + 2 : n + 1); ++len) {
            one_to_chars(v, 10, len, mode, ref, n, true);
            if (full || mode == Canary) { one_from_integer<T, true>(v, 10, len, mode, ref, n, true); }
        }
    }
    one_from_integer<T, true>(v, 10, n + 1, Canary, ref, n, true);
    one_to_chars(v, 10, 0, Null, ref, n, true);
    one_roundtrip(v, 10, ref, n, true);
}

// every buffer length 0..n+2, both buffer kinds, to_chars + from_integer (both options) + round trip
template <typename T>
void point(T v, int base, bool withFromInteger)
{
    char ref[80];
    int const n = ref_digits(v, base, ref);
    for (int mode = Heap; mode <= Canary; ++mode) {
        for (int len = 0; len <= n + 2; ++len) {
            one_to_chars(v, base, len, mode, ref, n);
            if (withFromInteger) {
                one_from_integer<T, true>(v, base, len, mode, ref, n);
                if (len == n + 2) { one_from_integer<T, true>(v, base, n + 3, mode, ref, n); }
            }
        }
    }
    // the empty range at the null pointer is a valid range too: value_too_large / overflow, and no contract may fire
    one_to_chars(v, base, 0, Null, ref, n);
    if (withFromInteger) {
        one_from_integer<T, true>(v, base, 0, Null, ref, n);
        one_from_integer<T, false>(v, base, 0, Null, ref, n);
    }
    if (withFromInteger) {
        // the no-terminator option is what to_chars uses; run it directly on the three lengths around the exact fit
        for (int len = (n > 0 ? n - 1 : 0); len <= n + 1; ++len) { one_from_integer<T, false>(v, base, len, Canary, ref, n); }
    }
    one_roundtrip(v, base, ref, n);
    if (base == 10) { point_default_shapes(v, true); }
}

// ---------------------------------------------------------------------------------------------- value sets
template <typename T>
auto boundary_values(int base) -> std::vector<T>
{
    using L = std::numeric_limits<T>;
    std::vector<T> out;
    auto add = [&](i128 x) {
        if (x >= static_cast<i128>(L::min()) && x <= static_cast<i128>(L::max())) { out.push_back(static_cast<T>(x)); }
    };
    i128 const mx = L::max();
    i128 const mn = L::min();
    for (i128 x : {i128(0), i128(1), i128(-1), i128(2), i128(-2), mx, mx - 1, mn, mn + 1, mx / base, mx / base - 1, mx / base + 1, mn / base, mn / base - 1, mn / base + 1, mx / 2, mn / 2}) { add(x); }
    for (i128 p = base; p <= mx + 1; p *= base) {
        for (i128 d = -1; d <= 1; ++d) {
            add(p + d);
            add(-(p + d));
        }
        add(p * (base - 1));   // d000..0 with the largest digit
        add(-(p * (base - 1)));
    }
    std::sort(out.begin(), out.end());
    out.erase(std::unique(out.begin(), out.end()), out.end());
    return out;
}

template <typename T>
auto random_value(vf::Rng& rng) -> T
{
    // random magnitude class (bit width) so that all digit counts are hit, then random bits, random sign
    using U        = std::make_unsigned_t<T>;
    int const bits = static_cast<int>(sizeof(T) * 8);
    int const w    = 1 + static_cast<int>(rng.below(static_cast<std::uint64_t>(bits)));
    auto raw       = static_cast<U>(rng.next());
    if (w < bits) { raw = static_cast<U>(raw & ((U(1) << w) - 1)); }
    if constexpr (std::is_signed_v<T>) {
        if (rng.below(2) == 0) { raw = static_cast<U>(U(0) - raw); }
    }
    return static_cast<T>(raw);
}

// ---------------------------------------------------------------------------------------------- sweeps
// Structured special values (magnitudes that sit on the boundaries of any digit-chunking scheme, in radix 10 and in
// the radix of the call): 2^a * 10^b * base^c (+-1), (2^w +- 1) * 10^b * base^c, and for R in {10, base} the values
// d * R^p + e whose representation in radix R has an all-zero or an all-(R-1) chunk of 1, 2, 4, 8 or 9 digits
// (lowest chunk, or a chunk in the middle followed by zeros); negative counterparts for the signed types.
using u128 = unsigned __int128;
template <typename T>
auto structured_values(int base) -> std::vector<T>
{
    using L           = std::numeric_limits<T>;
    u128 const maxMag = std::is_signed_v<T> ? static_cast<u128>(L::max()) + 1 : static_cast<u128>(L::max());
    std::vector<u128> mags;
    auto addm = [&](u128 m) {
        if (m <= maxMag) { mags.push_back(m); }
    };
    auto add3 = [&](u128 m) {
        addm(m);
        addm(m + 1);
        if (m > 0) { addm(m - 1); }
    };
    auto powers = [&](unsigned r) {
        std::vector<u128> v{1};
        while (v.back() <= maxMag / r) { v.push_back(v.back() * r); }
        return v;
    };
    auto const p2  = powers(2);
    auto const p10 = powers(10);
    auto const pB  = powers(static_cast<unsigned>(base));
    // products that fit (all factors <= maxMag <= 2^64, so the guarded multiplications cannot wrap in 128 bits)
    auto mul = [&](u128 x, u128 y, u128& out) {
        if (y != 0 && x > maxMag / y) { return false; }
        out = x * y;
        return true;
    };
    for (std::size_t b = 0; b < p10.size(); ++b) {
        for (std::size_t cc = 0; cc < pB.size() && cc <= 3; ++cc) {
            u128 tail = 0;
            if (!mul(p10[b], pB[cc], tail)) { continue; }
            for (std::size_t a = 0; a < p2.size(); ++a) {
                u128 x = 0;
                if (mul(p2[a], tail, x)) { add3(x); }
            }
            for (unsigned w : {7U, 8U, 15U, 16U, 24U, 31U, 32U, 33U, 48U, 63U}) {
                if (w >= p2.size()) { continue; }
                for (int sgn : {-1, 1}) {
                    u128 x = 0;
                    if (mul(static_cast<u128>(p2[w] + static_cast<u128>(sgn)), tail, x)) { add3(x); }
                }
            }
        }
    }
    static unsigned const chunk[] = {1, 2, 4, 8, 9};
    for (auto const* pw : {&p10, &pB}) {
        auto const& pr = *pw;
        u128 const R   = pr.size() > 1 ? pr[1] : 0;
        for (std::size_t p = 1; p < pr.size(); ++p) {
            u128 const P = pr[p];
            for (u128 d : {u128(1), u128(2), R - 1, R + 1, maxMag / P}) {
                u128 hi = 0;
                if (d == 0 || !mul(d, P, hi)) { continue; }
                addm(hi);
                addm(hi + (P - 1)); // every lower digit is R-1
                for (unsigned q : chunk) {
                    if (q >= p) { break; }
                    u128 const Q = pr[q];
                    addm(hi + 1);
                    addm(hi + Q - 1); // zero chunk above q digits of R-1
                    addm(hi + Q);
                    addm(hi + Q + 1);
                    for (unsigned r : chunk) {
                        if (q + r > p) { break; }
                        addm(hi + (Q - 1) * pr[r]); // q digits of R-1 in the middle, r zeros below
                    }
                }
            }
        }
    }
    std::sort(mags.begin(), mags.end());
    mags.erase(std::unique(mags.begin(), mags.end()), mags.end());
    std::vector<T> out;
    out.reserve(mags.size() * 2);
    for (u128 m : mags) {
        if (m <= static_cast<u128>(L::max())) { out.push_back(static_cast<T>(m)); }
        if constexpr (std::is_signed_v<T>) {
            if (m != 0) { out.push_back(static_cast<T>(static_cast<std::make_unsigned_t<T>>(0) - static_cast<std::make_unsigned_t<T>>(m))); }
        }
    }
    return out;
}

// the buffer lengths around the exact fit only (the complete 0..n+2 ladder is run for the boundary and random values)
template <typename T>
void point_light(T v, int base)
{
    char ref[80];
    int const n = ref_digits(v, base, ref);
    for (int len = n - 1; len <= n + 1; ++len) { one_to_chars(v, base, len, Heap, ref, n); }
    one_to_chars(v, base, n, Canary, ref, n);
    one_to_chars(v, base, n - 1, Canary, ref, n);
    one_from_integer<T, true>(v, base, n + 1, Heap, ref, n);
    one_from_integer<T, true>(v, base, n, Canary, ref, n);
    one_to_chars(v, base, 0, Null, ref, n);
    one_roundtrip(v, base, ref, n);
    if (base == 10) { point_default_shapes(v, false); }
}

std::vector<int> bases16(bool thorough)
{
    std::vector<int> b;
    if (thorough) {
        for (int i = 2; i <= 36; ++i) { b.push_back(i); }
    } else {
        b = {2, 8, 10, 16, 36};
    }
    return b;
}

template <typename T>
void sweep_small(vf::Ctx& c, std::vector<int> const& bases, std::uint64_t& item)
{
    using L            = std::numeric_limits<T>;
    constexpr long blk = 1024;
    for (int base : bases) {
        for (long lo = L::min(); lo <= static_cast<long>(L::max()); lo += blk) {
            if (!c.mine(item++)) { continue; }
            long hi = std::min<long>(lo + blk - 1, L::max());
            for (long x = lo; x <= hi; ++x) { point(static_cast<T>(x), base, sizeof(T) == 1 || base == 10 || (x & 63) == 0); }
            if (lo == static_cast<long>(L::min()) && (base == 2 || base == 36)) {
                char ref[80];
                T const v   = L::min();
                int const n = ref_digits(v, base, ref);
                vf::sample("to_chars", [&] { return std::string("to_chars<") + tname<T>() + ">(" + vstr(v) + ", base " + std::to_string(base) + ") == " + vis(ref, static_cast<std::size_t>(n)) + ", buffer lengths 0.." + std::to_string(n + 2) + " (heap + canary), then every other value of the type"; });
            }
        }
        flush_stats();
    }
}

template <typename T>
void sweep_wide(vf::Ctx& c, std::uint64_t& item)
{
    for (int base = 2; base <= 36; ++base) {
        if (!c.mine(item++)) { continue; }
        for (T v : boundary_values<T>(base)) {
            point(v, base, true);
            if (base == 10 || base == 16 || base == 2) {
                char ref[80];
                int n = ref_digits(v, base, ref);
                vf::sample("to_chars", [&] { return std::string("to_chars<") + tname<T>() + ">(" + vstr(v) + ", base " + std::to_string(base) + ") == " + vis(ref, static_cast<std::size_t>(n)) + ", buffer lengths 0.." + std::to_string(n + 2) + " (heap + canary)"; });
            }
        }
        flush_stats();
    }
}

template <typename T>
void sweep_structured(vf::Ctx& c, std::uint64_t& item)
{
    for (int base = 2; base <= 36; ++base) {
        if (!c.mine(item++)) { continue; }
        std::uint64_t i = 0;
        for (T v : structured_values<T>(base)) {
            point_light(v, base);
            if ((++i & 0xFFF) == 1 && (base == 10 || base == 7)) {
                char ref[80];
                int n = ref_digits(v, base, ref);
                vf::sample("to_chars", [&] { return std::string("structured value: to_chars<") + tname<T>() + ">(" + vstr(v) + ", base " + std::to_string(base) + ") == " + vis(ref, static_cast<std::size_t>(n)) + ", buffer lengths " + std::to_string(n - 1) + ".." + std::to_string(n + 1); });
            }
        }
        flush_stats();
    }
}

template <typename T>
void sweep_random(vf::Rng& rng, std::uint64_t count)
{
    for (std::uint64_t i = 0; i < count; ++i) {
        int base = 2 + static_cast<int>(rng.below(35));
        if (rng.below(4) == 0) { base = 10; }
        point(random_value<T>(rng), base, (i & 7) == 0);
    }
    flush_stats();
}

// ---------------------------------------------------------------------------------------------- to_string<Cap>
template <std::size_t Cap, typename T>
void one_to_string(T v)
{
    Case k = mk(ToString, v, 10, static_cast<int>(Cap), Heap);
    vf::Flight<Case> fl("to_string", k);
    auto const expect = std::to_string(v);
    if (expect.size() + 1 > Cap) { return; } // does not fit the char[Cap] the implementation formats into: not claimed
    auto const got = etl::to_string<Cap>(v);
    ++g_loc.ev[ToString];
    ++g_loc.tsCalls;
    g_loc.tsExact += (expect.size() + 1 == Cap);
    bool neg = false;
    if constexpr (std::is_signed_v<T>) { neg = v < 0; }
    g_loc.tsNeg += neg;
    g_loc.nt += (v != 0 && (neg || expect.size() + 2 >= Cap));
    bool same = got.size() == expect.size() && std::memcmp(got.data(), expect.data(), expect.size()) == 0 && got.data()[got.size()] == '\0';
    if (!same) {
        FAIL("to_string", k, "to_string<%zu>(%s %s): etl gives %s (size %zu), std::to_string gives \"%s\"", Cap, tname<T>(), vstr(v).c_str(), vis(got.data(), got.size()).c_str(), static_cast<std::size_t>(got.size()), expect.c_str());
    }
}

#define C10_CAPS(X) X(2) X(3) X(4) X(6) X(11) X(12) X(20) X(21) X(22) X(32)

template <typename T>
void to_string_value(T v, int onlyCap = -1)
{
#define X(C)                                                                                                           \
    if (onlyCap < 0 || onlyCap == (C)) { one_to_string<C, T>(v); }
    C10_CAPS(X)
#undef X
}

template <typename T>
void sweep_to_string(vf::Ctx& c, vf::Rng& rng)
{
    if (c.shard == 0) {
        for (T v : boundary_values<T>(10)) { to_string_value(v); }
        for (long x = -1100; x <= 1100; ++x) {
            if (std::is_signed_v<T> || x >= 0) { to_string_value(static_cast<T>(x)); }
        }
    }
    {
        std::uint64_t i = 0;
        for (T v : structured_values<T>(10)) {
            if (c.mine(i++)) { to_string_value(v); }
        }
    }
    std::uint64_t const n = c.thorough() ? 20000 : 1500;
    for (std::uint64_t i = 0; i < n; ++i) { to_string_value(random_value<T>(rng)); }
    flush_stats();
}

} // namespace

// ================================================================================================== run
void vf_run(vf::Ctx& c)
{
    vf::Rng rng(c.seed);
    std::uint64_t item = 0;
#if C10_FMT_PART != 2
    // 1. 8-bit types: every value, every base 2..36, every buffer length, both buffer kinds (both tiers)
    std::vector<int> all;
    for (int b = 2; b <= 36; ++b) { all.push_back(b); }
    sweep_small<char>(c, all, item);
    sweep_small<signed char>(c, all, item);
    sweep_small<unsigned char>(c, all, item);
    // 2. 16-bit types: every value, all 35 bases
    // (the enumeration turned out cheap enough — about 20 CPU-seconds — to run all 35 bases in the quick tier as well)
    sweep_small<short>(c, bases16(true), item);
    sweep_small<unsigned short>(c, bases16(true), item);
#endif
#if C10_FMT_PART != 1
    // 3. 32/64-bit types: boundary values for every base
    sweep_wide<int>(c, item);
    sweep_wide<unsigned>(c, item);
    sweep_wide<long>(c, item);
    sweep_wide<unsigned long>(c, item);
    sweep_wide<long long>(c, item);
    sweep_wide<unsigned long long>(c, item);
    // 3b. structured special values (chunk boundaries in radix 10 and radix base) for every base
    sweep_structured<int>(c, item);
    sweep_structured<unsigned>(c, item);
    sweep_structured<long>(c, item);
    sweep_structured<unsigned long>(c, item);
    sweep_structured<long long>(c, item);
    sweep_structured<unsigned long long>(c, item);
    // 4. seeded random values: 6*10^5 (quick) / 10^7 (thorough) in total over the shards and the six wide types
    std::uint64_t const total = c.thorough() ? 10000000ULL : 600000ULL;
    std::uint64_t const per   = total / static_cast<std::uint64_t>(c.nshards) / 6 + 1;
    sweep_random<int>(rng, per);
    sweep_random<unsigned>(rng, per);
    sweep_random<long>(rng, per);
    sweep_random<unsigned long>(rng, per);
    sweep_random<long long>(rng, per);
    sweep_random<unsigned long long>(rng, per);
    // 5. to_string<Cap>
    sweep_to_string<int>(c, rng);
    sweep_to_string<unsigned>(c, rng);
    sweep_to_string<long>(c, rng);
    sweep_to_string<unsigned long>(c, rng);
    sweep_to_string<long long>(c, rng);
    sweep_to_string<unsigned long long>(c, rng);
#endif
    (void)item;
    flush_stats();
    vf::stats().exhaustive = true;
}

// ================================================================================================== replay
namespace {
template <typename T>
void replay_one(int fn, T v, int base, int len, int mode)
{
    char ref[80];
    int const n = ref_digits(v, base, ref);
    switch (fn) {
    case ToChars: one_to_chars(v, base, len, mode, ref, n); break;
    case FromIntT: one_from_integer<T, true>(v, base, len, mode, ref, n); break;
    case FromIntN: one_from_integer<T, false>(v, base, len, mode, ref, n); break;
    case RoundTrip: one_roundtrip(v, base, ref, n); break;
    case ToCharsNoBase: one_to_chars(v, 10, len, mode, ref, n, true); break;
    case FromIntD: one_from_integer<T, true>(v, base, len, mode, ref, n, true); break;
    case RoundTripNoBase: one_roundtrip(v, 10, ref, n, true); break;
    case ToString:
        if constexpr (std::is_same_v<T, int> || std::is_same_v<T, unsigned> || std::is_same_v<T, long> || std::is_same_v<T, unsigned long> || std::is_same_v<T, long long> || std::is_same_v<T, unsigned long long>) {
            to_string_value(v, len);
        }
        break;
    default: break;
    }
}
} // namespace

std::string vf_replay(std::string const& sub, std::string const& cs)
{
    (void)sub;
    char fn[40] = {0}, ty[16] = {0}, val[48] = {0}, mode[16] = {0};
    int base = 10, len = 0;
    if (std::sscanf(cs.c_str(), "%39s %15s %47s %d %d %15s", fn, ty, val, &base, &len, mode) != 6) { return "unparsable case string: " + cs; }
    int f = -1;
    for (int i = 0; i < kNumFn; ++i) {
        if (std::string(fn) == fn_names[i]) { f = i; }
    }
    if (f < 0 || base < 2 || base > 36 || len < 0 || len > kMaxLen) { return "unparsable case string: " + cs; }
    int const m = std::string(mode) == "canary" ? Canary : (std::string(mode) == "null" ? Null : Heap);
    if (m == Null && len != 0) { return "the null range is empty: length must be 0 in " + cs; }
    bool done   = false;
#define X(T, N)                                                                                                        \
    if (!done && std::string(ty) == (N)) {                                                                             \
        done = true;                                                                                                   \
        if (std::is_signed_v<T>) {                                                                                     \
            replay_one<T>(f, static_cast<T>(std::strtoll(val, nullptr, 10)), base, len, m);                           \
        } else {                                                                                                       \
            replay_one<T>(f, static_cast<T>(std::strtoull(val, nullptr, 10)), base, len, m);                          \
        }                                                                                                              \
    }
    C10_TYPES(X)
#undef X
    if (!done) { return "unknown type in case string: " + cs; }
    return "";
}
