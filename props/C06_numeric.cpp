// C06 (part 6/6) — etl/numeric.hpp range algorithms and the iterator helpers the algorithms lean on.
// Engine E2 (exhaustive small-scope enumeration) + seeded random longer inputs.  See C06_common.cpp.
//
// Covered here: accumulate(+-op, init type preserved) reduce(3 forms) inner_product(+-ops) transform_reduce(3 forms)
// adjacent_difference(+-op, also in place) partial_sum(+-op, also in place) iota;
// next prev advance distance on every iterator category; reverse_iterator (against std::reverse_iterator);
// back_insert_iterator (into etl::static_vector, against std::back_inserter into std::vector);
// front_insert_iterator (into a container with push_front, against std::front_inserter).
// gcd lcm midpoint abs add_sat div_sat saturate_cast belong to property C14 and are not exercised here.
#include "C06_common.cpp"

#include <etl/vector.hpp>

#include <cstdint>
#include <deque>
#include <limits>

namespace c06 {
namespace {

auto len(Case const& c) -> int { return static_cast<int>(c.a.size()); }
auto lenb(Case const& c) -> int { return static_cast<int>(c.b.size()); }

// ------------------------------------------------------------------ arithmetic buffers (exact-size or guarded)
std::vector<std::function<std::string()>>& nguards()
{
    static std::vector<std::function<std::string()>> v;
    return v;
}
template <typename T>
struct NBuf {
    char const* name;
    T* blk{nullptr};
    int n{0};
    int pad{0};
    T* sp_front{nullptr}; // shared position of single-pass iterators into this buffer
    NBuf(char const* nm, std::vector<T> const& init, int mode, int padn) : name{nm}, n{static_cast<int>(init.size())}, pad{mode == 0 ? 0 : padn}
    {
        blk = static_cast<T*>(::operator new(static_cast<std::size_t>(n + 2 * pad) * sizeof(T)));
        for (int i = 0; i < pad; ++i) { blk[i] = static_cast<T>(9000 + i); }
        for (int i = 0; i < n; ++i) { blk[pad + i] = init[static_cast<std::size_t>(i)]; }
        for (int i = 0; i < pad; ++i) { blk[pad + n + i] = static_cast<T>(9500 + i); }
        nguards().push_back([this] { return guards(); });
    }
    ~NBuf()
    {
        nguards().pop_back(); // buffers are destroyed in reverse order of construction
        ::operator delete(blk);
    }
    NBuf(NBuf const&)                    = delete;
    auto operator=(NBuf const&) -> NBuf& = delete;
    [[nodiscard]] auto b() const -> T* { return blk + pad; }
    [[nodiscard]] auto e() const -> T* { return blk + pad + n; }
    [[nodiscard]] auto guards() const -> std::string
    {
        for (int i = 0; i < pad; ++i) {
            if (blk[i] != static_cast<T>(9000 + i)) { return std::string("element ") + num(i - pad) + " of buffer '" + name + "' (before the range) was overwritten"; }
            if (blk[pad + n + i] != static_cast<T>(9500 + i)) { return std::string("element ") + num(n + i) + " of buffer '" + name + "' (past the range, size " + num(n) + ") was overwritten"; }
        }
        return "";
    }
    [[nodiscard]] auto str() const -> std::string
    {
        std::string s = "[";
        for (int i = 0; i < n; ++i) { s += (i != 0 ? " " : "") + std::to_string(b()[i]); }
        return s + "]";
    }
};
template <typename T>
auto vstr(std::vector<T> const& v) -> std::string
{
    std::string s = "[";
    for (std::size_t i = 0; i < v.size(); ++i) { s += (i != 0 ? " " : "") + std::to_string(v[i]); }
    return s + "]";
}
auto nverdict(std::string const& e, std::string const& s) -> std::string
{
    if (vf::it::g_out_of_range) { return "an iterator was moved or dereferenced outside the range passed; etl gave " + e + ", std gives " + s; }
    if (g_second_pass) { return "a single-pass input iterator was dereferenced or advanced after the range had already been traversed past it (second pass); etl gave " + e + ", std gives " + s; }
    for (auto const& gfn : nguards()) {
        auto gd = gfn();
        if (!gd.empty()) { return "out of range: " + gd + "; etl gave " + e + ", std gives " + s; }
    }
    return verdict(e, s);
}

template <char Id, typename T>
auto nat_id(NBuf<T>& a, int i)
{
    if constexpr (Id == 'P') {
        return a.b() + i;
    } else if constexpr (Id == 'I') {
        // truly single-pass (see SP in C06_common.cpp); its category tag lives in namespaces c06/etl only, so the
        // unqualified `reduce(...)` / `accumulate(...)` calls inside reduce.hpp stay unambiguous
        if (a.b() + i != a.e() || a.n == 0) { a.sp_front = a.b() + i; }
        return SP<T>{a.b() + i, a.b(), a.e(), &a.sp_front};
    } else {
        return vf::it::Iter<T, etl::forward_iterator_tag>{a.b() + i, a.b(), a.e()};
    }
}
template <typename K, typename T>
auto nat(NBuf<T>& a, int i)
{
    return nat_id<K::k1::id>(a, i);
}
template <typename K, typename T>
auto nat2(NBuf<T>& a, int i)
{
    return nat_id<K::k2::id>(a, i);
}
template <typename K, typename T>
auto noat(NBuf<T>& a, int i)
{
    if constexpr (K::ko::id == 'P') {
        return a.b() + i;
    } else {
        return OutT<T>{a.b() + i, a.b(), a.e()};
    }
}
template <typename T, typename It>
auto noff(NBuf<T> const& a, It const& i) -> int
{
    return static_cast<int>(rawp(i) - a.b());
}

using U = unsigned long;
auto uvals(std::vector<int> const& keys) -> std::vector<U>
{
    std::vector<U> v;
    for (int k : keys) { v.push_back(static_cast<U>(k) + 1U); }
    return v;
}
struct Fold { // non-commutative, non-associative: exposes operand order and fold direction (unsigned wrap-around is defined)
    auto operator()(U acc, U x) const -> U { return acc * 5U + x; }
};
struct Mix {
    auto operator()(U x, U y) const -> U { return x * 7U + y; }
};
struct Sq {
    auto operator()(U x) const -> U { return x * x + 1U; }
};

// ------------------------------------------------------------------ accumulate / reduce
template <typename K>
auto a_accumulate(Case const& c) -> std::string
{
    auto a = uvals(c.a);
    std::vector<double> h;
    for (int k : c.a) { h.push_back(static_cast<double>(k) + 0.5); }
    // third form: double elements folded into an int accumulator (the init type is the result type, truncating every step)
    auto s = num(static_cast<long>(std::accumulate(a.begin(), a.end(), U{7}))) + "," + num(static_cast<long>(std::accumulate(a.begin(), a.end(), U{7}, Fold{}))) + "," + num(std::accumulate(h.begin(), h.end(), 1));
    NBuf<U> A("a", a, c.pad, padn(c));
    NBuf<double> H("h", h, c.pad, padn(c));
    std::string e;
    {
        Scope sc;
        auto r3 = etl::accumulate(nat<K>(H, 0), nat<K>(H, len(c)), 1);
        static_assert(std::is_same_v<decltype(r3), int>, "accumulate must return the type of init");
        auto r1 = etl::accumulate(nat<K>(A, 0), nat<K>(A, len(c)), U{7}); // one call per statement (single-pass traversals)
        auto r2 = etl::accumulate(nat<K>(A, 0), nat<K>(A, len(c)), U{7}, Fold{});
        e       = num(static_cast<long>(r1)) + "," + num(static_cast<long>(r2)) + "," + num(r3);
    }
    return nverdict(e, s);
}
template <typename K>
auto a_reduce(Case const& c) -> std::string
{
    auto a = uvals(c.a);
    // std::reduce requires an associative and commutative operation: plus / multiplies on unsigned (wrap-around)
    auto s = num(static_cast<long>(std::reduce(a.begin(), a.end()))) + "," + num(static_cast<long>(std::reduce(a.begin(), a.end(), U{7}))) + "," + num(static_cast<long>(std::reduce(a.begin(), a.end(), U{3}, std::multiplies<>{})));
    NBuf<U> A("a", a, c.pad, padn(c));
    std::string e;
    {
        Scope sc;
        auto r1 = etl::reduce(nat<K>(A, 0), nat<K>(A, len(c)));
        auto r2 = etl::reduce(nat<K>(A, 0), nat<K>(A, len(c)), U{7});
        auto r3 = etl::reduce(nat<K>(A, 0), nat<K>(A, len(c)), U{3}, etl::multiplies<>{});
        e       = num(static_cast<long>(r1)) + "," + num(static_cast<long>(r2)) + "," + num(static_cast<long>(r3));
    }
    return nverdict(e, s);
}

// ------------------------------------------------------------------ inner_product / transform_reduce
template <typename K>
auto a_inner_product(Case const& c) -> std::string
{
    if (lenb(c) < len(c)) { return SKIP; }
    auto a = uvals(c.a);
    auto b = uvals(c.b);
    auto s = num(static_cast<long>(std::inner_product(a.begin(), a.end(), b.begin(), U{7}))) + "," + num(static_cast<long>(std::inner_product(a.begin(), a.end(), b.begin(), U{7}, Fold{}, Mix{})));
    NBuf<U> A("a", a, c.pad, padn(c));
    NBuf<U> B("b", b, c.pad, padn(c));
    std::string e;
    {
        Scope sc;
        auto r1 = etl::inner_product(nat<K>(A, 0), nat<K>(A, len(c)), nat2<K>(B, 0), U{7});
        auto r2 = etl::inner_product(nat<K>(A, 0), nat<K>(A, len(c)), nat2<K>(B, 0), U{7}, Fold{}, Mix{});
        e       = num(static_cast<long>(r1)) + "," + num(static_cast<long>(r2));
    }
    return nverdict(e, s);
}
template <typename K>
auto a_transform_reduce(Case const& c) -> std::string
{
    if (lenb(c) < len(c)) { return SKIP; }
    auto a = uvals(c.a);
    auto b = uvals(c.b);
    // reduction must be associative and commutative (plus); the transformation may be anything
    auto s = num(static_cast<long>(std::transform_reduce(a.begin(), a.end(), b.begin(), U{7}))) + "," + num(static_cast<long>(std::transform_reduce(a.begin(), a.end(), b.begin(), U{7}, std::plus<>{}, Mix{}))) + ","
           + num(static_cast<long>(std::transform_reduce(a.begin(), a.end(), U{7}, std::plus<>{}, Sq{})));
    NBuf<U> A("a", a, c.pad, padn(c));
    NBuf<U> B("b", b, c.pad, padn(c));
    std::string e;
    {
        Scope sc;
        auto r1 = etl::transform_reduce(nat<K>(A, 0), nat<K>(A, len(c)), nat2<K>(B, 0), U{7});
        auto r2 = etl::transform_reduce(nat<K>(A, 0), nat<K>(A, len(c)), nat2<K>(B, 0), U{7}, etl::plus<>{}, Mix{});
        auto r3 = etl::transform_reduce(nat<K>(A, 0), nat<K>(A, len(c)), U{7}, etl::plus<>{}, Sq{});
        e       = num(static_cast<long>(r1)) + "," + num(static_cast<long>(r2)) + "," + num(static_cast<long>(r3));
    }
    return nverdict(e, s);
}

// ------------------------------------------------------------------ adjacent_difference / partial_sum (+ in place)
struct Diff { // op(current, previous)
    auto operator()(long cur, long prev) const -> long { return cur * 3 - prev; }
};
struct Sum { // op(sum so far, current)
    auto operator()(long acc, long x) const -> long { return (acc * 3 + x) % 1000003; }
};
auto lvals(std::vector<int> const& keys) -> std::vector<long>
{
    std::vector<long> v;
    for (std::size_t i = 0; i < keys.size(); ++i) { v.push_back(static_cast<long>(keys[i]) * 10 + static_cast<long>(i % 7)); }
    return v;
}
template <typename K>
auto a_adjacent_difference(Case const& c) -> std::string
{
    auto a = lvals(c.a);
    std::vector<long> d1(a.size(), -5);
    std::vector<long> d2(a.size(), -5);
    auto ip1 = a;
    auto ip2 = a;
    auto r1  = std::adjacent_difference(a.begin(), a.end(), d1.begin()) - d1.begin();
    auto r2  = std::adjacent_difference(a.begin(), a.end(), d2.begin(), Diff{}) - d2.begin();
    auto r3  = std::adjacent_difference(ip1.begin(), ip1.end(), ip1.begin()) - ip1.begin();
    auto r4  = std::adjacent_difference(ip2.begin(), ip2.end(), ip2.begin(), Diff{}) - ip2.begin();
    auto s   = num(r1) + vstr(d1) + " " + num(r2) + vstr(d2) + " inplace " + num(r3) + vstr(ip1) + " " + num(r4) + vstr(ip2) + " src" + vstr(a);
    NBuf<long> A("a", a, c.pad, padn(c));
    NBuf<long> D1("dest1", std::vector<long>(a.size(), -5), c.pad, padn(c));
    NBuf<long> D2("dest2", std::vector<long>(a.size(), -5), c.pad, padn(c));
    NBuf<long> I1("inplace1", a, c.pad, padn(c));
    NBuf<long> I2("inplace2", a, c.pad, padn(c));
    std::string e;
    {
        Scope sc;
        auto e1 = noff(D1, etl::adjacent_difference(nat<K>(A, 0), nat<K>(A, len(c)), noat<K>(D1, 0)));
        auto e2 = noff(D2, etl::adjacent_difference(nat<K>(A, 0), nat<K>(A, len(c)), noat<K>(D2, 0), Diff{}));
        // in place: destination == first (allowed by [adjacent.difference]); needs a readable iterator -> pointers / forward
        auto e3 = noff(I1, etl::adjacent_difference(nat<K>(I1, 0), nat<K>(I1, len(c)), nat<K>(I1, 0)));
        auto e4 = noff(I2, etl::adjacent_difference(nat<K>(I2, 0), nat<K>(I2, len(c)), nat<K>(I2, 0), Diff{}));
        e       = num(e1) + D1.str() + " " + num(e2) + D2.str() + " inplace " + num(e3) + I1.str() + " " + num(e4) + I2.str() + " src" + A.str();
    }
    return nverdict(e, s);
}
template <typename K>
auto a_partial_sum(Case const& c) -> std::string
{
    auto a = lvals(c.a);
    std::vector<long> d1(a.size(), -5);
    std::vector<long> d2(a.size(), -5);
    auto ip1 = a;
    auto ip2 = a;
    auto r1  = std::partial_sum(a.begin(), a.end(), d1.begin()) - d1.begin();
    auto r2  = std::partial_sum(a.begin(), a.end(), d2.begin(), Sum{}) - d2.begin();
    auto r3  = std::partial_sum(ip1.begin(), ip1.end(), ip1.begin()) - ip1.begin();
    auto r4  = std::partial_sum(ip2.begin(), ip2.end(), ip2.begin(), Sum{}) - ip2.begin();
    auto s   = num(r1) + vstr(d1) + " " + num(r2) + vstr(d2) + " inplace " + num(r3) + vstr(ip1) + " " + num(r4) + vstr(ip2) + " src" + vstr(a);
    NBuf<long> A("a", a, c.pad, padn(c));
    NBuf<long> D1("dest1", std::vector<long>(a.size(), -5), c.pad, padn(c));
    NBuf<long> D2("dest2", std::vector<long>(a.size(), -5), c.pad, padn(c));
    NBuf<long> I1("inplace1", a, c.pad, padn(c));
    NBuf<long> I2("inplace2", a, c.pad, padn(c));
    std::string e;
    {
        Scope sc;
        auto e1 = noff(D1, etl::partial_sum(nat<K>(A, 0), nat<K>(A, len(c)), noat<K>(D1, 0)));
        auto e2 = noff(D2, etl::partial_sum(nat<K>(A, 0), nat<K>(A, len(c)), noat<K>(D2, 0), Sum{}));
        auto e3 = noff(I1, etl::partial_sum(nat<K>(I1, 0), nat<K>(I1, len(c)), nat<K>(I1, 0)));
        auto e4 = noff(I2, etl::partial_sum(nat<K>(I2, 0), nat<K>(I2, len(c)), nat<K>(I2, 0), Sum{}));
        e       = num(e1) + D1.str() + " " + num(e2) + D2.str() + " inplace " + num(e3) + I1.str() + " " + num(e4) + I2.str() + " src" + A.str();
    }
    return nverdict(e, s);
}
template <typename K>
auto a_iota(Case const& c) -> std::string
{
    auto a = lvals(c.a);
    std::iota(a.begin(), a.end(), static_cast<long>(c.val) - 1);
    auto s = vstr(a);
    NBuf<long> A("a", lvals(c.a), c.pad, padn(c));
    std::string e;
    {
        Scope sc;
        etl::iota(nat<K>(A, 0), nat<K>(A, len(c)), static_cast<long>(c.val) - 1);
        e = A.str();
    }
    return nverdict(e, s);
}

// ------------------------------------------------------------------ element type != accumulator / destination type
// [accumulate] [partial.sum] [adjacent.difference] ... fix the type every intermediate value has (the init type, resp. the
// input iterator's value type).  That is only observable when the element type and the init / destination type differ
// in width or signedness and the values leave the narrower type's range, so: narrow elements whose running sums wrap,
// written into / folded into a wider type (and the other way round), compared with std:: on the same types.
template <typename T>
auto tnum(T v) -> std::string
{
    if constexpr (std::is_floating_point_v<T>) {
        char buf[48];
        std::snprintf(buf, sizeof buf, "%.17g", static_cast<double>(v));
        return buf;
    } else if constexpr (std::is_signed_v<T>) {
        return std::to_string(static_cast<long long>(v));
    } else {
        return std::to_string(static_cast<unsigned long long>(v));
    }
}
template <typename T>
auto tvec(T const* p, int n) -> std::string
{
    std::string s = "[";
    for (int i = 0; i < n; ++i) { s += (i != 0 ? " " : "") + tnum(p[i]); }
    return s + "]";
}
template <typename In>
auto wrap_value(int key) -> In
{
    int k = key & 3;
    if constexpr (std::is_same_v<In, std::uint8_t>) {
        constexpr std::uint8_t t[] = {200, 100, 50, 255};
        return t[k];
    } else if constexpr (std::is_same_v<In, std::int8_t>) {
        constexpr std::int8_t t[] = {100, -100, 60, -128};
        return t[k];
    } else if constexpr (std::is_same_v<In, std::int16_t>) {
        constexpr std::int16_t t[] = {30000, -30000, 10000, -32000}; // (two products must be addable in int)
        return t[k];
    } else if constexpr (std::is_same_v<In, std::uint16_t>) {
        constexpr std::uint16_t t[] = {30000, 25000, 1000, 32000}; // products are formed in (signed) int and std::transform_reduce adds two of them: keep products <= 2^30
        return t[k];
    } else if constexpr (std::is_same_v<In, std::uint32_t>) {
        constexpr std::uint32_t t[] = {4000000000U, 3000000000U, 1U, 0xFFFFFFFFU};
        return t[k];
    } else {
        constexpr float t[] = {16777216.0F, 1.0F, 1.0F, 0.5F};
        return t[k];
    }
}
template <typename In>
auto iota_start() -> In
{
    return static_cast<In>(std::numeric_limits<In>::max() - In{1}); // the counter wraps after two steps
}
// op(accumulator, element) / op(current, previous): evaluated in the promoted / wider type, non-commutative
template <typename W>
struct WFold {
    template <typename A, typename B>
    auto operator()(A a, B b) const -> W
    {
        if constexpr (std::is_floating_point_v<W>) {
            return static_cast<W>(a) + static_cast<W>(b); // float -> double: the sum is exact in double, rounded in float
        } else if constexpr (std::is_signed_v<W>) {
            return static_cast<W>((static_cast<long long>(a) * 3 + static_cast<long long>(b)) % 1000003);
        } else {
            return static_cast<W>(static_cast<W>(a) * 3U + static_cast<W>(b));
        }
    }
};
template <typename K, typename In, typename Wide>
auto typed_numeric(Case const& c) -> std::string
{
    int const L = len(c);
    std::vector<In> a;
    std::vector<In> b;
    for (int i = 0; i < L; ++i) {
        a.push_back(wrap_value<In>(c.a[static_cast<std::size_t>(i)]));
        b.push_back(wrap_value<In>(c.a[static_cast<std::size_t>((i + 1) % L)] + 1));
    }
    // exclusion class "C06.adjacent_difference.narrow_default": the default-op overload with an element type narrower than
    // int is left out of the rendering (the explicit-op overload and every other algorithm stay in)
    bool const adiff_default = !(sizeof(In) < sizeof(int) && known("C06.adjacent_difference.narrow_default"));
    constexpr bool flt = std::is_floating_point_v<In>;
    // std::reduce / transform_reduce may group element with element first: op(In, In) is then evaluated in the promoted
    // type of In.  With a wider init the result is only grouping-independent when that promoted type cannot wrap (In narrower than int)
    constexpr bool wide_reduce = sizeof(In) < sizeof(int);
    using Op           = WFold<Wide>;
    std::string s;
    std::string e;
    auto const sz = static_cast<std::size_t>(L);
    // ---------------- std
    {
        std::vector<Wide> w1(sz, Wide{5});
        std::vector<Wide> w2(sz, Wide{5});
        std::vector<Wide> w3(sz, Wide{5});
        std::vector<Wide> w4(sz, Wide{5});
        std::vector<In> n1(sz, In{5});
        std::vector<In> io(sz, In{5});
        std::vector<Wide> iw(sz, Wide{5});
        auto r1 = std::partial_sum(a.begin(), a.end(), w1.begin()) - w1.begin();
        auto r2 = std::partial_sum(a.begin(), a.end(), w2.begin(), Op{}) - w2.begin();
        auto r3 = std::adjacent_difference(a.begin(), a.end(), w3.begin()) - w3.begin();
        auto r4 = std::adjacent_difference(a.begin(), a.end(), w4.begin(), Op{}) - w4.begin();
        std::partial_sum(a.begin(), a.end(), n1.begin(), Op{}); // wide op, narrow destination
        s += "psum " + num(r1) + tvec(w1.data(), L) + " psum_op " + num(r2) + tvec(w2.data(), L) + " adiff " + (adiff_default ? num(r3) + tvec(w3.data(), L) : std::string("-")) + " adiff_op " + num(r4) + tvec(w4.data(), L) + " psum_narrow" + tvec(n1.data(), L);
        s += " acc " + tnum(std::accumulate(a.begin(), a.end(), Wide{7})) + "," + tnum(std::accumulate(a.begin(), a.end(), In{7})) + "," + tnum(std::accumulate(a.begin(), a.end(), Wide{7}, Op{})) + "," + tnum(std::accumulate(a.begin(), a.end(), In{7}, Op{}));
        s += " inner " + tnum(std::inner_product(a.begin(), a.end(), b.begin(), Wide{7})) + "," + tnum(std::inner_product(a.begin(), a.end(), b.begin(), In{7}));
        if constexpr (!flt) { // reductions in unspecified order: exact (modular) arithmetic only
            s += " reduce " + tnum(std::reduce(a.begin(), a.end())) + "," + tnum(std::reduce(a.begin(), a.end(), In{7}));
            s += " treduce " + tnum(std::transform_reduce(a.begin(), a.end(), b.begin(), In{7}));
            if constexpr (wide_reduce) { s += " wide " + tnum(std::reduce(a.begin(), a.end(), Wide{7})) + "," + tnum(std::transform_reduce(a.begin(), a.end(), b.begin(), Wide{7})); }
            std::iota(io.begin(), io.end(), iota_start<In>());                     // In buffer, In value (wraps while counting)
            std::iota(iw.begin(), iw.end(), iota_start<In>());                     // wide buffer, narrow counter
            s += " iota" + tvec(io.data(), L) + tvec(iw.data(), L);
            std::iota(io.begin(), io.end(), static_cast<Wide>(iota_start<In>())); // narrow buffer, wide counter
            s += tvec(io.data(), L);
        }
    }
    // ---------------- etl
    {
        NBuf<In> A("a", a, c.pad, padn(c));
        NBuf<In> B("b", b, c.pad, padn(c));
        NBuf<Wide> W1("w1", std::vector<Wide>(sz, Wide{5}), c.pad, padn(c));
        NBuf<Wide> W2("w2", std::vector<Wide>(sz, Wide{5}), c.pad, padn(c));
        NBuf<Wide> W3("w3", std::vector<Wide>(sz, Wide{5}), c.pad, padn(c));
        NBuf<Wide> W4("w4", std::vector<Wide>(sz, Wide{5}), c.pad, padn(c));
        NBuf<In> N1("n1", std::vector<In>(sz, In{5}), c.pad, padn(c));
        NBuf<In> IO("io", std::vector<In>(sz, In{5}), c.pad, padn(c));
        NBuf<Wide> IW("iw", std::vector<Wide>(sz, Wide{5}), c.pad, padn(c));
        Scope sc;
        auto r1 = noff(W1, etl::partial_sum(nat<K>(A, 0), nat<K>(A, L), noat<K>(W1, 0)));
        auto r2 = noff(W2, etl::partial_sum(nat<K>(A, 0), nat<K>(A, L), noat<K>(W2, 0), Op{}));
        auto r3 = noff(W3, etl::adjacent_difference(nat<K>(A, 0), nat<K>(A, L), noat<K>(W3, 0)));
        auto r4 = noff(W4, etl::adjacent_difference(nat<K>(A, 0), nat<K>(A, L), noat<K>(W4, 0), Op{}));
        etl::partial_sum(nat<K>(A, 0), nat<K>(A, L), noat<K>(N1, 0), Op{});
        e += "psum " + num(r1) + tvec(W1.b(), L) + " psum_op " + num(r2) + tvec(W2.b(), L) + " adiff " + (adiff_default ? num(r3) + tvec(W3.b(), L) : std::string("-")) + " adiff_op " + num(r4) + tvec(W4.b(), L) + " psum_narrow" + tvec(N1.b(), L);
        auto a1 = etl::accumulate(nat<K>(A, 0), nat<K>(A, L), Wide{7});
        auto a2 = etl::accumulate(nat<K>(A, 0), nat<K>(A, L), In{7});
        auto a3 = etl::accumulate(nat<K>(A, 0), nat<K>(A, L), Wide{7}, Op{});
        auto a4 = etl::accumulate(nat<K>(A, 0), nat<K>(A, L), In{7}, Op{});
        static_assert(std::is_same_v<decltype(a2), In> && std::is_same_v<decltype(a3), Wide>, "accumulate returns the init type");
        e += " acc " + tnum(a1) + "," + tnum(a2) + "," + tnum(a3) + "," + tnum(a4);
        auto i1 = etl::inner_product(nat<K>(A, 0), nat<K>(A, L), nat<K>(B, 0), Wide{7});
        auto i2 = etl::inner_product(nat<K>(A, 0), nat<K>(A, L), nat<K>(B, 0), In{7});
        e += " inner " + tnum(i1) + "," + tnum(i2);
        if constexpr (!flt) {
            auto d1 = etl::reduce(nat<K>(A, 0), nat<K>(A, L));
            auto d2 = etl::reduce(nat<K>(A, 0), nat<K>(A, L), Wide{7});
            auto d3 = etl::reduce(nat<K>(A, 0), nat<K>(A, L), In{7});
            static_assert(std::is_same_v<decltype(d1), In>, "reduce(first, last) returns the value type");
            e += " reduce " + tnum(d1) + "," + tnum(d3);
            auto t1 = etl::transform_reduce(nat<K>(A, 0), nat<K>(A, L), nat<K>(B, 0), Wide{7});
            auto t2 = etl::transform_reduce(nat<K>(A, 0), nat<K>(A, L), nat<K>(B, 0), In{7});
            e += " treduce " + tnum(t2);
            if constexpr (wide_reduce) { e += " wide " + tnum(d2) + "," + tnum(t1); }
            etl::iota(IO.b(), IO.e(), iota_start<In>());
            etl::iota(IW.b(), IW.e(), iota_start<In>());
            e += " iota" + tvec(IO.b(), L) + tvec(IW.b(), L);
            etl::iota(IO.b(), IO.e(), static_cast<Wide>(iota_start<In>()));
            e += tvec(IO.b(), L);
        }
    }
    return nverdict(e, s);
}
template <typename K>
auto a_num_u8_int(Case const& c) -> std::string { return typed_numeric<K, std::uint8_t, int>(c); }
template <typename K>
auto a_num_i8_int(Case const& c) -> std::string { return typed_numeric<K, std::int8_t, int>(c); }
template <typename K>
auto a_num_u32_u64(Case const& c) -> std::string { return typed_numeric<K, std::uint32_t, std::uint64_t>(c); }
template <typename K>
auto a_num_float_double(Case const& c) -> std::string { return typed_numeric<K, float, double>(c); }

// ------------------------------------------------------------------ next / prev / advance / distance
// One case = (length, start position m); every admissible n is swept inside.  Contents are irrelevant -> only all-zero a.
template <typename K>
auto a_iter_helpers(Case const& c) -> std::string
{
    if (len(c) <= 7) { // enumerated lengths: one representative (all-zero) sequence per length; random (longer) cases all run
        for (int k : c.a) {
            if (k != 0) { return SKIP; }
        }
    }
    constexpr bool bidi = K::id == 'P' || K::id == 'B' || K::id == 'R';
    constexpr bool ra   = K::id == 'P' || K::id == 'R';
    Buf A("a", mk(c.a, 0), c.pad, padn(c));
    int const L = len(c);
    std::string e;
    std::string s;
    {
        Scope sc;
        for (int n = bidi ? -c.m : 0; n <= L - c.m; ++n) {
            auto it = at<K>(A, c.m);
            etl::advance(it, n);
            e += "adv" + num(n) + "=" + num(off(A, it)) + " next=" + num(off(A, etl::next(at<K>(A, c.m), n))) + " ";
            s += "adv" + num(n) + "=" + num(c.m + n) + " next=" + num(c.m + n) + " ";
            // an integer type other than difference_type
            auto it2 = at<K>(A, c.m);
            etl::advance(it2, static_cast<short>(n));
            e += "advs=" + num(off(A, it2)) + " ";
            s += "advs=" + num(c.m + n) + " ";
        }
        if (c.m < L) {
            e += "next1=" + num(off(A, etl::next(at<K>(A, c.m)))) + " ";
            s += "next1=" + num(c.m + 1) + " ";
        }
        if constexpr (bidi) {
            for (int n = -(L - c.m); n <= c.m; ++n) {
                e += "prev" + num(n) + "=" + num(off(A, etl::prev(at<K>(A, c.m), n))) + " ";
                s += "prev" + num(n) + "=" + num(c.m - n) + " ";
            }
            if (c.m > 0) {
                e += "prev1=" + num(off(A, etl::prev(at<K>(A, c.m)))) + " ";
                s += "prev1=" + num(c.m - 1) + " ";
            }
        }
        for (int k = ra ? 0 : c.m; k <= L; ++k) {
            auto dl = at<K>(A, k); // `last` is made before `first`: a single-pass traversal starts where `first` is made
            auto df = at<K>(A, c.m);
            e += "dist" + num(k) + "=" + num(etl::distance(df, dl)) + " ";
            s += "dist" + num(k) + "=" + num(std::distance(A.b() + c.m, A.b() + k)) + " ";
        }
    }
    return verdict(e, s);
}

// ------------------------------------------------------------------ reverse_iterator against std::reverse_iterator
bool relational_excluded = false; // exclusion class "C06.reverse_iterator.relational": < <= > >= are left out of the rendering
template <typename RI, typename Base>
auto rev_sweep(Buf& A, Base (*mkbase)(Buf&, int)) -> std::string
{
    int const L = A.n;
    std::string o;
    auto ro = [&](RI const& r) { return num(off(A, r.base())); };
    for (int i = 0; i <= L; ++i) {
        RI r{mkbase(A, i)};
        o += "@" + num(i) + " base=" + ro(r);
        if (i > 0) {
            o += " *=" + ren1(*r) + " ->tag=" + num(r->tag);
        }
        if (i > 0) { // ++ moves base down
            auto t  = r;
            auto& x = ++t;
            auto t2 = r;
            auto y  = t2++;
            o += " ++=" + ro(x) + " p++=" + ro(y) + "/" + ro(t2);
        }
        if (i < L) {
            auto t  = r;
            auto& x = --t;
            auto t2 = r;
            auto y  = t2--;
            o += " --=" + ro(x) + " p--=" + ro(y) + "/" + ro(t2);
        }
        for (int j = 0; j <= L; ++j) {
            RI q{mkbase(A, j)};
            o += " " + num(j) + ":" + (r == q ? "e" : "") + (r != q ? "n" : "");
            if constexpr (std::is_pointer_v<Base> || std::is_same_v<Base, Ra<Elem>>) {
                if (!relational_excluded) { o += std::string(r < q ? "<" : "") + (r <= q ? "L" : "") + (r > q ? ">" : "") + (r >= q ? "G" : ""); }
                o += "d" + num(r - q);
            }
        }
        if constexpr (std::is_pointer_v<Base> || std::is_same_v<Base, Ra<Elem>>) {
            for (int n = -(L - i); n <= i; ++n) { // r + n has base i - n
                auto p1 = r + n;
                auto p2 = n + r;
                auto p3 = r;
                p3 += n;
                auto m1 = r - (-n);
                auto m2 = r;
                m2 -= -n;
                o += " +" + num(n) + "=" + ro(p1) + "," + ro(p2) + "," + ro(p3) + "," + ro(m1) + "," + ro(m2);
                if (i - n > 0) { o += " [" + num(n) + "]=" + ren1(r[n]); }
            }
        }
    }
    return o;
}
auto base_ptr(Buf& A, int i) -> Elem* { return A.b() + i; }
auto base_bidi(Buf& A, int i) -> vf::it::Bidi<Elem> { return at<KB>(A, i); }
auto base_ra(Buf& A, int i) -> Ra<Elem> { return at<KR>(A, i); }

template <typename K>
auto a_reverse_iterator(Case const& c) -> std::string
{
    if (len(c) > 8) { return SKIP; } // the sweep is quadratic in the length and independent of the contents
    relational_excluded = known("C06.reverse_iterator.relational");
    Buf A("a", mk(c.a, 0), c.pad, padn(c));
    std::string s;
    std::string e;
    if constexpr (K::id == 'P') {
        s = rev_sweep<std::reverse_iterator<Elem*>, Elem*>(A, &base_ptr);
        {
            Scope sc;
            e = rev_sweep<etl::reverse_iterator<Elem*>, Elem*>(A, &base_ptr);
            // make_reverse_iterator, converting constructor / assignment, default construction
            auto m = etl::make_reverse_iterator(A.e());
            etl::reverse_iterator<Elem const*> cv{m};
            etl::reverse_iterator<Elem const*> ca;
            ca = m;
            e += " make=" + num(off(A, m.base())) + " conv=" + num(cv.base() - A.b()) + " asg=" + num(ca.base() - A.b());
        }
        auto ms = std::make_reverse_iterator(A.e());
        std::reverse_iterator<Elem const*> cvs{ms};
        std::reverse_iterator<Elem const*> cas;
        cas = ms;
        s += " make=" + num(off(A, ms.base())) + " conv=" + num(cvs.base() - A.b()) + " asg=" + num(cas.base() - A.b());
    } else if constexpr (K::id == 'B') {
        s = rev_sweep<std::reverse_iterator<vf::it::Bidi<Elem>>, vf::it::Bidi<Elem>>(A, &base_bidi);
        Scope sc;
        e = rev_sweep<etl::reverse_iterator<vf::it::Bidi<Elem>>, vf::it::Bidi<Elem>>(A, &base_bidi);
    } else {
        s = rev_sweep<std::reverse_iterator<Ra<Elem>>, Ra<Elem>>(A, &base_ra);
        Scope sc;
        e = rev_sweep<etl::reverse_iterator<Ra<Elem>>, Ra<Elem>>(A, &base_ra);
    }
    g().active = false;
    return verdict(e, s);
}
// algorithms through reverse iterators: copy / find over [rbegin, rend)
template <typename K>
auto a_reverse_iterator_algo(Case const& c) -> std::string
{
    V a = mk(c.a, 0);
    V d(a.size(), Elem{55, -55});
    Elem v{c.val, 900};
    std::copy(a.rbegin(), a.rend(), d.begin());
    auto s = "find=" + num(std::find(a.rbegin(), a.rend(), v) - a.rbegin()) + " dst" + ren(d);
    Buf A("a", a, c.pad, padn(c));
    Buf D("dest", len(c), c.pad, padn(c));
    std::string e;
    {
        Scope sc;
        auto rb = etl::make_reverse_iterator(at<K>(A, len(c)));
        auto re = etl::make_reverse_iterator(at<K>(A, 0));
        etl::copy(rb, re, D.b());
        auto f = etl::find(rb, re, v);
        e      = "find=" + num(len(c) - off(A, f.base())) + " dst" + ren(D);
    }
    return verdict(e, s);
}

// ------------------------------------------------------------------ back_insert_iterator / front_insert_iterator
struct FrontBox { // minimal container with push_front
    using value_type = Elem;
    std::deque<Elem> d;
    void push_front(Elem const& v) { d.push_front(v); }
    void push_front(Elem&& v) { d.push_front(std::move(v)); }
};
template <typename K>
auto a_insert_iterators(Case const& c) -> std::string
{
    V a = mk(c.a, 0);
    V a2 = a;
    std::vector<Elem> sv;
    std::deque<Elem> sd;
    {
        auto bi = std::back_inserter(sv);
        std::copy(a.begin(), a.end(), bi);
        std::copy_if(a.begin(), a.end(), std::back_inserter(sv), Pred{c.pred});
        std::move(a2.begin(), a2.end(), std::back_inserter(sv)); // rvalue assignment
        for (auto const& x : a) {
            *bi = x;
            ++bi;
            bi++;
        }
        std::copy(a.begin(), a.end(), std::front_inserter(sd));
    }
    auto s = "back" + ren(sv) + " front" + ren(V(sd.begin(), sd.end())) + " moved-src" + ren(a2);
    Buf A("a", a, c.pad, padn(c));
    Buf A2("a2", a, c.pad, padn(c));
    etl::static_vector<Elem, 128> ev;
    FrontBox fb;
    std::string e;
    {
        Scope sc;
        auto bi = etl::back_inserter(ev);
        etl::copy(at<K>(A, 0), at<K>(A, len(c)), bi);
        etl::copy_if(at<K>(A, 0), at<K>(A, len(c)), etl::back_inserter(ev), Pred{c.pred});
        etl::move(at<K>(A2, 0), at<K>(A2, len(c)), etl::back_insert_iterator<etl::static_vector<Elem, 128>>(ev));
        for (int i = 0; i < len(c); ++i) {
            *bi = A.b()[i];
            ++bi;
            bi++;
        }
        etl::copy(at<K>(A, 0), at<K>(A, len(c)), etl::front_inserter(fb));
    }
    e = "back" + ren(V(ev.begin(), ev.end())) + " front" + ren(V(fb.d.begin(), fb.d.end())) + " moved-src" + ren(A2);
    return verdict(e, s);
}

// ------------------------------------------------------------------ ranges::in_fun_result (the only non-function header)
template <typename K>
auto a_in_fun_result(Case const& c) -> std::string
{
    if (len(c) != 1) { return SKIP; }
    Buf A("a", mk(c.a, 0), c.pad, padn(c));
    std::ranges::in_fun_result<Elem*, int> rs{A.b(), c.a[0] + 40};
    std::ranges::in_fun_result<Elem const*, long> cs1 = rs;
    std::ranges::in_fun_result<Elem const*, long> cs2 = std::move(rs);
    auto s = num(cs1.in - A.b()) + "," + num(cs1.fun) + "," + num(cs2.in - A.b()) + "," + num(cs2.fun);
    etl::ranges::in_fun_result<Elem*, int> re{A.b(), c.a[0] + 40};
    etl::ranges::in_fun_result<Elem const*, long> ce1 = re;
    etl::ranges::in_fun_result<Elem const*, long> ce2 = etl::move(re);
    auto e = num(ce1.in - A.b()) + "," + num(ce1.fun) + "," + num(ce2.in - A.b()) + "," + num(ce2.fun);
    return verdict(e, s);
}

} // namespace

auto table() -> std::vector<Entry> const&
{
    static std::vector<Entry> const t = {
        C06_REG(a_accumulate, "accumulate", 0, KP),
        C06_REG(a_accumulate, "accumulate", 0, KI),
        C06_REG(a_reduce, "reduce", 0, KP),
        C06_REG(a_reduce, "reduce", 0, KI),
        C06_REG(a_inner_product, "inner_product", D_BSAME, KP),
        C06_REG(a_inner_product, "inner_product", D_BSAME, KI),
        C06_REG(a_inner_product, "inner_product", D_BSAME, Kpi),
        C06_REG(a_inner_product, "inner_product", D_BSAME, Kip),
        C06_REG(a_inner_product, "inner_product", D_BSAME, Kfi),
        C06_REG(a_inner_product, "inner_product", D_BSAME, Kpf),
        C06_REG(a_transform_reduce, "transform_reduce", D_BSAME, KP),
        C06_REG(a_transform_reduce, "transform_reduce", D_BSAME, KI),
        C06_REG(a_transform_reduce, "transform_reduce", D_BSAME, Kpi),
        C06_REG(a_transform_reduce, "transform_reduce", D_BSAME, Kip),
        C06_REG(a_transform_reduce, "transform_reduce", D_BSAME, Kfi),
        C06_REG(a_transform_reduce, "transform_reduce", D_BSAME, Kpf),
        C06_REG(a_adjacent_difference, "adjacent_difference", 0, KP),
        C06_REG(a_adjacent_difference, "adjacent_difference", 0, KF),
        C06_REG(a_partial_sum, "partial_sum", 0, KP),
        C06_REG(a_partial_sum, "partial_sum", 0, KF),
        C06_REG(a_iota, "iota", D_VAL, KP),
        C06_REG(a_iota, "iota", D_VAL, KF),
        C06_REG(a_num_u8_int, "numeric_uint8_into_int", 0, KP),
        C06_REG(a_num_u8_int, "numeric_uint8_into_int", 0, KI),
        C06_REG(a_num_i8_int, "numeric_int8_into_int", 0, KP),
        C06_REG(a_num_u32_u64, "numeric_uint32_into_uint64", 0, KP),
        C06_REG(a_num_float_double, "numeric_float_into_double", 0, KP),
        C06_REG(a_iter_helpers, "next_prev_advance_distance", D_MID, KP),
        C06_REG(a_iter_helpers, "next_prev_advance_distance", D_MID, KI),
        C06_REG(a_iter_helpers, "next_prev_advance_distance", D_MID, KF),
        C06_REG(a_iter_helpers, "next_prev_advance_distance", D_MID, KB),
        C06_REG(a_iter_helpers, "next_prev_advance_distance", D_MID, KR),
        C06_REG(a_reverse_iterator, "reverse_iterator", 0, KP),
        C06_REG(a_reverse_iterator, "reverse_iterator", 0, KB),
        C06_REG(a_reverse_iterator, "reverse_iterator", 0, KR),
        C06_REG(a_reverse_iterator_algo, "reverse_iterator_in_algorithms", D_VAL, KP),
        C06_REG(a_reverse_iterator_algo, "reverse_iterator_in_algorithms", D_VAL, KB),
        C06_REG(a_insert_iterators, "back_front_insert_iterator", D_PRED, KP),
        C06_REG(a_insert_iterators, "back_front_insert_iterator", D_PRED, KI),
        C06_REG(a_in_fun_result, "ranges_in_fun_result", D_SMALL, KP),
    };
    return t;
}

} // namespace c06

void vf_run(vf::Ctx& c) { c06::run_table(c); }
std::string vf_replay(std::string const& sub, std::string const& cs) { return c06::replay_table(sub, cs); }
