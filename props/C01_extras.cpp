// C01 (extras) — parts of the sequence-container contract that need other element types or another build configuration
// than the history harness C01_vectors.cpp.  No rapidcheck: this TU is also built with -fno-exceptions (harness
// C01_extras_noexc / C03_noexc), where the library takes its `#if !defined(__cpp_exceptions)` branches.
//
//   erase_heterogeneous  etl::erase(c, value) with a value of another type than the element (compared as `elem == value`
//                        like std::erase: 2.5 removes no int, 259 removes no unsigned char), all contents up to length 4
//   float_compare        relational operators of static_vector<double,N> / stack over {1, NaN, +0, -0}: all pairs up to
//                        length 3 incl. an object compared with itself and with a copy (NaN != NaN also then)
//   std_elements         static_vector<std::string,6> / stack: every 5-op history over push/insert/emplace/erase/erase(c,v)/
//                        erase_if/swap/copy-assign/resize against std::vector<std::string> (ADL must not break the calls)
//   throwing_copy        (normal build) copy construction of inplace_vector / static_vector whose k-th element copy throws:
//                        nothing of the destination alive afterwards, no destructor on a never-constructed slot
//   copy_move            copy/move construction and assignment of static_vector / inplace_vector / stack over a tracked
//                        non-trivial element from every fill level, result compared with std::vector + lifetime registry
//                        (the uninitialized_copy/move algorithms behind them have a separate no-exceptions branch)
#include <etl/inplace_vector.hpp>
#include <etl/memory.hpp>
#include <etl/stack.hpp>
#include <etl/vector.hpp>

#include "tracked.hpp"
#include "verif.hpp"

#include <cmath>
#include <limits>
#include <string>
#include <type_traits>
#include <vector>

namespace {
namespace lt = vf::lt;
using TCM    = lt::TCM;

struct Case {
    int fam;       // family inside the sub
    std::uint32_t a, b;
};
auto show_case(Case const& k) -> std::string { return std::to_string(k.fam) + " " + std::to_string(k.a) + " " + std::to_string(k.b); }

// ---------------------------------------------------------------- erase_heterogeneous
// content index a: digits base 4 (length in the top), needle index b
template <typename Elem, typename Needle>
auto erase_het(char const* name, std::vector<Elem> const& content, Needle needle) -> std::string
{
    etl::static_vector<Elem, 6> v;
    std::vector<Elem> m;
    for (auto e : content) {
        v.push_back(e);
        m.push_back(e);
    }
    auto n = etl::erase(v, needle);
    auto e = std::erase(m, needle);
    if (static_cast<std::size_t>(n) != e) { return std::string(name) + ": erase(c, value) returned " + std::to_string(n) + ", std::erase returns " + std::to_string(e); }
    if (v.size() != m.size()) { return std::string(name) + ": size after erase " + std::to_string(v.size()) + ", std " + std::to_string(m.size()); }
    for (std::size_t i = 0; i < m.size(); ++i) {
        if (!(v[i] == m[i]) && !(v[i] != v[i] && m[i] != m[i])) { return std::string(name) + ": element " + std::to_string(i) + " differs from std::erase's result"; }
    }
    return "";
}
template <typename Elem>
auto decode(std::uint32_t a, Elem const (&alpha)[4]) -> std::vector<Elem>
{
    std::vector<Elem> out;
    auto len = a % 5;
    a /= 5;
    for (std::uint32_t i = 0; i < len; ++i) {
        out.push_back(alpha[a % 4]);
        a /= 4;
    }
    return out;
}
auto run_erase(Case const& k) -> std::string
{
    switch (k.fam) {
    case 0: {
        int const alpha[4]    = {1, 2, 3, 259};
        double const needles[] = {2.0, 2.5, 3.0, 259.0, -0.0, 1e30};
        return erase_het<int, double>("static_vector<int> / double value", decode(k.a, alpha), needles[k.b % 6]);
    }
    case 1: {
        unsigned char const alpha[4] = {1, 3, 200, 255};
        int const needles[]          = {3, 259, -1, 255, 256 + 200, 200};
        return erase_het<unsigned char, int>("static_vector<unsigned char> / int value", decode(k.a, alpha), needles[k.b % 6]);
    }
    case 2: {
        short const alpha[4]  = {1, -1, 2, 32767};
        long const needles[]  = {1L, 65537L, -1L, 65535L, 32767L, 98303L};
        return erase_het<short, long>("static_vector<short> / long value", decode(k.a, alpha), needles[k.b % 6]);
    }
    case 3: {
        int const alpha[4]        = {-1, 1, 2, 3};
        unsigned const needles[]  = {1U, 0xFFFFFFFFU, 2U, 3U, 0x80000000U, 0U};
        return erase_het<int, long long>("static_vector<int> / long long value", decode(k.a, alpha), static_cast<long long>(needles[k.b % 6]));
    }
    default: {
        double const alpha[4] = {1.0, 2.5, -0.0, std::numeric_limits<double>::quiet_NaN()};
        int const needles[]   = {1, 2, 0, 3, -1, 25};
        return erase_het<double, int>("static_vector<double> / int value", decode(k.a, alpha), needles[k.b % 6]);
    }
    }
}

// ---------------------------------------------------------------- float_compare
auto run_float(Case const& k) -> std::string
{
    double const alpha[4] = {1.0, std::numeric_limits<double>::quiet_NaN(), 0.0, -0.0};
    auto ca               = decode(k.a % (5 * 64), alpha);
    auto cb               = decode(k.b % (5 * 64), alpha);
    if (ca.size() > 3) { ca.resize(3); }
    if (cb.size() > 3) { cb.resize(3); }
    etl::static_vector<double, 4> a, b;
    for (auto x : ca) { a.push_back(x); }
    for (auto x : cb) { b.push_back(x); }
    auto const& ra = a; // the same object through a second name
    auto copy      = a;
    // Sequences that contain NaN are only compared with == and !=: for unordered elements C++20's std::vector derives
    // <, <=, >, >= from <=> (all false) while the pre-C++20 definition derives <= from < (true) - the reference is not
    // unique there, so the ordering operators are compared on totally ordered contents only.
    bool nan = false;
    for (auto x : ca) { nan = nan || x != x; }
    for (auto x : cb) { nan = nan || x != x; }
    auto rel = [nan](auto const& x, auto const& y) {
        auto r = std::string(x == y ? "T" : "F") + (x != y ? "T" : "F");
        if (!nan) { r += std::string(x < y ? "T" : "F") + (x <= y ? "T" : "F") + (x > y ? "T" : "F") + (x >= y ? "T" : "F"); }
        return r;
    };
    std::vector<double> const& mra = ca;
    auto mcopy                     = ca;
    struct {
        char const* what;
        std::string got, want;
    } checks[] = {
        {"a ? b", rel(a, b), rel(ca, cb)},
        {"a ? a (the same object)", rel(a, ra), rel(ca, mra)},
        {"a ? copy of a", rel(a, copy), rel(ca, mcopy)},
    };
    for (auto const& c : checks) {
        if (c.got != c.want) { return std::string("static_vector<double,4> ") + c.what + ": ==,!=[,<,<=,>,>=] give " + c.got + ", std::vector<double> gives " + c.want; }
    }
    if (k.fam == 1) {
        etl::stack<double, etl::static_vector<double, 4>> sa, sb;
        for (auto x : ca) { sa.push(x); }
        for (auto x : cb) { sb.push(x); }
        auto const& rsa = sa;
        if ((sa == sb) != (ca == cb) || (sa != sb) != (ca != cb) || (sa == rsa) != (ca == mra) || (sa != rsa) != (ca != mra)) { return "stack<double>: == / != differ from std::vector<double> (same object or other object)"; }
    }
    return "";
}

// ---------------------------------------------------------------- copy_move
template <typename V>
auto contents(V const& v) -> std::vector<int>
{
    std::vector<int> out;
    for (auto const& e : v) { out.push_back(lt::val(e)); }
    return out;
}
template <typename V, typename Push>
auto run_cm_owner(char const* name, Case const& k, Push push) -> std::string
{
    lt::reset();
    std::string err;
    {
        auto const n1 = k.a % 5;
        auto const n2 = k.b % 5;
        V src{};
        V other{};
        std::vector<int> ms, mo;
        for (std::uint32_t i = 0; i < n1; ++i) {
            push(src, static_cast<int>(10 + i));
            ms.push_back(static_cast<int>(10 + i));
        }
        for (std::uint32_t i = 0; i < n2; ++i) {
            push(other, static_cast<int>(50 + i));
            mo.push_back(static_cast<int>(50 + i));
        }
        auto expect = [&](char const* what, V const& v, std::vector<int> const& m) {
            if (err.empty() && contents(v) != m) { err = std::string(name) + ": " + what + ": contents differ from std::vector (size " + std::to_string(v.size()) + " vs " + std::to_string(m.size()) + ")"; }
            if (err.empty() && !lt::violation().empty()) { err = std::string(name) + ": " + what + ": lifetime: " + lt::violation(); }
        };
        switch (k.fam % 4) {
        case 0: {
            V c(src);
            expect("copy construction", c, ms);
            expect("source after copy construction", src, ms);
            break;
        }
        case 1: {
            V c(std::move(src));
            expect("move construction", c, ms);
            if constexpr (std::is_copy_assignable_v<V>) {
                src = other; // a moved-from source stays assignable
                expect("assignment to the moved-from source", src, mo);
            }
            break;
        }
        case 2: {
            if constexpr (std::is_copy_assignable_v<V>) {
                other = src;
                expect("copy assignment", other, ms);
                expect("source after copy assignment", src, ms);
            } else {
                V c(src); // inplace_vector has no assignment: a second copy, then a copy of the copy
                V c2(c);
                expect("copy of a copy", c2, ms);
            }
            break;
        }
        default: {
            if constexpr (std::is_move_assignable_v<V>) {
                other = std::move(src);
                expect("move assignment", other, ms);
            } else {
                V c(src);
                V c2(std::move(c));
                expect("move of a copy", c2, ms);
            }
            break;
        }
        }
    }
    if (err.empty()) {
        auto e = lt::check_empty();
        if (!e.empty()) { err = std::string(name) + ": " + e; }
    }
    return err;
}
auto run_copy_move(Case const& k) -> std::string
{
    switch (k.fam / 4) {
    case 0: return run_cm_owner<etl::static_vector<TCM, 4>>("static_vector<Tracked,4>", k, [](auto& v, int x) { v.push_back(TCM(x)); });
    case 1: return run_cm_owner<etl::inplace_vector<TCM, 4>>("inplace_vector<Tracked,4>", k, [](auto& v, int x) { v.unchecked_push_back(TCM(x)); });
    default: return run_cm_owner<etl::static_vector<lt::TCO, 4>>("static_vector<copy-only,4>", k, [](auto& v, int x) { lt::TCO t(x); v.push_back(t); });
    }
}
auto run_uninit(Case const& k) -> std::string
{
    // the algorithms themselves on raw storage: n elements, copy or move
    lt::reset();
    std::string err;
    {
        auto const n = k.a % 6;
        alignas(TCM) unsigned char sraw[6 * sizeof(TCM)];
        alignas(TCM) unsigned char draw[6 * sizeof(TCM)];
        auto* s = reinterpret_cast<TCM*>(sraw);
        auto* d = reinterpret_cast<TCM*>(draw);
        for (std::uint32_t i = 0; i < n; ++i) { ::new (static_cast<void*>(s + i)) TCM(static_cast<int>(i + 1)); }
        TCM* end = nullptr;
        switch (k.fam) {
        case 0: end = etl::uninitialized_copy(s, s + n, d); break;
        case 1: end = etl::uninitialized_move(s, s + n, d); break;
        default: {
            TCM proto(7);
            etl::uninitialized_fill(d, d + n, proto);
            end = d + n;
            break;
        }
        }
        if (end != d + n) { err = "uninitialized_{copy,move}: returned iterator is not dest + n"; }
        for (std::uint32_t i = 0; err.empty() && i < n; ++i) {
            auto want = k.fam == 2 ? 7 : static_cast<int>(i + 1);
            if (lt::val(d[i]) != want) { err = "uninitialized_{copy,move,fill}: destination element " + std::to_string(i) + " has value " + std::to_string(lt::val(d[i])) + ", expected " + std::to_string(want); }
        }
        if (err.empty() && !lt::violation().empty()) { err = "uninitialized_{copy,move,fill}: lifetime: " + lt::violation(); }
        if (err.empty()) {
            etl::destroy(d, d + n);
            etl::destroy(s, s + n);
        }
    }
    if (err.empty()) { err = lt::check_empty(); }
    return err;
}

// ---------------------------------------------------------------- std_elements
// element types from namespace std (argument-dependent lookup finds the std:: algorithms as well): the whole surface has to
// compile and to agree with std::vector.  a = five ops in base 9, b = value selector.
auto run_std_elements(Case const& k) -> std::string
{
    using S = std::string;
    etl::static_vector<S, 6> v, w;
    std::vector<S> m, mw;
    S const vals[4] = {S("pear"), S("apple, a long string that does not fit the small buffer"), S(""), S("fig")};
    auto code        = k.a;
    for (int step = 0; step < 5; ++step) {
        auto const op = code % 9;
        code /= 9;
        S const& val = vals[(k.b + static_cast<std::uint32_t>(step)) % 4];
        auto const pos = static_cast<std::ptrdiff_t>(m.empty() ? 0 : (k.b / 4 + static_cast<std::uint32_t>(step)) % (m.size() + 1));
        switch (op) {
        case 0:
            if (m.size() < 6) {
                v.push_back(val);
                m.push_back(val);
            }
            break;
        case 1:
            if (m.size() < 6) {
                v.insert(v.begin() + pos, val);
                m.insert(m.begin() + pos, val);
            }
            break;
        case 2:
            if (m.size() < 6) {
                v.emplace(v.begin() + pos, val.c_str());
                m.emplace(m.begin() + pos, val.c_str());
            }
            break;
        case 3:
            if (!m.empty()) {
                auto const e = std::min<std::ptrdiff_t>(pos, static_cast<std::ptrdiff_t>(m.size()) - 1);
                v.erase(v.begin() + e);
                m.erase(m.begin() + e);
            }
            break;
        case 4: {
            auto n = etl::erase(v, val);
            auto e = std::erase(m, val);
            if (static_cast<std::size_t>(n) != e) { return "static_vector<std::string,6>: erase(c, value) count differs"; }
            break;
        }
        case 5: {
            auto n = etl::erase_if(v, [](S const& x) { return x.empty(); });
            auto e = std::erase_if(m, [](S const& x) { return x.empty(); });
            if (static_cast<std::size_t>(n) != e) { return "static_vector<std::string,6>: erase_if count differs"; }
            break;
        }
        case 6:
            swap(v, w);
            m.swap(mw);
            break;
        case 7:
            w  = v;
            mw = m;
            break;
        default:
            v.resize(m.size() / 2);
            m.resize(m.size() / 2);
            break;
        }
        if (v.size() != m.size() || w.size() != mw.size()) { return "static_vector<std::string,6>: size differs from std::vector after op " + std::to_string(op); }
        for (std::size_t i = 0; i < m.size(); ++i) {
            if (v[i] != m[i]) { return "static_vector<std::string,6>: element " + std::to_string(i) + " differs after op " + std::to_string(op); }
        }
        if ((v == w) != (m == mw) || (v != w) != (m != mw) || (v < w) != (m < mw) || (v <= w) != (m <= mw) || (v > w) != (m > mw) || (v >= w) != (m >= mw)) { return "static_vector<std::string,6>: relational operators differ from std::vector"; }
    }
    etl::stack<S, etl::static_vector<S, 6>> st;
    for (auto const& x : m) { st.push(x); }
    auto st2 = st;
    if (!(st == st2) || st != st2 || st.size() != m.size()) { return "stack<std::string>: copy does not compare equal"; }
    return "";
}

// ---------------------------------------------------------------- throwing_copy (builds with exceptions only)
// An element whose copy constructor throws at a generated position: after the exception nothing of the destination may be
// alive, no destructor may have run on a slot that never held an object, and the source is unchanged.
#if defined(__cpp_exceptions)
struct Thrower {
    static inline Thrower const* live[32]{};
    static inline int nlive     = 0;
    static inline int countdown = -1;
    static inline char const* error = nullptr;
    int v{0};
    static void reset()
    {
        for (auto& l : live) { l = nullptr; }
        nlive     = 0;
        countdown = -1;
        error     = nullptr;
    }
    void enter()
    {
        for (auto* l : live) {
            if (l == this) {
                error = "constructor ran on a slot that already holds a live object";
                return;
            }
        }
        for (auto& l : live) {
            if (l == nullptr) {
                l = this;
                ++nlive;
                return;
            }
        }
    }
    explicit Thrower(int x) : v{x} { enter(); }
    Thrower(Thrower const& o) : v{o.v}
    {
        if (countdown == 0) {
            countdown = -1;
            throw 42;
        }
        if (countdown > 0) { --countdown; }
        enter();
    }
    auto operator=(Thrower const&) -> Thrower& = default;
    ~Thrower()
    {
        for (auto& l : live) {
            if (l == this) {
                l = nullptr;
                --nlive;
                return;
            }
        }
        error = "destructor ran on a slot that never held an object (or twice)";
    }
};
template <typename V, typename Push>
auto run_throwing_owner(char const* name, Case const& k, Push push) -> std::string
{
    Thrower::reset();
    std::string err;
    {
        auto const n        = k.a % 5;
        auto const throw_at = static_cast<int>(k.b % 6); // >= n: nothing throws
        V src{};
        for (std::uint32_t i = 0; i < n; ++i) { push(src, static_cast<int>(10 + i)); }
        int const before = Thrower::nlive;
        bool caught      = false;
        Thrower::countdown = throw_at < static_cast<int>(n) ? throw_at : -1;
        try {
            V c(src);
            Thrower::countdown = -1;
            if (c.size() != n) { err = std::string(name) + ": copy has size " + std::to_string(c.size()) + ", expected " + std::to_string(n); }
            if (err.empty() && Thrower::nlive != before + static_cast<int>(n)) { err = std::string(name) + ": copy holds " + std::to_string(Thrower::nlive - before) + " live elements, expected " + std::to_string(n); }
        } catch (int) {
            caught = true;
        }
        Thrower::countdown = -1;
        if (err.empty() && Thrower::error != nullptr) { err = std::string(name) + ": copy construction with the " + std::to_string(throw_at + 1) + ". element copy throwing: " + Thrower::error; }
        if (err.empty() && caught != (throw_at < static_cast<int>(n))) { err = std::string(name) + ": the exception of the element's copy constructor was not propagated"; }
        if (err.empty() && Thrower::nlive != before) { err = std::string(name) + ": after the copy (thrown: " + std::to_string(caught) + ") " + std::to_string(Thrower::nlive - before) + " element(s) of the destination are still alive"; }
        for (std::uint32_t i = 0; err.empty() && i < n; ++i) {
            if (src[i].v != static_cast<int>(10 + i)) { err = std::string(name) + ": the source changed"; }
        }
    }
    if (err.empty() && Thrower::nlive != 0) { err = std::string(name) + ": " + std::to_string(Thrower::nlive) + " element(s) alive after the owners were destroyed"; }
    if (err.empty() && Thrower::error != nullptr) { err = std::string(name) + ": " + Thrower::error; }
    return err;
}
auto run_throwing(Case const& k) -> std::string
{
    if (k.fam == 0) {
        return run_throwing_owner<etl::inplace_vector<Thrower, 4>>("inplace_vector<throwing copy,4>", k, [](auto& v, int x) { v.unchecked_emplace_back(x); });
    }
    return run_throwing_owner<etl::static_vector<Thrower, 4>>("static_vector<throwing copy,4>", k, [](auto& v, int x) { v.emplace_back(x); });
}
#else
auto run_throwing(Case const&) -> std::string { return ""; }
#endif

auto run(std::string const& sub, Case const& k) -> std::string
{
    if (sub == "throwing_copy") { return run_throwing(k); }
    if (sub == "std_elements") { return run_std_elements(k); }
    if (sub == "erase_heterogeneous") { return run_erase(k); }
    if (sub == "float_compare") { return run_float(k); }
    if (sub == "copy_move") { return run_copy_move(k); }
    if (sub == "uninitialized") { return run_uninit(k); }
    return "harness: unknown sub";
}

} // namespace

void vf_run(vf::Ctx& c)
{
    std::uint64_t item = 0;
    auto sweep = [&](char const* sub, int fams, std::uint32_t na, std::uint32_t nb, auto nontrivial) {
        for (int f = 0; f < fams; ++f) {
            for (std::uint32_t a = 0; a < na; ++a) {
                if (!c.mine(item++)) { continue; }
                for (std::uint32_t b = 0; b < nb; ++b) {
                    Case k{f, a, b};
                    vf::Flight<Case> fl(sub, k);
                    vf::eval(sub);
                    auto d = run(sub, k);
                    if (!d.empty()) {
                        vf::mismatch(sub, k, d);
                        if (!c.memory_only) { return; }
                    }
                    if (nontrivial(k)) { vf::nontrivial_count(); }
                    if (a == na / 2 && b == 1) { vf::sample(sub, [&] { return std::string(sub) + " case " + show_case(k); }); }
                }
            }
        }
    };
    sweep("erase_heterogeneous", 5, 5 * 256, 6, [](Case const& k) { return k.a % 5 >= 2; });
    sweep("float_compare", 2, 5 * 64, 5 * 64, [](Case const& k) { return k.a % 5 >= 1 && k.b % 5 >= 1; });
    sweep("copy_move", 12, 5, 5, [](Case const& k) { return k.a % 5 >= 2; });
    sweep("uninitialized", 3, 6, 1, [](Case const& k) { return k.a % 6 >= 2; });
#if defined(__cpp_exceptions)
    sweep("throwing_copy", 2, 5, 6, [](Case const& k) { return static_cast<int>(k.b % 6) < static_cast<int>(k.a % 5); });
#endif
    sweep("std_elements", 1, 9 * 9 * 9 * 9 * 9, 3, [](Case const& k) { return k.a % 9 != 8; });
#if defined(__cpp_exceptions)
    vf::label("built without exceptions (library's no-exceptions branches)", false);
#else
    vf::label("built without exceptions (library's no-exceptions branches)", true);
#endif
}

std::string vf_replay(std::string const& sub, std::string const& cs)
{
    Case k{0, 0, 0};
    unsigned a = 0, b = 0;
    if (std::sscanf(cs.c_str(), "%d %u %u", &k.fam, &a, &b) != 3) { return "harness: cannot parse case string"; }
    k.a = a;
    k.b = b;
    vf::Flight<Case> fl(sub.c_str(), k);
    return run(sub, k);
}
