// C20 (part 1 of 4) — etl::pair / etl::tuple construct, assign, swap and compare exactly as std::pair / std::tuple do
// for the same element values (value part; the element-type / value-category part is C20_types.cpp).
//
// Engine E2 (complete enumeration) in differential form, see C20_common.hpp: each scenario template runs against etl::
// and against std:: and both outcome strings (values, moved-from markers of the sources) must be identical.
//
//   pair.rel      all 81 pairs of pairs over {0,1,2}^2, six relations; element configs <int,int> <TCM,TCM> <int&,int const> <int,long>;
//                 all 256 pairs of pairs with a WEAKLY ordered element type (operator< coarser than operator==) in first,
//                 second and both positions: the relations must be built from < alone as [pairs.spec] says
//   pair.ops      the same 81 value pairs x {copy/move/converting assignment (also from a pair of references), member and
//                 free swap, self copy-assignment, self swap, copy/move/converting/value construction, make_pair, default
//                 construction} x element configs {int, TCM (copy+move, lifetime tracked), TMO (move only), TCO (copy only)}
//   tuple.eq/ops  all pairs of tuples over {0,1,2}^n, n = 1..4: ==, != (also heterogeneous), member swap, self swap,
//                 copy and move construction; lifetime-tracked / move-only / copy-only / reference element configs
//
// EXCLUDED because it does not exist / does not compile on the pinned tree (g++ 12, probed one by one):
//   * tuple<> (tuple_impl<index_sequence<>> has no get_type)
//   * tuple assignment (copy/move/converting; the declared move constructor deletes it)
//   * free swap(tuple&, tuple&) (none declared; generic etl::swap needs assignment); tuple relational operators < <= > >=
//   * converting tuple construction from another tuple or from a pair
//   * copy/move assignment of a pair with a reference member (defaulted operator= is deleted)
#include <etl/functional.hpp>
#include <etl/tuple.hpp>
#include <etl/utility.hpp>

#include "verif.hpp"

#include "tracked.hpp"

#include "C20_common.hpp"

namespace {

using namespace c20;

// ------------------------------------------------------------------ pair.rel
[[gnu::noinline]] auto rels_str(bool eq, bool ne, bool lt_, bool le, bool gt, bool ge, bool rlt) -> std::string
{
    Out o;
    o << "== " << eq << " != " << ne << " < " << lt_ << " <= " << le << " > " << gt << " >= " << ge << " q<p " << rlt;
    return o.s;
}
template <typename P>
auto rels(P const& p, P const& q) -> std::string
{
    return rels_str(p == q, p != q, p < q, p <= q, p > q, p >= q, q < p);
}

bool first_ties(int x, int y) { return x / 3 == y / 3; }

// An element type whose operator< is a strict weak order COARSER than its operator==: ordered by priority only,
// equal only if the id matches too.  [pairs.spec] defines pair's relations through `<` alone:
//     x < y  :=  x.first < y.first || (!(y.first < x.first) && x.second < y.second)
// so two firsts of the same priority are "equivalent" and the seconds decide, although the firsts are != .
// (operator== of the pair, on the other hand, uses the elements' ==.)  std::pair is the oracle.
struct Weak {
    int prio;
    int id;
    friend auto operator<(Weak const& a, Weak const& b) -> bool { return a.prio < b.prio; }
    friend auto operator==(Weak const& a, Weak const& b) -> bool { return a.prio == b.prio && a.id == b.id; }
};
// four values: (0,0) (0,1) (1,0) (1,1)
auto weak(int code) -> Weak { return Weak{(code / 2) % 2, code % 2}; }
bool weak_first_equivalent_not_equal(int x, int y) { return (x / 4) / 2 == (y / 4) / 2 && (x / 4) != (y / 4); }
// (An element type with operator< only and no operator== — sufficient for std::pair's < <= > >= and for etl's on the
//  unchanged tree — is deliberately NOT instantiated: a tree whose pair relations start to use == would then fail to
//  BUILD this harness (exit 2, no verdict) instead of being reported through the Weak families below.)

void add_pair_rel()
{
    add_family("pair.rel<i,i>", "pair.rel", 9, 9, []<class L>(int x, int y) {
        typename L::template pair<int, int> p{x / 3, x % 3}, q{y / 3, y % 3};
        return rels(p, q);
    }, first_ties, "pair.rel.first_elements_tie");
    add_family("pair.rel<cm,cm>", "pair.rel", 9, 9, []<class L>(int x, int y) {
        typename L::template pair<TCM, TCM> p{TCM(x / 3), TCM(x % 3)}, q{TCM(y / 3), TCM(y % 3)};
        return rels(p, q);
    }, first_ties, "pair.rel.first_elements_tie");
    add_family("pair.rel<ir,ic>", "pair.rel", 9, 9, []<class L>(int x, int y) {
        int a = x / 3, c = y / 3;
        typename L::template pair<int&, int const> p{a, x % 3}, q{c, y % 3};
        return rels(p, q);
    }, first_ties, "pair.rel.first_elements_tie");
    add_family("pair.rel<i,l>", "pair.rel", 9, 9, []<class L>(int x, int y) {
        typename L::template pair<int, long> p{x / 3, x % 3}, q{y / 3, y % 3};
        return rels(p, q);
    }, first_ties, "pair.rel.first_elements_tie");
    // weakly ordered element type in first, second and both positions: all 16 x 16 pairs of pairs over 4 x 4 values
    add_family("pair.rel<weak,i>", "pair.rel", 16, 16, []<class L>(int x, int y) {
        typename L::template pair<Weak, int> p{weak(x / 4), x % 4}, q{weak(y / 4), y % 4};
        return rels(p, q);
    }, weak_first_equivalent_not_equal, "pair.rel.first_elements_equivalent_but_not_equal");
    add_family("pair.rel<i,weak>", "pair.rel", 16, 16, []<class L>(int x, int y) {
        typename L::template pair<int, Weak> p{x / 4, weak(x % 4)}, q{y / 4, weak(y % 4)};
        return rels(p, q);
    }, +[](int x, int y) { return x / 4 == y / 4; }, "pair.rel.first_elements_tie");
    add_family("pair.rel<weak,weak>", "pair.rel", 16, 16, []<class L>(int x, int y) {
        typename L::template pair<Weak, Weak> p{weak(x / 4), weak(x % 4)}, q{weak(y / 4), weak(y % 4)};
        return rels(p, q);
    }, weak_first_equivalent_not_equal, "pair.rel.first_elements_equivalent_but_not_equal");
    // tuple has only ==: it must use the elements' ==, not equivalence under <
    add_family("tuple.eq<weak,i,weak>", "tuple.eq", 64, 64, []<class L>(int x, int y) {
        typename L::template tuple<Weak, int, Weak> t{weak(x / 16), (x / 4) % 4, weak(x % 4)}, u{weak(y / 16), (y / 4) % 4, weak(y % 4)};
        Out o;
        o << "== " << (t == u) << " != " << (t != u) << " u==t " << (u == t);
        return o.s;
    }, +[](int x, int y) { return (x / 16) / 2 == (y / 16) / 2; }, "tuple.eq.first_elements_equivalent_under_less");
}

// ------------------------------------------------------------------ pair.ops
enum class POp {
    copy_assign, move_assign, conv_copy_assign, conv_move_assign, refsrc_copy_assign, refsrc_move_assign, swap_member, swap_free, self_copy_assign, self_swap,
    copy_ctor, move_ctor, conv_copy_ctor, conv_move_ctor, refsrc_copy_ctor, refsrc_move_ctor, value_ctor_lvalues, value_ctor_rvalues, make_pair, default_ctor
};
constexpr char const* pop_names[] = {"copy_assign", "move_assign", "conv_copy_assign", "conv_move_assign", "refsrc_copy_assign", "refsrc_move_assign", "swap_member", "swap_free", "self_copy_assign",
    "self_swap", "copy_ctor", "move_ctor", "conv_copy_ctor", "conv_move_ctor", "refsrc_copy_ctor", "refsrc_move_ctor", "value_ctor_lvalues", "value_ctor_rvalues", "make_pair", "default_ctor"};

// does the op need copyable elements?
constexpr bool pop_needs_copy(POp op)
{
    switch (op) {
    case POp::copy_assign:
    case POp::refsrc_copy_assign:
    case POp::refsrc_move_assign: // forward<T&>(p.first) is an lvalue: a copy
    case POp::self_copy_assign:
    case POp::copy_ctor:
    case POp::refsrc_copy_ctor:
    case POp::refsrc_move_ctor:
    case POp::value_ctor_lvalues:
    case POp::make_pair: return true;
    default: return false;
    }
}

template <typename T>
using conv_src_t = std::conditional_t<std::is_same_v<T, int>, short, int>; // short -> int, int -> Tracked(int)

// outcome: two (first,second) value pairs and a flag
[[gnu::noinline]] auto out2(char const* n1, std::string const& a, char const* n2, std::string const& b, int flag = -1) -> std::string
{
    Out o;
    o << n1 << a << " " << n2 << b;
    if (flag >= 0) { o << " ret=*this:" << flag; }
    return o.s;
}

template <typename L, typename T1, typename T2, POp op>
auto pair_op(int x, int y) -> std::string
{
    using P  = typename L::template pair<T1, T2>;
    using S1 = conv_src_t<T1>;
    using S2 = conv_src_t<T2>;
    using PS = typename L::template pair<S1, S2>;
    using PR = typename L::template pair<T1&, T2&>;
    int a = x / 3, b = x % 3, c = y / 3, d = y % 3;
    if constexpr (op == POp::copy_assign) {
        P p{T1(a), T2(b)}, q{T1(c), T2(d)};
        P& r = (p = q);
        return out2("p", show_pair(p), "q", show_pair(q), &r == &p);
    } else if constexpr (op == POp::move_assign) {
        P p{T1(a), T2(b)}, q{T1(c), T2(d)};
        P& r = (p = std::move(q));
        return out2("p", show_pair(p), "q", show_pair(q), &r == &p);
    } else if constexpr (op == POp::conv_copy_assign) {
        P p{T1(a), T2(b)};
        PS q{static_cast<S1>(c), static_cast<S2>(d)};
        P& r = (p = q);
        return out2("p", show_pair(p), "q", show_pair(q), &r == &p);
    } else if constexpr (op == POp::conv_move_assign) {
        P p{T1(a), T2(b)};
        PS q{static_cast<S1>(c), static_cast<S2>(d)};
        P& r = (p = std::move(q));
        return out2("p", show_pair(p), "q", show_pair(q), &r == &p);
    } else if constexpr (op == POp::refsrc_copy_assign) {
        P p{T1(a), T2(b)};
        T1 e(c);
        T2 f(d);
        PR q{e, f};
        p = q;
        return out2("p", show_pair(p), "referenced", show2(val_of(e), val_of(f)));
    } else if constexpr (op == POp::refsrc_move_assign) {
        // [pairs.pair] operator=(pair<U1,U2>&& u): first = std::forward<U1>(u.first) — U1 = T1& is an lvalue: the
        // referenced objects are copied from, not moved from
        P p{T1(a), T2(b)};
        T1 e(c);
        T2 f(d);
        PR q{e, f};
        p = std::move(q);
        return out2("p", show_pair(p), "referenced", show2(val_of(e), val_of(f)));
    } else if constexpr (op == POp::swap_member) {
        P p{T1(a), T2(b)}, q{T1(c), T2(d)};
        p.swap(q);
        return out2("p", show_pair(p), "q", show_pair(q));
    } else if constexpr (op == POp::swap_free) {
        P p{T1(a), T2(b)}, q{T1(c), T2(d)};
        L::swap(p, q);
        return out2("p", show_pair(p), "q", show_pair(q));
    } else if constexpr (op == POp::self_copy_assign) {
        P p{T1(a), T2(b)};
        P& alias = p;
        p        = alias;
        return out2("p", show_pair(p), "", "");
    } else if constexpr (op == POp::self_swap) {
        P p{T1(a), T2(b)};
        p.swap(p);
        return out2("p", show_pair(p), "", "");
    } else if constexpr (op == POp::copy_ctor) {
        P q{T1(c), T2(d)};
        P r{q};
        return out2("r", show_pair(r), "q", show_pair(q));
    } else if constexpr (op == POp::move_ctor) {
        P q{T1(c), T2(d)};
        P r{std::move(q)};
        return out2("r", show_pair(r), "q", show_pair(q));
    } else if constexpr (op == POp::conv_copy_ctor) {
        PS q{static_cast<S1>(c), static_cast<S2>(d)};
        P r{q};
        return out2("r", show_pair(r), "q", show_pair(q));
    } else if constexpr (op == POp::conv_move_ctor) {
        PS q{static_cast<S1>(c), static_cast<S2>(d)};
        P r{std::move(q)};
        return out2("r", show_pair(r), "q", show_pair(q));
    } else if constexpr (op == POp::refsrc_copy_ctor) {
        T1 e(c);
        T2 f(d);
        PR q{e, f};
        P r{q};
        return out2("r", show_pair(r), "referenced", show2(val_of(e), val_of(f)));
    } else if constexpr (op == POp::refsrc_move_ctor) {
        T1 e(c);
        T2 f(d);
        PR q{e, f};
        P r{std::move(q)};
        return out2("r", show_pair(r), "referenced", show2(val_of(e), val_of(f)));
    } else if constexpr (op == POp::value_ctor_lvalues) {
        T1 e(c);
        T2 f(d);
        T1 const& ce = e;
        P r{ce, f};
        return out2("r", show_pair(r), "src", show2(val_of(e), val_of(f)));
    } else if constexpr (op == POp::value_ctor_rvalues) {
        T1 e(c);
        T2 f(d);
        P r{std::move(e), std::move(f)};
        return out2("r", show_pair(r), "src", show2(val_of(e), val_of(f)));
    } else if constexpr (op == POp::make_pair) {
        T1 e(c);
        T2 f(d);
        auto r = L::make_pair(e, std::move(f));
        return out2(type_name<decltype(r)>().c_str(), show_pair(r), "src", show2(val_of(e), val_of(f)));
    } else {
        static_assert(op == POp::default_ctor);
        P r;
        P r2{};
        return out2("r", show_pair(r), "r2", show_pair(r2));
    }
}

template <typename T1, typename T2, POp op>
void add_pair_op()
{
    if constexpr (pop_needs_copy(op) && !(copyable_kind<T1> && copyable_kind<T2>)) {
        return;
    } else {
        constexpr bool binary = static_cast<int>(op) <= static_cast<int>(POp::swap_free);
        constexpr bool unary  = op == POp::self_copy_assign || op == POp::self_swap;
        constexpr bool none   = op == POp::default_ctor;
        constexpr int nx      = (binary || unary) ? 9 : 1;
        constexpr int ny      = (none || unary) ? 1 : 9;
        NtRule nt = nullptr;
        if (binary) {
            nt = +[](int x, int y) { return x != y; }; // the two pairs differ: the effect of the op is observable
        }
        add_family(std::string("pair.") + pop_names[static_cast<int>(op)] + tags<T1, T2>(), "pair.ops", nx, ny, []<class L>(int x, int y) { return pair_op<L, T1, T2, op>(x, y); }, nt);
    }
}
template <typename T1, typename T2, int... Ops>
void add_pair_ops_seq(std::integer_sequence<int, Ops...> /*s*/)
{
    (add_pair_op<T1, T2, static_cast<POp>(Ops)>(), ...);
}
template <typename T1, typename T2>
void add_pair_ops()
{
    add_pair_ops_seq<T1, T2>(std::make_integer_sequence<int, static_cast<int>(POp::default_ctor) + 1>{});
}

// ------------------------------------------------------------------ tuples over {0,1,2}^n
constexpr int pow3(int n) { return n == 0 ? 1 : 3 * pow3(n - 1); }
constexpr int digit(int code, int i) { return (code / pow3(i)) % 3; }

template <typename T, typename... E, std::size_t... I>
auto make_coded_impl(int code, std::index_sequence<I...> /*i*/) -> T
{
    return T{E(digit(code, static_cast<int>(I)))...};
}
// Tup<E...> with element i = digit i of code
template <template <typename...> class Tup, typename... E>
auto make_coded(int code) -> Tup<E...>
{
    return make_coded_impl<Tup<E...>, E...>(code, std::index_sequence_for<E...>{});
}

enum class TOp { eq, swap_member, self_swap, copy_ctor, move_ctor };
constexpr char const* top_names[] = {"eq", "swap", "self_swap", "copy_ctor", "move_ctor"};

[[gnu::noinline]] auto eq_str(bool eq, bool ne, bool req, int refl) -> std::string
{
    Out o;
    o << "== " << eq << " != " << ne << " u==t " << req;
    if (refl >= 0) { o << " t==t " << refl; }
    return o.s;
}

template <typename L, TOp op, typename... E>
auto tuple_op(int x, int y) -> std::string
{
    using T = typename L::template tuple<E...>;
    if constexpr (op == TOp::eq) {
        T t         = make_coded<L::template tuple, E...>(x);
        T u         = make_coded<L::template tuple, E...>(y);
        T const& ct = t;
        T const& cu = u;
        return eq_str(ct == cu, ct != cu, cu == ct, ct == ct);
    } else if constexpr (op == TOp::swap_member) {
        T t = make_coded<L::template tuple, E...>(x);
        T u = make_coded<L::template tuple, E...>(y);
        t.swap(u);
        return out2("t", show_tuple<L>(t), "u", show_tuple<L>(u));
    } else if constexpr (op == TOp::self_swap) {
        T t = make_coded<L::template tuple, E...>(x);
        t.swap(t);
        return out2("t", show_tuple<L>(t), "", "");
    } else if constexpr (op == TOp::copy_ctor) {
        T t = make_coded<L::template tuple, E...>(x);
        T c{t};
        return out2("c", show_tuple<L>(c), "t", show_tuple<L>(t));
    } else {
        static_assert(op == TOp::move_ctor);
        T t = make_coded<L::template tuple, E...>(x);
        T m{std::move(t)};
        return out2("m", show_tuple<L>(m), "t", show_tuple<L>(t));
    }
}

template <TOp op, typename... E>
void add_tuple_op()
{
    constexpr int n = pow3(static_cast<int>(sizeof...(E)));
    bool binary     = op == TOp::eq || op == TOp::swap_member;
    NtRule nt         = nullptr;
    char const* label = nullptr;
    if (op == TOp::eq) {
        nt    = +[](int x, int y) { return x % 3 == y % 3; }; // first elements tie: later elements decide
        label = "tuple.eq.first_elements_tie";
    } else if (op == TOp::swap_member) {
        nt = +[](int x, int y) { return x != y; };
    }
    add_family(std::string("tuple.") + top_names[static_cast<int>(op)] + tags<E...>(), op == TOp::eq ? "tuple.eq" : "tuple.ops", n, binary ? n : 1, []<class L>(int x, int y) { return tuple_op<L, op, E...>(x, y); }, nt,
        label);
}

template <typename L, typename... A, typename... B>
auto tuple_eq_hetero(int x, int y, std::tuple<A...>* /*a*/, std::tuple<B...>* /*b*/) -> std::string
{
    auto t = make_coded<L::template tuple, A...>(x);
    auto u = make_coded<L::template tuple, B...>(y);
    return eq_str(t == u, t != u, u == t, -1);
}

void add_tuples()
{
    // int tuples, arity 1..4: equality, swap, self swap, copy, move — complete
    add_tuple_op<TOp::eq, int>();
    add_tuple_op<TOp::eq, int, int>();
    add_tuple_op<TOp::eq, int, int, int>();
    add_tuple_op<TOp::eq, int, int, int, int>();
    add_tuple_op<TOp::swap_member, int>();
    add_tuple_op<TOp::swap_member, int, int>();
    add_tuple_op<TOp::swap_member, int, int, int>();
    add_tuple_op<TOp::swap_member, int, int, int, int>();
    add_tuple_op<TOp::self_swap, int, int, int, int>();
    add_tuple_op<TOp::copy_ctor, int>();
    add_tuple_op<TOp::copy_ctor, int, int, int, int>();
    add_tuple_op<TOp::move_ctor, int>();
    add_tuple_op<TOp::move_ctor, int, int, int, int>();
    // heterogeneous / lifetime-tracked / move-only / copy-only
    add_tuple_op<TOp::eq, TCM, short, TCM, long>();
    add_tuple_op<TOp::swap_member, TCM, short, TCM, long>();
    add_tuple_op<TOp::self_swap, TCM, short, TCM, long>();
    add_tuple_op<TOp::copy_ctor, TCM, short, TCM, long>();
    add_tuple_op<TOp::move_ctor, TCM, short, TCM, long>();
    add_tuple_op<TOp::swap_member, TMO, TMO>();
    add_tuple_op<TOp::move_ctor, TMO, int, TMO>();
    add_tuple_op<TOp::self_swap, TMO, int, TMO>();
    add_tuple_op<TOp::eq, TMO, TMO, TMO>();
    add_tuple_op<TOp::swap_member, TCO, int, TCO>();
    add_tuple_op<TOp::copy_ctor, TCO, int, TCO>();
    add_tuple_op<TOp::move_ctor, TCO, int, TCO>();
    add_tuple_op<TOp::eq, int const, int const>();
    NtRule tie0 = +[](int x, int y) { return x % 3 == y % 3; };
    add_family("tuple.eq_hetero<i,l|s,i>", "tuple.eq", 9, 9, []<class L>(int x, int y) { return tuple_eq_hetero<L>(x, y, static_cast<std::tuple<int, long>*>(nullptr), static_cast<std::tuple<short, int>*>(nullptr)); }, tie0,
        "tuple.eq.first_elements_tie");
    add_family("tuple.eq_hetero<i,l,s|s,i,cm>", "tuple.eq", 27, 27,
        []<class L>(int x, int y) { return tuple_eq_hetero<L>(x, y, static_cast<std::tuple<int, long, short>*>(nullptr), static_cast<std::tuple<short, int, TCM>*>(nullptr)); }, tie0, "tuple.eq.first_elements_tie");
    add_family("tuple.eq_hetero<i,i,i,i|l,s,l,s>", "tuple.eq", 81, 81,
        []<class L>(int x, int y) { return tuple_eq_hetero<L>(x, y, static_cast<std::tuple<int, int, int, int>*>(nullptr), static_cast<std::tuple<long, short, long, short>*>(nullptr)); }, tie0, "tuple.eq.first_elements_tie");
    // default construction value-initialises every element
    add_family("tuple.default_ctor<i,cm,l>", "tuple.ops", 1, 1, []<class L>(int, int) {
        using T = typename L::template tuple<int, TCM, long>;
        T t;
        T u{};
        return out2("t", show_tuple<L>(t), "u", show_tuple<L>(u));
    });
    // reference elements: swap exchanges the referenced objects, equality reads through, a copy aliases
    add_family("tuple.ref_elements<ir,i>", "tuple.ops", 9, 9, []<class L>(int x, int y) {
        int a = x % 3, b = y % 3;
        using T = typename L::template tuple<int&, int>;
        T t{a, x / 3}, u{b, y / 3};
        Out o;
        o << "== " << (t == u);
        t.swap(u);
        o << " after swap t" << show_tuple<L>(t) << " u" << show_tuple<L>(u) << " a=" << a << " b=" << b;
        T c{std::as_const(t)};
        L::template get<0>(c) = 7;
        o << " write through copy a=" << a << " aliases:" << (&L::template get<0>(c) == &a);
        return o.s;
    });
}

// pair with reference members: swap exchanges the referenced objects, copies alias, relations read through
void add_pair_refs()
{
    add_family("pair.ref_elements<ir,ir>", "pair.ops", 9, 9, []<class L>(int x, int y) {
        int a = x / 3, b = x % 3, c = y / 3, d = y % 3;
        using P = typename L::template pair<int&, int&>;
        P p{a, b}, q{c, d};
        Out o;
        o << rels(p, q);
        p.swap(q);
        o << " member swap: a,b,c,d=" << a << b << c << d;
        L::swap(p, q);
        o << " free swap: " << a << b << c << d;
        P cp{p};
        cp.first = 7;
        typename L::template pair<int, long> conv{p}; // converting copy from references: values
        P mv{std::move(q)};
        mv.second = 8;
        o << " alias writes: " << a << b << c << d << " conv" << show_pair(conv) << " aliases:" << (&cp.first == &a) << (&mv.second == &d);
        return o.s;
    }, +[](int x, int y) { return x != y; });
}

void build()
{
    static bool done = false;
    if (done) { return; }
    done = true;
    add_pair_rel();
    add_pair_ops<int, int>();
    add_pair_ops<TCM, TCM>();
    add_pair_ops<TMO, TMO>();
    add_pair_ops<TCO, TCO>();
    add_pair_ops<TCM, int>();
    add_tuples();
    add_pair_refs();
}

} // namespace

void vf_run(vf::Ctx& c)
{
    build();
    c20::run_all(c);
}

std::string vf_replay(std::string const& /*sub*/, std::string const& cs)
{
    build();
    return c20::replay_one(cs);
}
