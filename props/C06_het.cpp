// C06 (heterogeneous values) — value-taking algorithms called with a value type different from the element type.
// Engine E2 (exhaustive small-scope enumeration) + seeded random longer inputs.  See C06_common.cpp / C06_typed_impl.cpp.
//
// Value-taking algorithms WITHOUT comparator called with a value type different from the element type: the standard
//     compares / assigns the unconverted operands (`*it < value`, `*it == value`), i.e. after the usual arithmetic
//     conversions of the PAIR, never after converting the element to the value's type (or the other way round).
//     (double, int) (double, float) (long long > 2^32, int) (unsigned, negative int) (int, double with fraction)
//     (Het<5>, Het<6> — float/double, signed char/int — are defined but not instantiated: compile budget); lower_bound upper_bound equal_range binary_search find count
//     search_n remove remove_copy replace fill fill_n copy and, between ranges of the two types, equal mismatch
//     lexicographical_compare search find_end find_first_of.
#include "C06_typed_impl.cpp"

#include <memory>

namespace c06 {
namespace {

template <typename T>
auto z1(T v) -> std::string
{
    if constexpr (std::is_floating_point_v<T>) {
        char buf[48];
        std::snprintf(buf, sizeof buf, "%.17g", static_cast<double>(v));
        return buf;
    } else if constexpr (std::is_signed_v<T>) {
        return std::to_string(static_cast<long long>(v));
    } else {
        return std::to_string(static_cast<unsigned long long>(v));
    }
}
template <typename C>
auto zv(C const& v) -> std::string
{
    std::string s = "[";
    for (std::size_t i = 0; i < v.size(); ++i) { s += (i != 0 ? " " : "") + z1(v[i]); }
    return s + "]";
}
template <typename T>
auto zp(T const* p, long n) -> std::string
{
    std::string s = "[";
    for (long i = 0; i < n; ++i) { s += (i != 0 ? " " : "") + z1(p[i]); }
    return s + "]";
}

// ================================================================== heterogeneous values
template <int Id>
struct Het;
template <>
struct Het<0> { // double elements, int value
    using E = double;
    using V = int;
    static auto e(int k) -> E { constexpr E t[] = {-1.5, -0.5, 0.5, 2.0}; return t[k & 3]; }
    static auto v(int k) -> V { constexpr V t[] = {-1, 0, 1, 2}; return t[k & 3]; }
};
template <>
struct Het<1> { // double elements, float value (0.1f != 0.1)
    using E = double;
    using V = float;
    static auto e(int k) -> E { constexpr E t[] = {0.1, 0.10000000149011612, 0.2, 0.5}; return t[k & 3]; }
    static auto v(int k) -> V { constexpr V t[] = {0.1F, 0.2F, 0.5F, 0.0F}; return t[k & 3]; }
};
template <>
struct Het<2> { // long long elements beyond 32 bits, int value
    using E = long long;
    using V = int;
    static auto e(int k) -> E { constexpr E t[] = {-5000000000LL, 4294967297LL, 1LL, 6000000000LL}; return t[k & 3]; }
    static auto v(int k) -> V { constexpr V t[] = {1, -1, 2147483647, 0}; return t[k & 3]; }
};
template <>
struct Het<3> { // unsigned elements, negative int value: the pair is compared as unsigned
    using E = unsigned;
    using V = int;
    static auto e(int k) -> E { constexpr E t[] = {0U, 5U, 4000000000U, 4294967295U}; return t[k & 3]; }
    static auto v(int k) -> V { constexpr V t[] = {-1, 5, 0, -294967296}; return t[k & 3]; }
};
template <>
struct Het<4> { // int elements, double value with a fraction
    using E = int;
    using V = double;
    static auto e(int k) -> E { constexpr E t[] = {-1, 0, 1, 3}; return t[k & 3]; }
    static auto v(int k) -> V { constexpr V t[] = {0.5, -0.5, 1.0, 2.5}; return t[k & 3]; }
};
template <>
struct Het<5> { // float elements, double value
    using E = float;
    using V = double;
    static auto e(int k) -> E { constexpr E t[] = {0.1F, 0.2F, 0.3F, 16777216.0F}; return t[k & 3]; }
    static auto v(int k) -> V { constexpr V t[] = {0.1, 0.2, 16777217.0, 0.30000001192092896}; return t[k & 3]; }
};
template <>
struct Het<6> { // signed char elements, int value outside the element type's range
    using E = signed char;
    using V = int;
    static auto e(int k) -> E { constexpr int t[] = {-128, -3, 5, 127}; return static_cast<E>(t[k & 3]); }
    static auto v(int k) -> V { constexpr V t[] = {200, -3, 5, -129}; return t[k & 3]; }
};

template <int Id>
auto het(Case const& c) -> std::string
{
    using H = Het<Id>;
    using E = typename H::E;
    using V = typename H::V;
    int const L    = len(c);
    int const LB   = lenb(c);
    int const m    = L == 0 ? 0 : c.val % (L + 1);
    int const mode = c.pad;
    std::vector<E> a;
    std::vector<V> b;
    for (int k : c.a) { a.push_back(H::e(k)); }
    for (int k : c.b) { b.push_back(H::v(k)); }
    V const v  = H::v(c.val);
    V const nv = H::v(c.val + 1);
    auto sa    = a;
    std::sort(sa.begin(), sa.end()); // sorted by the element type's own order => partitioned with respect to any fixed value
    std::string s;
    std::string e;
    {
        auto f = a.begin();
        auto l = a.end();
        auto er = std::equal_range(sa.begin(), sa.end(), v);
        kv(s, "lb=", std::lower_bound(sa.begin(), sa.end(), v) - sa.begin());
        kv(s, " ub=", std::upper_bound(sa.begin(), sa.end(), v) - sa.begin());
        kv(s, " er=", er.first - sa.begin());
        kv(s, ",", er.second - sa.begin());
        kb(s, " bin=", std::binary_search(sa.begin(), sa.end(), v));
        kv(s, " find=", std::find(f, l, v) - f);
        kv(s, " count=", std::count(f, l, v));
        kv(s, " search_n=", std::search_n(f, l, 2, v) - f);
        {
            auto x = a;
            auto r = std::remove(x.begin(), x.end(), v) - x.begin();
            x.resize(static_cast<std::size_t>(r));
            kv(s, " remove=", r);
            s += zv(x);
            std::vector<E> d(a.size(), E{});
            auto r2 = std::remove_copy(f, l, d.begin(), v) - d.begin();
            d.resize(static_cast<std::size_t>(r2));
            kv(s, " remove_copy=", r2);
            s += zv(d);
            auto y = a;
            std::replace(y.begin(), y.end(), v, nv);
            s += " replace" + zv(y);
            auto z = a;
            std::fill(z.begin(), z.end(), v);
            auto w = a;
            auto r3 = std::fill_n(w.begin(), m, v) - w.begin();
            s += " fill" + zv(z);
            kv(s, " fill_n=", r3);
            s += zv(w);
            std::vector<V> cv(a.size(), V{});
            std::copy(f, l, cv.begin());
            s += " copy" + zv(cv);
        }
        kb(s, " eq4=", std::equal(f, l, b.begin(), b.end()));
        if (LB >= L) { kb(s, " eq3=", std::equal(f, l, b.begin())); }
        auto mm = std::mismatch(f, l, b.begin(), b.end());
        kv(s, " mm=", mm.first - f);
        kv(s, ",", mm.second - b.begin());
        kb(s, " lex=", std::lexicographical_compare(f, l, b.begin(), b.end()));
        kb(s, "", std::lexicographical_compare(b.begin(), b.end(), f, l));
        kv(s, " search=", std::search(f, l, b.begin(), b.end()) - f);
        kv(s, " find_end=", std::find_end(f, l, b.begin(), b.end()) - f);
        kv(s, " ffo=", std::find_first_of(f, l, b.begin(), b.end()) - f);
    }
    {
        TBuf<E> A("a", a, mode);
        TBuf<V> B("b", b, mode);
        TBuf<E> SA("sorted_a", sa, mode);
        Scope sc;
        E* f  = A.b();
        E* l  = A.e();
        auto er = etl::equal_range(SA.b(), SA.e(), v);
        kv(e, "lb=", etl::lower_bound(SA.b(), SA.e(), v) - SA.b());
        kv(e, " ub=", etl::upper_bound(SA.b(), SA.e(), v) - SA.b());
        kv(e, " er=", er.first - SA.b());
        kv(e, ",", er.second - SA.b());
        kb(e, " bin=", etl::binary_search(SA.b(), SA.e(), v));
        kv(e, " find=", etl::find(f, l, v) - f);
        kv(e, " count=", etl::count(f, l, v));
        kv(e, " search_n=", etl::search_n(f, l, 2, v) - f);
        {
            TBuf<E> X("x", a, mode);
            auto r = etl::remove(X.b(), X.e(), v) - X.b();
            kv(e, " remove=", r);
            e += zp(X.b(), r);
            auto keep = static_cast<std::size_t>(L - std::count(a.begin(), a.end(), v));
            TBuf<E> D("remove_copy_dest", std::vector<E>(keep, E{}), mode);
            auto r2 = etl::remove_copy(f, l, D.b(), v) - D.b();
            kv(e, " remove_copy=", r2);
            e += zp(D.b(), D.n);
            TBuf<E> Y("y", a, mode);
            etl::replace(Y.b(), Y.e(), v, nv);
            e += " replace" + zp(Y.b(), Y.n);
            TBuf<E> Z("z", a, mode);
            etl::fill(Z.b(), Z.e(), v);
            TBuf<E> W("w", a, mode);
            auto r3 = etl::fill_n(W.b(), m, v) - W.b();
            e += " fill" + zp(Z.b(), Z.n);
            kv(e, " fill_n=", r3);
            e += zp(W.b(), W.n);
            TBuf<V> CV("copy_dest", std::vector<V>(a.size(), V{}), mode);
            etl::copy(f, l, CV.b());
            e += " copy" + zp(CV.b(), CV.n);
        }
        kb(e, " eq4=", etl::equal(f, l, B.b(), B.e()));
        if (LB >= L) { kb(e, " eq3=", etl::equal(f, l, B.b())); }
        auto mm = etl::mismatch(f, l, B.b(), B.e());
        kv(e, " mm=", mm.first - f);
        kv(e, ",", mm.second - B.b());
        kb(e, " lex=", etl::lexicographical_compare(f, l, B.b(), B.e()));
        kb(e, "", etl::lexicographical_compare(B.b(), B.e(), f, l));
        kv(e, " search=", etl::search(f, l, B.b(), B.e()) - f);
        kv(e, " find_end=", etl::find_end(f, l, B.b(), B.e()) - f);
        kv(e, " ffo=", etl::find_first_of(f, l, B.b(), B.e()) - f);
    }
    return tverdict(e, s);
}
template <typename K>
auto a_het0(Case const& c) -> std::string { return het<0>(c); }
template <typename K>
auto a_het1(Case const& c) -> std::string { return het<1>(c); }
template <typename K>
auto a_het2(Case const& c) -> std::string { return het<2>(c); }
template <typename K>
auto a_het3(Case const& c) -> std::string { return het<3>(c); }
template <typename K>
auto a_het4(Case const& c) -> std::string { return het<4>(c); }

} // namespace

auto table() -> std::vector<Entry> const&
{
    constexpr unsigned TY = D_B | D_VAL | D_LEN4;
    static std::vector<Entry> const t = {
        C06_REG(a_het0, "value_int_in_double_elements", TY, KP),
        C06_REG(a_het1, "value_float_in_double_elements", TY, KP),
        C06_REG(a_het2, "value_int_in_long_long_elements", TY, KP),
        C06_REG(a_het3, "value_negative_int_in_unsigned_elements", TY, KP),
        C06_REG(a_het4, "value_double_in_int_elements", TY, KP),
    };
    return t;
}

} // namespace c06

void vf_run(vf::Ctx& c) { c06::run_table(c); }
std::string vf_replay(std::string const& sub, std::string const& cs) { return c06::replay_table(sub, cs); }
